"""Shared machinery for the mockery verification checks.

Everything here is stdlib-only Python 3.  One `Ctx` per check invocation owns a
scratch directory (outside /repo and /verif) that is removed on exit.

Exit-code policy (DESIGN.md section 5):
  0  property held on everything explored (KNOWN-FINDING lines may be printed)
  1  VIOLATION property=<id> replay=<path>   (real-code behaviour rejected by the contract)
  2  machinery could not decide (build failure, TLC crash, vacuity guard, ...)
"""
from __future__ import annotations

import atexit
import hashlib
import json
import os
import random
import re
import shutil
import subprocess
import sys
import tempfile
import time
from pathlib import Path

VERIF = Path(__file__).resolve().parent.parent
REPO = Path(os.environ.get("VERIF_REPO", "/repo"))
SPEC = VERIF / "spec"
EVID = Path(os.environ.get("VERIF_EVIDENCE_DIR") or (VERIF / "evidence"))  # redirected when trying mutants
KNOWN = VERIF / "known_findings.jsonl"

GO_SUM_MOD = """module example.com/w

go 1.23

require github.com/stretchr/testify v1.10.0

require (
	github.com/davecgh/go-spew v1.1.2-0.20180830191138-d8f796af33cc // indirect
	github.com/pmezard/go-difflib v1.0.1-0.20181226105442-5d4384ee4fb2 // indirect
	github.com/stretchr/objx v0.5.2 // indirect
	gopkg.in/yaml.v3 v3.0.1 // indirect
)
"""


class MachineryError(Exception):
    """The check could not decide (exit 2); never a violation."""


def go_env(extra=None, workspace=False):
    env = dict(os.environ)
    env["GOPROXY"] = "off"
    env.pop("GOSUMDB", None)
    env["GOTOOLCHAIN"] = "auto"
    env["GONOSUMDB"] = "*"
    env["GONOSUMCHECK"] = "1"
    env["GOFLAGS"] = "" if workspace else "-mod=mod"
    if not workspace:
        env["GOWORK"] = "off"
    else:
        env.pop("GOWORK", None)
    env.pop("VERIFHOOK_TRACE", None)
    env.pop("VERIFHOOK_FAIL", None)
    for k in list(env):
        if k.startswith("MOCKERY_"):
            del env[k]
    if extra:
        env.update(extra)
    return env


def sha(b: bytes) -> str:
    return hashlib.sha256(b).hexdigest()[:16]


def tree_hash(root, skip=()):
    """relpath -> 'DIR' | sha256-prefix of content, for every entry below root."""
    root = Path(root)
    out = {}
    for dp, dns, fns in os.walk(root):
        rel = os.path.relpath(dp, root)
        dns.sort()
        for d in dns:
            r = os.path.normpath(os.path.join(rel, d))
            if any(r == s or r.startswith(s + "/") for s in skip):
                continue
            out[r] = "DIR"
        for f in sorted(fns):
            r = os.path.normpath(os.path.join(rel, f))
            if any(r == s or r.startswith(s + "/") for s in skip):
                continue
            try:
                out[r] = sha(open(os.path.join(dp, f), "rb").read())
            except OSError as e:  # unreadable: still part of the state
                out[r] = "ERR:" + type(e).__name__
    return out


PANIC_RE = re.compile(r"^(panic: |goroutine \d+ \[running\]|fatal error: )", re.M)


class RunResult:
    def __init__(self, code, out, err, wall, timed_out, trace):
        self.code = code
        self.out = out
        self.err = err
        self.wall = wall
        self.timed_out = timed_out
        self.trace = trace  # list of event dicts (hook build only)

    @property
    def panicked(self):
        return bool(PANIC_RE.search(self.err)) or bool(PANIC_RE.search(self.out)) or self.code == 2 and "panic" in (self.err + self.out)

    def brief(self):
        return {"exit": self.code, "panic": self.panicked, "timeout": self.timed_out,
                "stderr_tail": (self.err + self.out)[-600:]}


class Ctx:
    def __init__(self, prop, tier=None, seed=None):
        self.prop = prop
        self.tier = tier or os.environ.get("VERIF_TIER", "quick")
        if self.tier not in ("quick", "thorough"):
            self.tier = "quick"
        try:
            self.seed = int(seed if seed is not None else os.environ.get("VERIF_SEED", "1"))
        except ValueError:
            self.seed = 1
        self.rng = random.Random(self.seed)
        self.t0 = time.time()
        base = os.environ.get("VERIF_SCRATCH") or tempfile.gettempdir()
        self.scratch = Path(tempfile.mkdtemp(prefix=f"verif-{prop}-", dir=base))
        atexit.register(self.cleanup)
        self.violations = []      # (sig, detail)
        self.known_hits = {}      # finding id -> count
        self.notes = []           # drift notes etc.
        self.assumptions = []
        self.cov = {"states": 0, "transitions": 0, "traces_validated_against_impl": 0,
                    "samples": [], "evaluations": 0, "distinct_nontrivial": 0}
        self._snap = None
        self._bin = {}
        self.known = load_known()
        self._n = 0

    # ------------------------------------------------------------------ scratch
    def cleanup(self):
        if os.environ.get("VERIF_KEEP"):
            return
        shutil.rmtree(self.scratch, ignore_errors=True)

    def mkdir(self, name=None):
        self._n += 1
        d = self.scratch / (name or f"d{self._n}")
        d.mkdir(parents=True, exist_ok=True)
        return d

    def workers(self):
        return max(1, min(16, os.cpu_count() or 4))

    def thorough(self):
        return self.tier == "thorough"

    # ------------------------------------------------------------------ builds
    def snapshot(self):
        """rsync /repo's working tree (not HEAD) into scratch; nothing is built in /repo."""
        if self._snap is None:
            d = self.scratch / "snap"
            r = subprocess.run(["rsync", "-a", "--exclude", ".git", str(REPO) + "/", str(d) + "/"],
                               capture_output=True, text=True)
            if r.returncode != 0:
                raise MachineryError("rsync snapshot failed: " + r.stderr[-400:])
            self._snap = d
        return self._snap

    def mockery(self):
        if "mockery" not in self._bin:
            snap = self.snapshot()
            out = self.scratch / "bin-mockery"
            r = subprocess.run(["go", "build", "-tags", "verif", "-o", str(out), "."], cwd=snap,
                               env=go_env(workspace=True), capture_output=True, text=True)
            if r.returncode != 0:
                raise MachineryError("building mockery from the working tree failed:\n" + r.stderr[-2000:])
            self._bin["mockery"] = out
        return self._bin["mockery"]

    def tools_bin(self):
        if "tools" not in self._bin:
            snap = self.snapshot()
            out = self.scratch / "bin-tools"
            r = subprocess.run(["go", "build", "-o", str(out), "."], cwd=snap / "tools",
                               env=go_env(workspace=True), capture_output=True, text=True)
            if r.returncode != 0:
                raise MachineryError("building tools from the working tree failed:\n" + r.stderr[-2000:])
            self._bin["tools"] = out
        return self._bin["tools"]

    def build_driver(self, name):
        """Build /verif/drivers/<name> as a main package *inside* the working-tree snapshot (workspace mode),
        so it links against the code under test."""
        key = "drv-" + name
        if key not in self._bin:
            snap = self.snapshot()
            dst = snap / "internal" / "verifdrv" / name
            shutil.copytree(VERIF / "drivers" / name, dst, dirs_exist_ok=True)
            out = self.scratch / f"bin-{name}"
            r = subprocess.run(["go", "build", "-tags", "verif", "-o", str(out), f"./internal/verifdrv/{name}"], cwd=snap,
                               env=go_env(workspace=True), capture_output=True, text=True)
            if r.returncode != 0:
                raise MachineryError(f"building driver {name} against the working tree failed:\n" + r.stderr[-2000:])
            self._bin[key] = out
        return self._bin[key]

    # ------------------------------------------------------------------ running the binary
    def run_mockery(self, cwd, args=(), env=None, timeout=60, trace=True, fail=None):
        """Run the freshly built mockery in cwd.  Returns RunResult with parsed hook trace."""
        binp = self.mockery()
        self._n += 1
        tfile = self.scratch / f"trace-{self._n}.ndjson"
        e = go_env(env)
        if trace:
            e["VERIFHOOK_TRACE"] = str(tfile)
        if fail:
            e["VERIFHOOK_FAIL"] = fail
        t = time.time()
        to = False
        try:
            p = subprocess.run([str(binp), *args], cwd=cwd, env=e, capture_output=True, text=True,
                               timeout=timeout, errors="replace")
            code, out, err = p.returncode, p.stdout, p.stderr
        except subprocess.TimeoutExpired as ex:
            to = True
            code = -9
            out = (ex.stdout or b"").decode("utf8", "replace") if isinstance(ex.stdout, bytes) else (ex.stdout or "")
            err = (ex.stderr or b"").decode("utf8", "replace") if isinstance(ex.stderr, bytes) else (ex.stderr or "")
        evs = []
        if trace and tfile.exists():
            for ln in tfile.read_text().splitlines():
                try:
                    evs.append(json.loads(ln))
                except ValueError:
                    pass
            tfile.unlink()
        return RunResult(code, out, err, time.time() - t, to, evs)

    # ------------------------------------------------------------------ worlds
    def new_world(self, files, module="example.com/w", gomod=None, name=None):
        """Materialise a scratch Go module.  files: relpath -> str|bytes|None(dir)."""
        d = self.mkdir(name)
        (d / "go.mod").write_text(gomod if gomod is not None else GO_SUM_MOD.replace("example.com/w", module))
        shutil.copy(REPO / "go.sum", d / "go.sum")
        write_files(d, files)
        return d

    def go(self, cwd, *args, timeout=600, env=None):
        p = subprocess.run(["go", *args], cwd=cwd, env=go_env(env), capture_output=True, text=True, timeout=timeout)
        return p.returncode, p.stdout, p.stderr

    # ------------------------------------------------------------------ TLC
    def tlc(self, module, cfg, *, workers=None, simulate=None, depth=None, deadlock=True, extra=None,
            timeout=900, files=None, coverage=False, count=True, dfs=False, seed=None):
        """Run TLC on spec/<module>.tla with spec/cfg/<cfg> in a scratch copy of /verif/spec.

        files: extra files to drop next to the spec (e.g. trace.ndjson, generated constants module).
        Returns TLCResult.  Adds state counts to this check's coverage when count=True.
        """
        self._n += 1
        d = self.scratch / f"tlc-{self._n}"
        shutil.copytree(SPEC, d, ignore=shutil.ignore_patterns("states", "*.out", ".tlacache"))
        for rel, content in (files or {}).items():
            p = d / rel
            p.parent.mkdir(parents=True, exist_ok=True)
            if isinstance(content, bytes):
                p.write_bytes(content)
            else:
                p.write_text(content)
        cfgp = d / "cfg" / cfg
        if not cfgp.exists():
            raise MachineryError(f"missing cfg {cfg}")
        shutil.copy(cfgp, d / cfg)
        w = workers or self.workers()
        cmd = ["tlc", "-workers", str(w), "-metadir", str(d / "meta"), "-config", cfg]
        if not deadlock:
            cmd.append("-deadlock")
        if coverage:
            cmd += ["-coverage", "1"]
        if simulate:
            cmd += ["-simulate", simulate]
            if depth:
                cmd += ["-depth", str(depth)]
            cmd += ["-seed", str(seed if seed is not None else self.seed)]
        if extra:
            cmd += list(extra)
        cmd.append(module + ".tla")
        env = dict(os.environ)
        jto = env.get("JAVA_TOOL_OPTIONS", "")
        jto += " -Xss64m"
        if dfs:
            jto += " -Dtlc2.tool.queue.IStateQueue=StateDeque"
        env["JAVA_TOOL_OPTIONS"] = jto.strip()
        t = time.time()
        try:
            p = subprocess.run(cmd, cwd=d, env=env, capture_output=True, text=True, timeout=timeout, errors="replace")
        except subprocess.TimeoutExpired:
            subprocess.run(["pkill", "-f", str(d / "meta")], capture_output=True)
            raise MachineryError(f"TLC timed out after {timeout}s on {module}/{cfg}")
        res = TLCResult(module, cfg, p.returncode, p.stdout + p.stderr, time.time() - t, d)
        if count:
            self.cov["states"] += res.distinct
            self.cov["transitions"] += res.generated
        if not os.environ.get("VERIF_KEEP"):
            shutil.rmtree(d / "meta", ignore_errors=True)
        return res

    def tlc_ok(self, *a, **kw):
        """Run TLC and require success (no violation, no error).  Model-level failure = machinery error
        unless the caller handles predicted counterexamples itself via tlc()."""
        r = self.tlc(*a, **kw)
        if not r.ok:
            raise MachineryError(f"TLC did not succeed on {r.module}/{r.cfg} (exit {r.code}):\n{r.tail()}")
        return r

    def validate_trace(self, module, cfg, events, *, timeout=300, extra_files=None, name="trace.ndjson"):
        """Trace validation: events (list of dicts) -> ndjson -> TLC with POSTCONDITION.
        Returns (accepted: bool, result).  Accepted means TLC finished with no violated invariant/postcondition."""
        files = {name: "".join(json.dumps(e, sort_keys=True) + "\n" for e in events)}
        files.update(extra_files or {})
        r = self.tlc(module, cfg, workers=1, deadlock=False, files=files, timeout=timeout, count=False, dfs=True)
        if r.crashed:
            raise MachineryError(f"trace validation crashed on {module}/{cfg}:\n{r.tail()}")
        return r.ok, r

    # ------------------------------------------------------------------ verdicts
    def sample(self, s, cap=6):
        if len(self.cov["samples"]) < cap:
            self.cov["samples"].append(s)

    def violation(self, sig: dict, detail: dict):
        """Record a real-code behaviour the contract rejects.  sig identifies the failing case for
        known-finding matching; detail is written to the replay file."""
        f = match_known(self.known, self.prop, sig)
        if f is not None:
            self.known_hits.setdefault(f["id"], {"f": f, "n": 0, "ex": sig})["n"] += 1
            return False
        self.violations.append((sig, detail))
        return True

    def note(self, s):
        if len(self.notes) < 50:
            self.notes.append(s)

    def finish(self, level="model_checking", extra_cov=None, exhaustive=None):
        wall = time.time() - self.t0
        cov = dict(self.cov)
        if extra_cov:
            cov.update(extra_cov)
        if exhaustive is not None:
            cov["exhaustive"] = bool(exhaustive)
        if not cov["samples"]:
            cov["samples"] = ["(no sample recorded)"]
        cov["known_findings_hit"] = {k: v["n"] for k, v in self.known_hits.items()}
        if self.notes:
            cov["notes"] = self.notes
        # never claim more than was measured
        cov["states"] = max(cov["states"], 1) if cov["states"] else cov["states"]
        replay_paths = []
        rdir = EVID / "replays" / self.prop
        if self.violations:
            rdir.mkdir(parents=True, exist_ok=True)
        for i, (sig, detail) in enumerate(self.violations[:20]):
            p = rdir / f"{self.tier}-seed{self.seed}-{i}.json"
            p.write_text(json.dumps({"property": self.prop, "sig": sig, "detail": detail, "seed": self.seed,
                                     "tier": self.tier}, indent=1, default=str))
            replay_paths.append(p)
        ev = {"property_id": self.prop, "tier": self.tier, "seed": self.seed, "level": level,
              "coverage": cov, "assumptions": self.assumptions, "wall_s": round(wall, 2),
              "violations": len(self.violations)}
        EVID.mkdir(parents=True, exist_ok=True)
        (EVID / f"{self.prop}.json").write_text(json.dumps(ev, indent=1, default=str) + "\n")
        # per-tier digest of the last run (evidence/<id>.json is overwritten by whichever tier ran last);
        # DESIGN.md section 12 is generated from these
        try:
            (EVID / "summary").mkdir(parents=True, exist_ok=True)
            digest = {"property_id": self.prop, "tier": self.tier, "seed": self.seed, "wall_s": round(wall, 1),
                      "violations": len(self.violations),
                      "known_findings_hit": cov.get("known_findings_hit", {}),
                      **{k: cov.get(k) for k in ("states", "transitions", "evaluations", "traces_validated_against_impl",
                                                 "distinct_nontrivial", "exhaustive")}}
            (EVID / "summary" / f"{self.prop}.{self.tier}.json").write_text(json.dumps(digest, indent=1, default=str) + "\n")
        except OSError:
            pass
        for k, v in sorted(self.known_hits.items()):
            print(f"KNOWN-FINDING: property={self.prop} {v['f']['what']} [{k}; {v['n']} case(s)]")
        for p in replay_paths:
            print(f"VIOLATION property={self.prop} replay={p}")
        if self.violations:
            for sig, _ in self.violations[:20]:
                print("  sig:", json.dumps(sig, sort_keys=True, default=str))
            print(f"{self.prop}: {len(self.violations)} violation(s) in {wall:.1f}s")
            return 1
        print(f"{self.prop}: OK tier={self.tier} seed={self.seed} states={cov.get('states')} "
              f"evaluations={cov.get('evaluations')} traces={cov.get('traces_validated_against_impl')} {wall:.1f}s")
        return 0


class TLCResult:
    GEN = re.compile(r"(\d+) states generated, (\d+) distinct states found")

    def __init__(self, module, cfg, code, text, wall, dir_):
        self.module, self.cfg, self.code, self.text, self.wall, self.dir = module, cfg, code, text, wall, dir_
        self.generated = 0
        self.distinct = 0
        for m in self.GEN.finditer(text):
            self.generated, self.distinct = int(m.group(1)), int(m.group(2))
        if self.generated == 0:
            m = re.search(r"The number of states generated: (\d+)", text)
            if m:
                self.generated = self.distinct = int(m.group(1))
        self.violated = None
        for pat in (r"Invariant (\S+) is violated", r"Action property (\S+) is violated",
                    r"(Temporal properties) were violated", r"Postcondition (\S+) ", r"(Deadlock) reached",
                    r"(Assumption) .* is false"):
            m = re.search(pat, text)
            if m:
                self.violated = m.group(1)
                break
        self.finished = "Finished in" in text
        self.crashed = (self.code not in (0, 10, 11, 12, 13)) or "unexpected exception" in text \
            or "Parsing or semantic analysis failed" in text or not self.finished \
            or (self.code != 0 and not self.violated)
        self.ok = self.code == 0 and not self.violated and not self.crashed
        m = re.search(r'<<"CONSUMED", (\d+), (\d+)>>', text)
        self.consumed = (int(m.group(1)), int(m.group(2))) if m else None
        m = re.search(r"depth of the complete state graph search is (\d+)", text)
        self.depth = int(m.group(1)) if m else None

    def tail(self, n=40):
        lines = [ln for ln in self.text.splitlines() if not ln.startswith(("Parsing file", "Semantic processing", "Linting of"))
                 and not ln.startswith('<<"CASE"')]
        return "\n".join(lines[-n:])

    def prints(self, tag="CASE"):
        """Values printed with PrintT(<<tag, ToJson(x)>>) -> list of python objects (order preserved)."""
        out = []
        pat = '<<"' + tag + '", "'
        for ln in self.text.splitlines():
            i = ln.find(pat)
            if i < 0:
                continue
            s = ln[i + len(pat):]
            j = s.rfind('">>')
            if j < 0:
                continue
            out.append(json.loads(tla_unescape(s[:j])))
        return out

    def coverage_zero(self):
        """Lines of the -coverage report with a zero count for an action (vacuity guard)."""
        return [ln.strip() for ln in self.text.splitlines() if re.search(r"^<\w+ line .*>: 0:0$", ln.strip())]


def tla_unescape(s):
    if "\\" not in s:
        return s
    if not re.search(r'\\[^"\\]', s):
        return s.replace('\\"', '"').replace("\\\\", "\\") if '\\\\' not in s else _tla_unescape_slow(s)
    return _tla_unescape_slow(s)


def _tla_unescape_slow(s):
    out = []
    i = 0
    while i < len(s):
        c = s[i]
        if c == "\\" and i + 1 < len(s):
            n = s[i + 1]
            out.append({"n": "\n", "t": "\t", '"': '"', "\\": "\\", "r": "\r", "f": "\f"}.get(n, "\\" + n))
            i += 2
        else:
            out.append(c)
            i += 1
    return "".join(out)


def write_files(root, files):
    root = Path(root)
    for rel, content in files.items():
        p = root / rel
        if content is None:
            p.mkdir(parents=True, exist_ok=True)
            continue
        p.parent.mkdir(parents=True, exist_ok=True)
        if isinstance(content, bytes):
            p.write_bytes(content)
        else:
            p.write_text(content)


def load_known():
    out = []
    if KNOWN.exists():
        for ln in KNOWN.read_text().splitlines():
            ln = ln.strip()
            if not ln or ln.startswith("#") or ln.startswith("fixed:"):
                continue
            try:
                out.append(json.loads(ln))
            except ValueError:
                raise MachineryError("known_findings.jsonl: bad line: " + ln[:80])
    return out


def match_known(known, prop, sig):
    """A finding matches when every key of finding['match'] is present in sig with an equal value
    (or, when the finding lists several values, one of them).  Findings are per failing input class,
    never per property."""
    for f in known:
        if prop not in f.get("properties", [f.get("property")]):
            continue
        ok = True
        for k, v in f["match"].items():
            if k not in sig:
                ok = False
                break
            sv = sig[k]
            if isinstance(v, list):
                if sv not in v:
                    ok = False
                    break
            elif sv != v:
                ok = False
                break
        if ok:
            return f
    return None


def main(prop, fn):
    """Entry point used by checks/<id>.py:  fn(ctx) explores; verdict + evidence handled here."""
    tier = None
    seed = None
    args = sys.argv[1:]
    replay = None
    i = 0
    while i < len(args):
        a = args[i]
        if a in ("quick", "thorough"):
            tier = a
        elif a == "--tier":
            tier = args[i + 1]; i += 1
        elif a == "--seed":
            seed = args[i + 1]; i += 1
        elif a == "--replay":
            replay = args[i + 1]; i += 1
        i += 1
    ctx = Ctx(prop, tier, seed)
    ctx.replay = replay
    try:
        res = fn(ctx) or {}
        code = ctx.finish(**res)
    except MachineryError as e:
        print(f"{prop}: MACHINERY ERROR (exit 2, not a verdict): {e}", file=sys.stderr)
        _fallback_evidence(ctx, str(e))
        code = 2
    except subprocess.TimeoutExpired as e:
        print(f"{prop}: MACHINERY TIMEOUT (exit 2): {e}", file=sys.stderr)
        _fallback_evidence(ctx, str(e))
        code = 2
    except SystemExit:
        raise
    except BaseException as e:  # disk full, a harness bug, KeyboardInterrupt ...: never a verdict
        import traceback
        traceback.print_exc()
        print(f"{prop}: MACHINERY FAILURE (exit 2, not a verdict): {type(e).__name__}: {e}", file=sys.stderr)
        try:
            _fallback_evidence(ctx, f"{type(e).__name__}: {e}")
        except Exception:
            pass
        code = 2
    finally:
        ctx.cleanup()
    sys.exit(code)


def _fallback_evidence(ctx, msg):
    EVID.mkdir(parents=True, exist_ok=True)
    ev = {"property_id": ctx.prop, "tier": ctx.tier, "seed": ctx.seed, "level": "other",
          "coverage": {"explanation": "check did not complete: " + msg[:500], "evaluations": max(1, ctx.cov["evaluations"]),
                       "distinct_nontrivial": 0},
          "wall_s": round(time.time() - ctx.t0, 2), "violations": 0}
    (EVID / f"{ctx.prop}.json").write_text(json.dumps(ev, indent=1) + "\n")
