"""Shared world generator for C01 / C02 / C14 (owner: the codegen checks).

TLC enumerates the program space (spec/Sig.tla, Codegen.tla, CodegenMC.tla) and the configuration space
(spec/CodegenCfg.tla) and exports, per program, the contract's expectation and the code-shaped model's predicted
footprint.  This module only
  * parses those exports,
  * CONCRETISES abstract terms into Go source (total, injective tables below; written into the evidence),
  * materialises scratch modules (one directory / package per case so that a failure is attributable),
  * runs the mockery binary built from the working tree and the Go toolchain, and
  * projects the results (exit status, first type error per case, parsed footprint of each written file).
No verdict logic lives here.
"""
from __future__ import annotations

import concurrent.futures
import json
import os
import re
import shutil
import subprocess
import time
from pathlib import Path

import itertools
import threading

from vlib import GO_SUM_MOD, REPO, MachineryError, RunResult, go_env, write_files

_RUN_IDS = itertools.count(1)
_RUN_LOCK = threading.Lock()


# ------------------------------------------------------------------------------------------ private Go build cache
# Every run type-checks thousands of throw-away packages; in the shared GOCACHE those entries pile up (Go trims only after
# days).  The toolchain runs of this family therefore use a per-run cache inside the scratch directory, seeded by hard links
# from a small base cache (stdlib + testify, rebuilt automatically when missing or stale).
_GOCACHE_LOCK = threading.Lock()


def _base_cache_dir():
    return Path(os.environ.get("VERIF_GOCACHE_BASE") or (Path.home() / ".cache" / "verif-codegen-gocache-base"))


def gocache(ctx):
    with _GOCACHE_LOCK:
        d = getattr(ctx, "_cw_gocache", None)
        if d is not None:
            return d
        base = _base_cache_dir()
        ver = subprocess.run(["go", "version"], env=go_env(), capture_output=True, text=True).stdout.strip()
        stamp = ver + "|" + str((REPO / "go.sum").stat().st_size)
        marker = base / ".verif-ready"
        if not (marker.exists() and marker.read_text() == stamp):
            tmp = Path(str(base) + ".tmp%d" % os.getpid())
            shutil.rmtree(tmp, ignore_errors=True)
            tmp.mkdir(parents=True)
            w = ctx.mkdir("gocache-seed")
            (w / "go.mod").write_text(GO_SUM_MOD)
            shutil.copy(REPO / "go.sum", w / "go.sum")
            write_files(w, helper_files())
            write_files(w, {"seed/seed.go": "package seed\n\nimport (\n\t_ \"context\"\n\t_ \"fmt\"\n\t_ \"io\"\n\t_ \"sync\"\n\t_ \"time\"\n\t_ \"unsafe\"\n\n"
                                            "\t_ \"github.com/stretchr/testify/mock\"\n)\n",
                            "seed/seed_test.go": "package seed\n\nimport \"testing\"\n\nfunc TestSeed(t *testing.T) {}\n"})
            for args in (["build", "./..."], ["vet", "-framepointer", "./..."]):
                p = subprocess.run(["go", *args], cwd=w, env=go_env({"GOCACHE": str(tmp)}), capture_output=True, text=True, timeout=1800)
                if p.returncode != 0:
                    raise MachineryError("seeding the private Go build cache failed:\n" + (p.stdout + p.stderr)[-1200:])
            (tmp / ".verif-ready").write_text(stamp)
            old = Path(str(base) + ".old%d" % os.getpid())
            try:
                if base.exists():
                    os.rename(base, old)
                os.rename(tmp, base)
            except OSError:
                shutil.rmtree(tmp, ignore_errors=True)      # somebody else seeded it meanwhile
            shutil.rmtree(old, ignore_errors=True)
        d = ctx.scratch / "gocache"
        p = subprocess.run(["cp", "-al", str(base), str(d)], capture_output=True, text=True)
        if p.returncode != 0:
            shutil.rmtree(d, ignore_errors=True)
            p = subprocess.run(["cp", "-a", str(base), str(d)], capture_output=True, text=True)
            if p.returncode != 0:
                raise MachineryError("cannot create the per-run Go build cache: " + p.stderr[-300:])
        ctx._cw_gocache = d
        return d


def cw_env(ctx, extra=None):
    e = {"GOCACHE": str(gocache(ctx))}
    e.update(extra or {})
    return go_env(e)


def run_mockery(ctx, cwd, args=(), timeout=600):
    """Thread-safe variant of Ctx.run_mockery (whose trace-file counter is not meant for concurrent callers): runs the
    binary built from the working tree with its own trace file and returns a RunResult with the parsed hook trace."""
    binp = ctx.mockery()
    with _RUN_LOCK:
        n = next(_RUN_IDS)
    tfile = ctx.scratch / ("cwtrace-%d.ndjson" % n)
    e = cw_env(ctx)
    e["VERIFHOOK_TRACE"] = str(tfile)
    t = time.time()
    to = False
    try:
        p = subprocess.run([str(binp), *args], cwd=cwd, env=e, capture_output=True, text=True, timeout=timeout, errors="replace")
        code, out, err = p.returncode, p.stdout, p.stderr
    except subprocess.TimeoutExpired as ex:
        to, code = True, -9
        out = ex.stdout.decode("utf8", "replace") if isinstance(ex.stdout, bytes) else (ex.stdout or "")
        err = ex.stderr.decode("utf8", "replace") if isinstance(ex.stderr, bytes) else (ex.stderr or "")
    evs = []
    if tfile.exists():
        for ln in tfile.read_text().splitlines():
            try:
                evs.append(json.loads(ln))
            except ValueError:
                pass
        tfile.unlink()
    return RunResult(code, out, err, time.time() - t, to, evs)

MOD = "example.com/w"

# ------------------------------------------------------------------------------------------ concretisation tables
PKGS = {  # abstract package id -> (import path, package name)
    "FX": (MOD + "/x/io", "io"),
    "FY": (MOD + "/y/io", "io"),
    "FZ": (MOD + "/z/io0", "io0"),
    "FV": (MOD + "/q/v2", "quux"),
    "FM": (MOD + "/h/mock", "mock"),
    "FS": (MOD + "/h/sync", "sync"),
    "FC": (MOD + "/h/constraints", "constraints"),
    "FD": (MOD + "/gopkg.in/go-dash.v3", "dash"),
    "Sio": ("io", "io"),
    "Scontext": ("context", "context"),
    "Stime": ("time", "time"),
    "Sfmt": ("fmt", "fmt"),
    "Ssync": ("sync", "sync"),
    "Sunsafe": ("unsafe", "unsafe"),
    "TM": ("github.com/stretchr/testify/mock", "mock"),
}
FOREIGN = ["FX", "FY", "FZ", "FV", "FM", "FS", "FC", "FD"]

# abstract identifier -> Go identifier (identity unless listed; TLC cannot print non-ASCII)
IDMAP = {"zze": "\u00e9", "Zze": "\u00c9", "zzo": "\u03c9", "Zzo": "\u03a9", "_nihon": "\u65e5\u672c",
         "Zzea": "\u00c9a", "zzea": "\u00e9a", "Zzecoute": "\u00c9coute", "zzecoute": "\u00e9coute"}

GEN_PREDECLARED = ["Byte", "Rune", "String", "Int", "Bool", "Uint8", "Int64", "Uintptr", "Float64", "Complex128", "Error", "Any"]

FOREIGN_SRC = """package %s

import (
	"time"

	"%s/internal/impl"
)

type T struct{ N int }
type I interface{ Do(T) error }
type G[T any] struct{ V T }
type E int
type A = T

// the empty interface under other names: an alias (identical to any) and a defined type (a different type)
type AnyA = any
type EI interface{}

// aliases whose targets cannot be named from another package tree: a type of an internal package, an unexported type
type Client = impl.Client
type token struct{ v int }
type Token = token
type C interface{ ~int | ~string }
type Ordered interface{ ~int | ~int64 | ~float64 | ~string }
type GI[T any] interface {
	Get() T
	Put(v T)
}
type RW interface {
	Read(p []byte) (n int, err error)
	Write(p []byte) (n int, err error)
}

// an interface whose method mentions a third package
type TI interface {
	Third(d time.Duration) error
}

// a sealed constraint (unexported method) and the only type that satisfies it
type Sealed interface {
	Pos() int
	isNode()
}
type Leaf struct{ P int }

func (l Leaf) Pos() int { return l.P }
func (Leaf) isNode()    {}
"""

# types of the package under test (only those a program mentions are declared)
LOCAL_TYPES = {
    "LT": "type LT struct{ X int }",
    "lt": "type lt struct{ x int }",
    "LI": "type LI interface{ Foo() }",
    "LE": "type LE int",
    "LA": "type LA = {FX}.T",
    "LAnyA": "type LAnyA = any",
    "LEI": "type LEI interface{}",
    "LG": "type LG[T any] struct{ V T }",
    "LG2": "type LG2[K comparable, V any] map[K]V",
    "LC": "type LC interface{ ~int | ~string }",
    "LS": "type LS struct{}\n\nfunc (LS) String() string { return \"\" }",
    "LSI": "type LSI int\n\nfunc (LSI) String() string { return \"\" }",
    "LL": "type LL int\n\nfunc (LL) Less(LL) bool { return false }\n\nfunc (LL) String() string { return \"\" }",
    "Number": "type Number interface{ ~int | ~int64 }",
    "LSealed": "type LSealed interface {\n\tPos() int\n\tisNode()\n}",
    "LLeaf": "type LLeaf struct{ P int }\n\nfunc (l LLeaf) Pos() int { return l.P }\nfunc (LLeaf) isNode()    {}",
    "LStr": "type LStr interface{ ~string }",
}
for _n in ["mock", "sync", "a", "i", "args", "run", "ret", "t", "m", "Mock", "String", "Type", "Ret", "Zzea", "CallInfo", "io"]:
    LOCAL_TYPES[_n] = "type %s struct{ X int }" % IDMAP.get(_n, _n)

GOMOD_SPELLINGS = {
    "plain": "module %s\n",
    "quoted": "module \"%s\"\n",
    "tab": "module\t%s\n",
    "comment": "module %s // the module under test\n",
    "block": "module (\n\t%s\n)\n",
}

ALIAS_NAMES = ("A", "LA", "Client", "Token", "AnyA", "LAnyA")

PLACEMENTS = ["samepkg", "samepkg_test", "ext_test", "subpkg", "subpkg_samename"]


def conc_ident(s):
    """abstract identifier (possibly with an allocator suffix) -> Go identifier"""
    if s in IDMAP:
        return IDMAP[s]
    m = re.match(r"^(.*?)(\d+)$", s)
    if m and m.group(1) in IDMAP:
        return IDMAP[m.group(1)] + m.group(2)
    for k in ("Zzecoute", "Zzea"):
        if k in s:
            s = s.replace(k, IDMAP[k])
    return s


def concretisation_table():
    return {"module": MOD, "packages": {k: {"path": v[0], "name": v[1]} for k, v in PKGS.items()},
            "identifiers": IDMAP, "local_types": LOCAL_TYPES, "gomod": GOMOD_SPELLINGS,
            "placements": {"samepkg": "dir=<src dir> file=mock_gen.go pkgname=<src>",
                           "samepkg_test": "dir=<src dir> file=mocks_test.go pkgname=<src>",
                           "ext_test": "dir=<src dir> file=mocks_ext_test.go pkgname=<src>_test",
                           "subpkg": "dir=<src dir>/sub file=mocks.go pkgname=mocks",
                           "subpkg_samename": "dir=<src dir>/sub file=mocks.go pkgname=<src>"}}


# ------------------------------------------------------------------------------------------ rendering of terms
class Renderer:
    """Go source text of abstract type terms under a qualifier map (package id -> qualifier, '' = unqualified)."""

    def __init__(self, qual):
        self.qual = qual
        self.used = set()     # package ids referenced
        self.locals = set()   # local type names referenced

    def q(self, p, n):
        if p == "SRC":
            self.locals.add(n)
        else:
            self.used.add(p)
        ql = self.qual(p)
        n = conc_ident(n)
        return (ql + "." + n) if ql else n

    def vars(self, vs, variadic=False):
        named = any(v["n"] != "" for v in vs)
        out = []
        for i, v in enumerate(vs):
            t = self.t(v["t"])
            if variadic and i == len(vs) - 1:
                t = "..." + t
            if named:
                out.append((conc_ident(v["n"]) if v["n"] else "_") + " " + t)
            else:
                out.append(t)
        return ", ".join(out)

    def results(self, rs):
        if not rs:
            return ""
        if len(rs) == 1 and rs[0]["n"] == "":
            return " " + self.t(rs[0]["t"])
        return " (" + self.vars(rs) + ")"

    def sig(self, m):
        return "(" + self.vars(m["ps"], m["va"]) + ")" + self.results(m["rs"])

    def t(self, t):
        k = t["k"]
        if k in ("basic", "tp"):
            return conc_ident(t["n"])
        if k == "unsafe":
            self.used.add("Sunsafe")
            return self.qual("Sunsafe") + ".Pointer"
        if k == "named":
            return self.q(t["p"], t["n"])
        if k == "inst":
            return self.q(t["p"], t["n"]) + "[" + ", ".join(self.t(a) for a in t["as"]) + "]"
        if k == "ptr":
            return "*" + self.t(t["e"])
        if k == "slice":
            return "[]" + self.t(t["e"])
        if k == "array":
            return "[3]" + self.t(t["e"])
        if k == "chan":
            e = self.t(t["e"])
            if t["d"] == "both":
                if t["e"]["k"] == "chan" and t["e"]["d"] == "recv":
                    e = "(" + e + ")"
                return "chan " + e
            return ("chan<- " if t["d"] == "send" else "<-chan ") + e
        if k == "map":
            return "map[" + self.t(t["key"]) + "]" + self.t(t["e"])
        if k == "func":
            return "func" + self.sig(t)
        if k == "struct":
            fs = []
            for f in t["fs"]:
                s = self.t(f["t"]) if f["emb"] else conc_ident(f["n"]) + " " + self.t(f["t"])
                if f["tag"]:
                    a, b = f["tag"].split(":", 1)
                    s += " `%s:\"%s\"`" % (a, b)
                fs.append(s)
            return "struct{ " + "; ".join(fs) + " }" if fs else "struct{}"
        if k == "iface":
            xs = [conc_ident(m["n"]) + self.sig(m) for m in t["ms"]] + [self.t(e) for e in t["es"]]
            return "interface{ " + "; ".join(xs) + " }" if xs else "interface{}"
        if k == "union":
            return " | ".join(self.t(x["e"]) if x["k"] == "plain" else "~" + self.t(x) for x in t["ts"])
        if k == "plain":
            return self.t(t["e"])
        raise MachineryError("unknown term kind %r" % (k,))


def walk_terms(t, fn):
    fn(t)
    k = t["k"]
    if k in ("ptr", "slice", "array", "chan"):
        walk_terms(t["e"], fn)
    elif k == "map":
        walk_terms(t["key"], fn)
        walk_terms(t["e"], fn)
    elif k == "inst":
        for a in t["as"]:
            walk_terms(a, fn)
    elif k == "func":
        for v in t["ps"] + t["rs"]:
            walk_terms(v["t"], fn)
    elif k == "struct":
        for f in t["fs"]:
            walk_terms(f["t"], fn)
    elif k == "union":
        for x in t["ts"]:
            walk_terms(x, fn)
    elif k == "plain":
        walk_terms(t["e"], fn)
    elif k == "iface":
        for m in t["ms"]:
            for v in m["ps"] + m["rs"]:
                walk_terms(v["t"], fn)
        for e in t["es"]:
            walk_terms(e, fn)


def decl_terms(d):
    out = []
    for tp in d["tps"]:
        out.append(tp["c"])
    out += list(d["es"])
    for m in d["ms"]:
        out += [v["t"] for v in m["ps"] + m["rs"]]
    return out


def reachable_decls(prog):
    """names of the local interface declarations the target needs (concretisation: only those are written)"""
    decls = prog["decls"]
    seen, todo = [], list(prog.get("targets") or [prog["target"]])
    while todo:
        n = todo.pop()
        if n in seen or n not in decls:
            continue
        seen.append(n)
        for t in decl_terms(decls[n]):
            def f(x):
                if x["k"] in ("named", "inst") and x["p"] == "SRC" and x["n"] in decls:
                    todo.append(x["n"])
            walk_terms(t, f)
    return seen


SRC_ALIAS = {p: "s" + p.lower() for p in PKGS}


def src_qual(p):
    return "" if p == "SRC" else SRC_ALIAS[p]


def tparams_text(r, tps):
    if not tps:
        return ""
    return "[" + ", ".join(conc_ident(tp["n"]) + " " + r.t(tp["c"]) for tp in tps) + "]"


DOT_OK = ("Sio", "Scontext", "Stime", "Sfmt")      # their exported names never clash with what a source file declares


def import_style(prog):
    """how the SOURCE file spells its imports (must not matter to mockery): explicit aliases, the packages' own names where
    unambiguous, or a dot import of one stdlib package.  A pure function of the program id."""
    import zlib
    return ("alias", "natural", "dot")[zlib.crc32(prog["pid"].encode()) % 3]


def render_source(prog, pkgname, extra_terms=(), all_decls=False):
    """the source file of the package under test for one program (extra_terms: types the assertion files will
    mention, e.g. type arguments, whose local declarations must exist)"""
    style = import_style(prog)
    used0 = set()
    for d_ in prog["decls"].values():
        for t_ in decl_terms(d_):
            walk_terms(t_, lambda x: used0.add(x["p"]) if x["k"] in ("named", "inst") and x["p"] != "SRC" else None)
    local_idents = set(prog["decls"]) | set(LOCAL_TYPES) | {pkgname}
    natural = {}
    if style in ("natural", "dot"):
        names = {}
        for p_ in sorted(used0 | {"FX"}):
            names.setdefault(PKGS[p_][1], []).append(p_)
        natural = {ps[0]: n_ for n_, ps in names.items() if len(ps) == 1 and n_ not in local_idents and n_ not in ("mock", "sync", "io")}
    dot = next((p_ for p_ in sorted(used0) if p_ in DOT_OK), None) if style == "dot" else None

    def squal(p_):
        if p_ == "SRC" or p_ == dot:
            return ""
        return natural.get(p_, SRC_ALIAS.get(p_, ""))
    r = Renderer(squal)
    r._dot, r._natural = dot, natural
    for t in extra_terms:
        r.t(t)
    r.used.clear()
    decls = prog["decls"]
    names = sorted(prog["decls"]) if all_decls else reachable_decls(prog)
    targets = prog.get("targets") or [prog["target"]]
    # declaration order = order in which mockery mocks them: helper interfaces first, then Prog.targets in order
    order = sorted((n for n in names if n not in targets), key=str) + [n for n in targets if n in prog["decls"]]
    body = []
    for n in order:
        d = decls[n]
        gn = conc_ident(n)
        if n == prog["target"] and prog["form"] == "namedinst":
            body.append("type %s %s" % (gn, r.t(d["es"][0])))
            continue
        if n == prog["target"] and prog["form"] == "alias":
            body.append("type %s = %s" % (gn, r.t(d["es"][0])))
            continue
        lines = ["type %s%s interface {" % (gn, tparams_text(r, d["tps"]))]
        for e in d["es"]:
            lines.append("\t" + r.t(e))
        for m in d["ms"]:
            lines.append("\t" + conc_ident(m["n"]) + r.sig(m))
        lines.append("}")
        body.append("\n".join(lines))
    ltypes = []
    todo = sorted(r.locals - set(decls))
    done = set()
    while todo:
        n = todo.pop(0)
        if n in done:
            continue
        done.add(n)
        # every other local type name is a plain struct (the concretisation is total)
        txt = LOCAL_TYPES.get(n) or "type %s struct{ X int }" % conc_ident(n)
        if "{FX}" in txt:
            r.used.add("FX")
            txt = txt.replace("{FX}", squal("FX"))
        ltypes.append(txt)
    imps = []
    for p in sorted(r.used):
        if p == dot:
            imps.append("\t. \"%s\"" % PKGS[p][0])
        elif p in natural:
            imps.append("\t\"%s\"" % PKGS[p][0])
        else:
            imps.append("\t%s \"%s\"" % (SRC_ALIAS[p], PKGS[p][0]))
    out = ["// source of program %s" % prog["pid"], "package " + pkgname, ""]
    if imps:
        out += ["import ("] + imps + [")", ""]
    out += ["\n\n".join(ltypes + body), ""]
    return "\n".join(out)


# ------------------------------------------------------------------------------------------ the exported space
class Space:
    def __init__(self):
        self.progs = {}    # pid -> {"prog":..., "methods":[...], "wellformed": bool}
        self.preds = {}    # (pid, tmpl, inpkg, ensure-line rendered) -> pred
        self.cfgs = []     # [{"cfg":..., "expect":...}]
        self.tlc = {}

    def pred(self, pid, tmpl, inpkg, ens=False):
        return self.preds[(pid, tmpl, bool(inpkg), bool(ens) and tmpl == "matryer")]


def method_id(name):
    """go/types Func.Id(): exported names by name, unexported ones qualified by the package path"""
    g = conc_ident(name)
    return g if g[:1].upper() == g[:1] and not g[:1] == "_" and g[:1].lower() != g[:1] else MOD + "/c/k." + g


def T(ctx, what):
    """phase timing on stderr when VERIF_DEBUG is set; always recorded for the evidence"""
    ctx.cov.setdefault("phase_seconds", []).append([what, round(time.time() - ctx.t0, 1)])
    if os.environ.get("VERIF_DEBUG"):
        import sys
        print("[%6.1fs] %s" % (time.time() - ctx.t0, what), file=sys.stderr)


def clean_replays(ctx):
    """remove this check's replay files of an earlier run with the same tier and seed (they would be misleading)"""
    d = Path(__file__).resolve().parent.parent / "evidence" / "replays" / ctx.prop
    if getattr(ctx, "replay", None):
        return
    if d.is_dir():
        for f in d.glob("%s-seed%d-*.json" % (ctx.tier, ctx.seed)):
            f.unlink()


def short_tail(r, n=25):
    """TLC output tail without the exported PROG / PRED / CFG / SIM lines"""
    lines = [ln for ln in r.tail(400).splitlines() if not ln.lstrip().startswith(('<<"PROG"', '<<"PRED"', '<<"CFG"', '<<"SIM"', '<<"TABLES"', '<<"DISC"'))]
    return "\n".join(ln[:300] for ln in lines[-n:])


def _try(fn):
    try:
        fn()
    except Exception:      # the caller's own ctx.mockery() call reports the build failure
        pass


def load_space(ctx, tier, programs_cfg=None, need_cfgs=True):
    clean_replays(ctx)
    sp = Space()
    cfg = programs_cfg or ("Codegen_thorough.cfg" if tier == "thorough" else "Codegen_quick.cfg")
    # the binary is built while TLC runs (both are needed by every caller)
    builder = threading.Thread(target=lambda: _try(ctx.mockery))
    builder.start()
    r = ctx.tlc("CodegenMC", cfg, workers=1, timeout=3000 if tier == "thorough" else 600, coverage=(tier == "thorough"))
    builder.join()
    if r.violated:
        # the code-shaped model breaks a footprint invariant: a prediction only, but nothing was exported after it
        raise MachineryError("Codegen.tla: %s violated at model level -- the code-shaped model needs a named deviation:\n%s"
                             % (r.violated, short_tail(r)))
    if not r.ok:
        raise MachineryError("TLC failed on CodegenMC/%s:\n%s" % (cfg, short_tail(r, 30)))
    for x in r.prints("PROG"):
        pid = x["prog"]["pid"]
        if pid in sp.progs and sp.progs[pid]["prog"] != x["prog"]:
            raise MachineryError("program ids are not unique: " + pid)
        if not x["wellformed"]:
            raise MachineryError("family generator produced an ill-formed program (not legal Go): " + pid)
        sp.progs[pid] = x
    for x in r.prints("PRED"):
        if isinstance(x["imports"], list):
            x["imports"] = {}
        sp.preds[(x["pid"], x["tmpl"], bool(x["inpkg"]), bool(x["ens"]))] = x
    if tier == "thorough":
        zero = r.coverage_zero()
        if zero:
            raise MachineryError("vacuous: actions of Codegen.tla never taken: %s" % zero[:5])
    sp.tlc["codegen"] = {"generated": r.generated, "distinct": r.distinct, "wall": round(r.wall, 1), "cfg": cfg}
    if not sp.progs or len(sp.preds) != 6 * len(sp.progs):
        raise MachineryError("export incomplete: %d programs, %d predictions" % (len(sp.progs), len(sp.preds)))
    # abstraction tables that could be wrong independently of mockery
    tab = r.prints("TABLES")
    if not tab:
        raise MachineryError("TLC did not print the TABLES line")
    tab = tab[0]
    for p, nm in tab["pkgnames"].items():
        if PKGS[p][1] != nm:
            raise MachineryError("package-name table mismatch for %s: spec %s, harness %s" % (p, nm, PKGS[p][1]))
    ids = [method_id(n) for n in tab["methodorder"]]
    if ids != sorted(ids, key=lambda s: s.encode()):
        raise MachineryError("Sig.tla MethodOrder is not sorted the way go/types sorts method ids: %r" % (ids,))
    known = set(tab["methodorder"])
    for x in sp.progs.values():
        for m in x["methods"]:
            if m["n"] not in known:
                raise MachineryError("method name %s missing from MethodOrder" % m["n"])
    if tier == "thorough" and not programs_cfg:
        add_simulated(ctx, sp, 400)
    if need_cfgs:
        rc = ctx.tlc_ok("CodegenCfg", "CodegenCfg.cfg", workers=1, timeout=300)
        seen = set()
        for x in rc.prints("CFG"):
            k = json.dumps(x["cfg"], sort_keys=True)
            if k not in seen:
                seen.add(k)
                sp.cfgs.append(x)
        sp.tlc["cfg"] = {"generated": rc.generated, "distinct": rc.distinct, "wall": round(rc.wall, 1)}
        if len(sp.cfgs) < 10000:
            raise MachineryError("configuration space export too small: %d" % len(sp.cfgs))
    return sp


# ------------------------------------------------------------------------------------------ simulated programs
def tla_lit(x):
    """Python value (as parsed from TLC's JSON) -> TLA+ literal"""
    if isinstance(x, bool):
        return "TRUE" if x else "FALSE"
    if isinstance(x, int):
        return str(x)
    if isinstance(x, str):
        if not x.isascii() or '"' in x or "\\" in x:
            raise MachineryError("cannot spell %r as a TLA+ string" % x)
        return '"' + x + '"'
    if isinstance(x, list):
        return "<<" + ", ".join(tla_lit(v) for v in x) + ">>"
    if isinstance(x, dict):
        return "[" + ", ".join("%s |-> %s" % (k, tla_lit(v)) for k, v in sorted(x.items())) + "]"
    raise MachineryError("cannot spell %r in TLA+" % (x,))


def add_simulated(ctx, sp, n, nmethods=4, maxdepth=3):
    """Thorough tier: TLC -simulate (spec/CodegenSim.tla, seeded) draws n interfaces beyond the exhaustive bounds; they
    are written into a generated MC module and run through Codegen.tla, so expectation and prediction still come from
    the specification.  Adds them to the space as family "sim"."""
    cfg = "SPECIFICATION Spec\nCONSTANTS\n  NMethods = %d\n  MaxDepth = %d\nCONSTRAINT Emit\nCHECK_DEADLOCK FALSE\n" % (nmethods, maxdepth)
    r = ctx.tlc("CodegenSim", "CodegenSim_gen.cfg", workers=1, simulate="num=%d" % (5 * n), depth=120, deadlock=False,
                files={"cfg/CodegenSim_gen.cfg": cfg}, timeout=900, count=False)
    seen, drawn = set(), []
    for x in r.prints("SIM"):
        k = json.dumps(x, sort_keys=True)
        if k not in seen and any(m["ps"] or m["rs"] for m in x["ms"]):
            seen.add(k)
            drawn.append(x)
    drawn = drawn[:n]
    if len(drawn) < n // 3:
        raise MachineryError("simulation drew only %d programs:\n%s" % (len(drawn), r.tail(15)))
    items = []
    for i, x in enumerate(drawn):
        tps = '<<TPar("T", AnyT)>>' if x["gen"] else "<< >>"
        items.append('  [P("sim/%d/%04d", "sim", "seed%d", "cs", One("I", Decl(%s, << >>, %s)), "I") EXCEPT !.pos = "d%d"]'
                     % (ctx.seed, i, ctx.seed, tps, tla_lit(x["ms"]), maxdepth))
    mod = ("---- MODULE CodegenSimMC ----\n(* generated by lib/codegen_worlds.py from a TLC simulation of CodegenSim.tla (seed %d) *)\n"
           "EXTENDS CodegenMC\nSimPrograms == {\n%s\n}\n====\n" % (ctx.seed, ",\n".join(items)))
    mccfg = "SPECIFICATION Spec\nCONSTANTS\n  Programs <- SimPrograms\nINVARIANTS FooterInvariants DeviationsNamed\nCONSTRAINT Emit\nCHECK_DEADLOCK FALSE\n"
    r2 = ctx.tlc("CodegenSimMC", "Codegen_simmc.cfg", workers=1, timeout=1800,
                 files={"CodegenSimMC.tla": mod, "cfg/Codegen_simmc.cfg": mccfg})
    if not r2.ok:
        raise MachineryError("TLC failed on the simulated programs (%s):\n%s" % (r2.violated, short_tail(r2)))
    n0 = len(sp.progs)
    for x in r2.prints("PROG"):
        if not x["wellformed"]:
            raise MachineryError("simulation produced an ill-formed program: " + x["prog"]["pid"])
        sp.progs[x["prog"]["pid"]] = x
    for x in r2.prints("PRED"):
        if isinstance(x["imports"], list):
            x["imports"] = {}
        sp.preds[(x["pid"], x["tmpl"], bool(x["inpkg"]), bool(x["ens"]))] = x
    sp.tlc["simulated"] = {"drawn": len(drawn), "sim_states": r.generated, "model_states": r2.distinct,
                           "nmethods": nmethods, "maxdepth": maxdepth, "seed": ctx.seed}
    return len(sp.progs) - n0


# ------------------------------------------------------------------------------------------ selection (sampling)
def leaf_class(prog):
    pk = set()
    for d in prog["decls"].values():
        for t in decl_terms(d):
            def f(x):
                if x["k"] in ("named", "inst"):
                    pk.add("local" if x["p"] == "SRC" else "std" if x["p"].startswith("S") else "foreign")
                    if x["n"] in ALIAS_NAMES:
                        pk.add("alias-" + x["n"])        # *types.Alias is a node kind of its own
                    if x["k"] == "inst":
                        pk.add("inst")
            walk_terms(t, f)
    return "+".join(sorted(pk)) or "basic"


def stratum(x):
    p = x["prog"]
    fam = p["fam"]
    if fam == "shape":
        head = p["feat"].split("(", 1)[0] if "(" in p["feat"] else "leaf"
        if p["feat"].startswith("iface(;"):
            return ("shape", p["pos"], "iface-embed", p["feat"])      # anonymous interface embedding X: every X
        return ("shape", p["pos"], head, leaf_class(p))
    if fam == "ident":
        return ("ident", p["idclass"], p["ident"])
    if fam == "pkgs":
        return ("pkgs", p["srcname"], p["pid"].split("/")[0])
    if fam == "multi":
        return ("multi", p["pid"].split("/")[1])          # the order in which the interfaces share the file
    if fam == "embed":
        return ("embed", str(len(p["decls"][p["target"]]["es"])), "overlap" if x.get("overlap") else "disjoint")
    return (fam, p["pid"])


def select_programs(ctx, sp, tier, scale=1.0, exclude_fams=()):
    """Stratified sample of the exported programs (harness job: which enumerated states are executed).
    Every stratum is hit at least once; the seed picks inside a stratum."""
    rng = ctx.rng
    by = {}
    for pid in sorted(sp.progs):
        if sp.progs[pid]["prog"]["fam"] not in exclude_fams:
            by.setdefault(stratum(sp.progs[pid]), []).append(pid)
    out = []
    for st in sorted(by):
        pids = by[st]
        fam = st[0]
        if tier == "thorough":
            k = len(pids)
        elif fam == "shape":
            k = 1 if st[1] == "d1" else len(pids)
        elif fam == "ident":
            k = 3 if st[1] in ("tpllocal", "predeclared", "pkgname", "caseclash") else 2 if st[1] == "common" else 1
        elif fam == "pkgs":
            k = max(2, len(pids) // 8)
        elif fam == "multi":
            k = 8
        elif fam == "embed":
            k = max(4, len(pids) // 6)
        else:
            k = len(pids)
        k = max(1, min(len(pids), int(round(k * scale)) or 1))
        out += rng.sample(pids, k)
    return out


def replay_pairs(ctx, sp):
    """--replay <file>: the (program, configuration) pair recorded in a replay file, or None"""
    path = getattr(ctx, "replay", None)
    if not path:
        return None
    d = json.loads(Path(path).read_text())
    case = d.get("detail", {}).get("case")
    if not case:
        raise MachineryError("replay file has no case record: " + path)
    c = next((c for c in sp.cfgs if c["cfg"] == case["cfg"]), None)
    if c is None or case["pid"] not in sp.progs:
        raise MachineryError("replay case is not in the exported space (other tier?): %s" % case["pid"])
    return [(case["pid"], c)]


CFG_DIMS = ["tmplopts", "fmt", "place", "gomod", "boilerplate", "buildtags", "ovr"]


def cfg_dims(c):
    cfg = c["cfg"]
    to = (cfg["tmpl"], cfg["unroll"], cfg["skipensure"], cfg["stub"], cfg["resets"])
    return {"tmplopts": to, "fmt": cfg["fmt"], "place": cfg["place"], "gomod": cfg["gomod"],
            "boilerplate": cfg["boilerplate"], "buildtags": cfg["buildtags"], "ovr": cfg["ovr"]}


def assign_configs(ctx, sp, pids, slots_for, prefer=None):
    """Pairwise-covering assignment of configurations to the selected programs (greedy, seeded).
    slots_for(prog) -> list of (tmpl, inpkg|None) slots.  Returns [(pid, cfgrecord)]."""
    rng = ctx.rng
    bykey = {}
    for c in sp.cfgs:
        bykey.setdefault((c["cfg"]["tmpl"], bool(c["expect"]["inpkg"])), []).append(c)
    covered = set()
    out = []
    fmts = ["noop", "gofmt", "noop", "gofmt", "goimports"]
    for pid in pids:
        prog = sp.progs[pid]["prog"]
        for (tmpl, inpkg) in slots_for(prog):
            pool = bykey[(tmpl, inpkg)] if inpkg is not None else bykey[(tmpl, True)] + bykey[(tmpl, False)]
            if prog.get("extpkg"):      # a package outside the module: the mock can only live in a directory of its own
                pool = [c for c in pool if not c["expect"]["samedir"]]
            want_fmt = rng.choice(fmts)
            cands = [c for c in rng.sample(pool, min(60, len(pool))) if c["cfg"]["fmt"] == want_fmt] or rng.sample(pool, 10)
            if prefer:
                cands = [c for c in cands if prefer(c, rng, prog)] or cands
            best, bestn = None, -1
            for c in cands:
                d = cfg_dims(c)
                items = sorted(d.items())
                items.append(("fam", prog["fam"]))
                n = 0
                for i in range(len(items)):
                    for j in range(i + 1, len(items)):
                        if (items[i], items[j]) not in covered:
                            n += 1
                if n > bestn:
                    best, bestn = c, n
            d = cfg_dims(best)
            items = sorted(d.items())
            items.append(("fam", prog["fam"]))
            for i in range(len(items)):
                for j in range(i + 1, len(items)):
                    covered.add((items[i], items[j]))
            out.append((pid, best))
    return out, len(covered)


# ------------------------------------------------------------------------------------------ worlds
def pkgname_for(prog, cid):
    return cid if prog["srcname"] == "cs" else prog["srcname"]


def placement_paths(place, casedir, srcname):
    if place == "samepkg":
        return casedir, "mock_gen.go", srcname
    if place == "samepkg_test":
        return casedir, "mocks_test.go", srcname
    if place == "ext_test":
        return casedir, "mocks_ext_test.go", srcname + "_test"
    if place == "subpkg":
        return casedir + "/sub", "mocks.go", "mocks"
    if place == "subpkg_samename":
        return casedir + "/sub", "mocks.go", srcname
    raise MachineryError("unknown placement " + place)


def level_data(d):
    """abstract per-level option map of CodegenCfg.tla (unset / true / false) -> template-data entries"""
    return {k: v == "true" for k, v in d.items() if v != "unset"}


def template_data(cfg, cexpect, world):
    """package-level template-data (options as CodegenCfg.tla PkgData says, plus the file-level keys)"""
    td = level_data(cexpect["pkgdata"])
    if cfg["boilerplate"]:
        td["boilerplate-file"] = str(world / "boilerplate.txt")
    if cfg["buildtags"]:
        td["mock-build-tags"] = "!verif_never_set"
    return td


class Case:
    __slots__ = ("cid", "pid", "prog", "cfg", "cexpect", "pred", "world", "dir", "pkgpath", "pkgname", "outdir", "outfile",
                 "outpkg", "mockname", "target", "mockery", "typecheck", "info", "extra", "srcok")

    def sig(self):
        p = self.prog
        return {"template": self.cfg["tmpl"], "formatter": self.cfg["fmt"], "placement": self.cfg["place"],
                "inpkg": bool(self.cexpect["inpkg"]), "gomod": self.cfg["gomod"], "family": p["fam"],
                "feature": p["feat"], "idclass": p["idclass"], "ident": p["ident"], "pos": p["pos"], "srcname": p["srcname"],
                "unroll": self.cfg["unroll"], "stub": self.cfg["stub"], "ovr": self.cfg["ovr"],
                # EFFECTIVE: no interface of the file renders its ensure line (options may be overridden per interface)
                "skipensure": (not self.extra.get("ens", not self.cfg["skipensure"])) if self.cfg["tmpl"] == "matryer" else False}

    def brief(self):
        return {"cid": self.cid, "pid": self.pid, "cfg": self.cfg, "dir": self.dir, "out": self.outdir + "/" + self.outfile}


def helper_files():
    files = {}
    for p in FOREIGN:
        path, name = PKGS[p]
        rel = path[len(MOD) + 1:]
        files[rel + "/lib.go"] = (FOREIGN_SRC % (name, path)) + "\n" + "\n".join("type %s struct{ N int }" % x for x in GEN_PREDECLARED) + "\n"
        files[rel + "/internal/impl/impl.go"] = "// only importable from within %s\npackage impl\n\ntype Client struct{ N int }\n" % path
    files["boilerplate.txt"] = "// Copyright (c) the verification harness.\n// SPDX-License-Identifier: none\n"
    return files


def gomod_text(spelling):
    rest = GO_SUM_MOD.split("\n", 1)[1]
    return GOMOD_SPELLINGS[spelling] % MOD + rest


def build_worlds(ctx, sp, pairs, all_decls=None):
    """pairs: [(pid, cfgrecord)] -> {gomod spelling: (worlddir, [Case])}; one package directory per case."""
    worlds = {}
    n = 0
    for pid, c in pairs:
        cfg = c["cfg"]
        gm = cfg["gomod"]
        if gm not in worlds:
            d = ctx.mkdir("world-" + gm)
            (d / "go.mod").write_text(gomod_text(gm))
            shutil.copy(REPO / "go.sum", d / "go.sum")
            write_files(d, helper_files())
            worlds[gm] = (d, [])
        d, cases = worlds[gm]
        n += 1
        cs = Case()
        cs.cid = "k%04d" % n
        cs.pid, cs.prog, cs.cfg, cs.cexpect = pid, sp.progs[pid]["prog"], cfg, c["expect"]
        multi = len(cs.prog.get("targets") or []) > 1
        # does some interface of the file render its ensure line (effective options per interface from CodegenCfg.tla)?
        ens = cfg["tmpl"] == "matryer" and (not c["expect"]["predkey"]["skipensure"] or (multi and not c["expect"]["predkey_rest"]["skipensure"]))
        cs.pred = sp.pred(pid, cfg["tmpl"], c["expect"]["inpkg"], ens)
        cs.extra = {"ens": ens}
        cs.world = d
        cs.dir = "c/" + cs.cid
        ext = cs.prog.get("extpkg")
        cs.pkgpath = PKGS[ext][0] if ext else MOD + "/" + cs.dir
        cs.pkgname = PKGS[ext][1] if ext else pkgname_for(cs.prog, cs.cid)
        if ext and c["expect"]["samedir"]:
            raise MachineryError("a package outside the module can only be mocked into a separate directory: " + pid)
        cs.outdir, cs.outfile, cs.outpkg = placement_paths(cfg["place"], cs.dir, cs.pkgname)
        cs.target = conc_ident(cs.prog["target"])
        exported = cs.target[:1].upper() == cs.target[:1] and cs.target[:1].lower() != cs.target[:1]
        cs.mockname = ("Mock" if exported else "mock") + cs.target
        cs.mockery = cs.typecheck = cs.info = None
        cs.srcok = None
        (d / cs.dir).mkdir(parents=True)
        if ext:
            cases.append(cs)
            continue
        extra = [a for n_, tas in sp.progs[pid].get("alltargs", {}).items() if cs.prog["decls"][n_]["tps"] for ta in tas for a in ta]
        (d / cs.dir / "src.go").write_text(render_source(cs.prog, cs.pkgname, extra, bool(all_decls and all_decls(cs.prog))))
        cases.append(cs)
    return worlds


def mockery_entry(cs, template=None, extra=None, names=None):
    conf = {"template": template or cs.cfg["tmpl"], "formatter": cs.cfg["fmt"],
            "dir": str(cs.world / cs.outdir), "filename": cs.outfile, "pkgname": cs.outpkg,
            "template-data": template_data(cs.cfg, cs.cexpect, cs.world) if template is None else {}}
    rp = cs.prog.get("repl")
    if rp:       # replace-type entry of the program (CodegenMC.tla Repl): <from pkg>.<from name> -> <to pkg>.<to name>
        conf["replace-type"] = {PKGS[rp["from"]["p"]][0]: {rp["from"]["n"]: {"pkg-path": PKGS[rp["to"]["p"]][0], "type-name": rp["to"]["n"]}}}
    if extra:
        conf.update(extra)
    if names is None:
        names = cs.prog.get("targets") or [cs.prog["target"]]   # several interfaces of the package into this one file
    ifaces = {}
    for i, n in enumerate(names):
        own = level_data(cs.cexpect["firstdata" if i == 0 else "restdata"]) if template is None else {}
        ifaces[conc_ident(n)] = {"config": {"template-data": own}} if own else {}
    return {"config": conf, "interfaces": ifaces}


def ekey(cs):
    """key of a case in an entries dict: its package path; cases that share a package path (packages outside the module)
    get a #suffix and are never put into the same mockery configuration"""
    return cs.pkgpath + ("#" + cs.cid if cs.prog.get("extpkg") else "")


def bins(entries, size):
    out = []
    for k, v in sorted(entries.items()):
        real = k.split("#")[0]
        b = next((b_ for b_ in out if len(b_) < size and all(x.split("#")[0] != real for x in b_)), None) if "#" in k else \
            next((b_ for b_ in out[-1:] if len(b_) < size and all(x.split("#")[0] != real for x in b_)), None)
        if b is None:
            b = {}
            out.append(b)
        b[k] = v
    return out


def run_mockery_chunk(ctx, world, entries, tag, max_fail=25, traces=None):
    """entries: {pkgpath: (key, entry)}.  Runs mockery; when a run fails, attributes the failure to the file mockery
    was working on (hook trace: last FileBegin without Write), drops that entry and re-runs.  -> {key: (ok, detail)}"""
    res = {}
    todo = dict(entries)
    nfail = 0
    rounds = 0
    while todo:
        rounds += 1
        conf = {"force-file-write": True, "log-level": "error", "packages": {p.split("#")[0]: e for p, (k, e) in todo.items()}}
        cf = world / (".mockery-%s.yml" % tag)
        cf.write_text(json.dumps(conf))
        r = run_mockery(ctx, world, ["--config", str(cf)], timeout=600)
        if traces is not None:
            traces.append(r.trace)
        if r.timed_out:
            raise MachineryError("mockery timed out on chunk " + tag)
        written = {e["file"] for e in r.trace if e.get("ev") == "Write"}
        begun = [e["file"] for e in r.trace if e.get("ev") == "FileBegin"]
        byfile = {str(Path(e["config"]["dir"]) / e["config"]["filename"]): (p, k) for p, (k, e) in todo.items()}
        for f in written:
            f2 = os.path.normpath(f)
            if f2 in byfile:
                p, k = byfile[f2]
                res[k] = (True, None)
                todo.pop(p, None)
        if r.code == 0:
            if todo:
                # selected but never written although exit 0
                for p, (k, e) in list(todo.items()):
                    res[k] = (False, {"exit": 0, "why": "exit 0 but the file was not written", "stderr": r.err[-400:]})
                    todo.pop(p)
            break
        culprit = None
        for f in begun:
            f2 = os.path.normpath(f)
            if f not in written and f2 in byfile and byfile[f2][0] in todo:
                culprit = byfile[f2]
        if culprit is None:
            # failed before any file was begun (load/parse/config stage): cannot be attributed through the trace.
            if len(todo) == 1:
                p, (k, e) = next(iter(todo.items()))
                res[k] = (False, dict(r.brief(), stage="before-generation"))
                break
            # bisect
            items = sorted(todo.items())
            half = len(items) // 2
            for part, sub in (("a", items[:half]), ("b", items[half:])):
                res.update(run_mockery_chunk(ctx, world, dict(sub), tag + part, max_fail, traces))
            break
        p, k = culprit
        res[k] = (False, dict(r.brief(), stage="generation"))
        todo.pop(p)
        nfail += 1
        if nfail > max_fail and todo:
            for p, (k, e) in todo.items():
                res[k] = (None, {"why": "not evaluated: more than %d failing files in this chunk" % max_fail})
            break
    return res


def source_text(cs):
    f = cs.world / cs.dir / "src.go"
    return f.read_text() if f.exists() else "(package %s outside the module: no source file written)" % cs.pkgpath


def run_chunks(ctx, world, entries, prefix, chunk=50, par=6, traces=None):
    chunks = bins(entries, chunk)
    res = {}
    with concurrent.futures.ThreadPoolExecutor(max_workers=par) as ex:
        futs = [ex.submit(run_mockery_chunk, ctx, world, ch, "%s%d" % (prefix, i), 25, traces) for i, ch in enumerate(chunks)]
        for f in futs:
            res.update(f.result())
    return res


def run_chunks_traced(ctx, world, entries, prefix, traces, chunk=50, par=6):
    """run_chunks, keeping the hook trace of every mockery invocation (for CodegenTrace.tla)"""
    return run_chunks(ctx, world, entries, prefix, chunk=chunk, par=par, traces=traces)


def validate_run_traces(ctx, traces, selftest=True):
    """Hook traces of mockery runs -> CodegenTrace.tla.  Three corrupted copies of the first complete run are appended
    and must be rejected (always-on binding self-test).  -> (runs accepted, [rejected run descriptions])"""
    evs = []
    for ri, tr in enumerate(traces):
        evs.append({"ev": "reset", "run": ri})
        for e in tr:
            if e.get("ev") in ("Select", "Collect", "FileBegin", "Stage", "Generated", "Exists", "Write", "Exit"):
                x = {"ev": e["ev"], "run": ri}
                for k in ("pkg", "iface", "file", "struct", "stage", "ok", "code", "gen"):
                    if k in e:
                        x[k] = e[k]
                evs.append(x)
    corrupt = {}
    if selftest:
        good = next((ri for ri, tr in enumerate(traces) if tr and tr[-1].get("ev") == "Exit" and tr[-1].get("code") == 0
                     and any(e.get("ev") == "Write" for e in tr)), None)
        if good is None:
            raise MachineryError("binding self-test: no successful run to corrupt")
        base_ev = [e for e in evs if e["run"] == good]
        si = next(i for i, e in enumerate(base_ev) if e["ev"] == "Select")
        wi = next(i for i, e in enumerate(base_ev) if e["ev"] == "Stage" and e.get("stage") == "format")
        for tag, ev2 in (("select-twice", base_ev[:si + 1] + [base_ev[si]] + base_ev[si + 1:]),
                         ("format-skipped", base_ev[:wi] + base_ev[wi + 1:]),
                         ("format-failed-but-written", base_ev[:wi] + [dict(base_ev[wi], ok=False)] + base_ev[wi + 1:])):
            rid = -1 - len(corrupt)
            corrupt[rid] = tag
            evs += [dict(e, run=rid) for e in ev2]
    rejected, seen_runs, hit = [], set(), set()
    for i in validate_events(ctx, "CodegenTrace", "CodegenTrace.cfg", evs):
        run = evs[i]["run"]
        if run in corrupt:
            hit.add(run)
        elif run not in seen_runs:
            seen_runs.add(run)
            rejected.append({"at": evs[i], "run_events": [e for e in evs if e["run"] == run][:80]})
    if selftest and hit != set(corrupt):
        raise MachineryError("binding self-test: corrupted traces were accepted by CodegenTrace.tla: %s" %
                             [corrupt[r_] for r_ in corrupt if r_ not in hit])
    ctx.cov["selftest_corrupted_traces_rejected"] = len(hit)
    return len(traces) - len(rejected), rejected


ERR_RE = re.compile(r"^(?:vet: )?(?:\./)?([^\s:]+\.go):(\d+):(\d+): (.*)$")


def typecheck(ctx, world, label="", mode="vet", patterns=None):
    """mode "build": go build ./... (sources only, no test files); mode "vet": go vet with one cheap analyzer -- the
    type checker runs on every package incl. its _test variants and external test packages, dependencies are compiled.
    -> {relative dir: first error line}, raw"""
    errs = {}
    raw = []
    pats = list(patterns) if patterns else ["./..."]
    for args in ([["build", *pats]] if mode == "build" else [["vet", "-framepointer", *pats]]):
        p = subprocess.run(["go", *args], cwd=world, env=cw_env(ctx), capture_output=True, text=True, timeout=1800)
        raw.append(p.stdout + p.stderr)
        cur = None
        for ln in (p.stdout + p.stderr).splitlines():
            if ln.startswith("#"):
                cur = ln
                continue
            m = ERR_RE.match(ln.strip())
            if m:
                d = os.path.dirname(m.group(1))
                errs.setdefault(d, "%s:%s: %s" % (os.path.basename(m.group(1)), m.group(2), m.group(4)))
                continue
            if "import cycle not allowed" in ln or ln.startswith("package ") or "imports " in ln:
                mm = re.search(r"(c/k\d+(?:/sub)?)", ln)
                if mm:
                    errs.setdefault(mm.group(1), ln.strip()[:200])
                continue
            if ln.strip() and p.returncode != 0 and not ln.startswith(("ok", "?")):
                mm = re.search(r"(c/k\d+(?:/sub)?)", ln)
                if mm:
                    errs.setdefault(mm.group(1), ln.strip()[:200])
        if p.returncode != 0 and not errs:
            raise MachineryError("go %s failed without an attributable error (%s):\n%s" % (args[0], label, (p.stdout + p.stderr)[-1500:]))
    return errs, raw


def case_error(errs, cs):
    """first toolchain error in the directories of a case ('' if none)"""
    for d in (cs.dir, cs.dir + "/sub"):
        if d in errs:
            return errs[d]
    return ""


def fileinfo(ctx, files):
    drv = ctx.build_driver("gofileinfo")
    d = ctx.mkdir()
    (d / "list.json").write_text(json.dumps([str(f) for f in files]))
    p = subprocess.run([str(drv), str(d / "list.json"), str(d / "out.ndjson")], capture_output=True, text=True, timeout=600)
    if p.returncode != 0:
        raise MachineryError("gofileinfo died: " + p.stderr[-500:])
    out = {}
    for ln in (d / "out.ndjson").read_text().splitlines():
        x = json.loads(ln)
        out[x["file"]] = x
    return out


ERRCLASS = [
    ("import-cycle", r"import cycle"),
    ("imported-not-used", r"imported and not used"),
    ("undefined", r"undefined: "),
    ("redeclared", r"redeclared|already declared|duplicate argument|duplicate field|no new variables|duplicate method|field and method with the same name"),
    ("not-a-type", r"is not a type|not a type"),
    ("not-generic", r"not a generic type|cannot use generic type|got \d+ arguments but \d+ type parameters|without instantiation"),
    ("constraint", r"does not satisfy|cannot use type comparable|outside a type constraint|misplaced constraint"),
    ("mismatch", r"cannot use|mismatched types|invalid operation|cannot call non-function|not enough arguments|too many arguments|cannot range|invalid argument|cannot index|assignment mismatch|does not implement|missing method"),
    ("syntax", r"expected |syntax error|illegal|invalid character"),
]


def errclass(msg):
    for name, pat in ERRCLASS:
        if re.search(pat, msg):
            return name
    return "other"


SUBJ_RE = re.compile(r"(?:undefined: |name |declared and not used: |^)([\w.\u00c0-\uffff]+)(?: redeclared| already declared| is not a type| not exported|$| )")


def err_subject(msg, cs):
    """the identifier a toolchain error is about, abstracted to <srcpkg> / <ident> where it is the case's own"""
    m = re.search(r"^[^:]*:\d+: (.*)$", msg)
    body = m.group(1) if m else msg
    m = SUBJ_RE.search(body)
    w = m.group(1) if m else ""
    for pat in (r'"([\w./-]+)" imported', r"non-function (\w+)", r"mock\.(\w+Func) == nil", r"non-variadic (\w+)"):
        mm = re.search(pat, body)
        if mm:
            w = mm.group(1)
            break
    if re.search(r'cannot use &\w+(\[[^\]]*\])?\{\} .* value in variable declaration', body):
        return "ensure-line"
    base = w.split(".")[0]
    if base == cs.pkgname:
        return "<srcpkg>" + w[len(base):]
    idents = [conc_ident(x) for x in cs.prog["ident"].split("+")] if cs.prog["ident"] else []
    if w in idents or re.sub(r"\d+$", "", w) in idents:
        return "<ident>"
    return w


def predicted_imports(cs):
    """model prediction of the file's import table as {path: qualifier}"""
    out = {}
    for p, q in cs.pred["imports"].items():
        path = cs.pkgpath if p == "SRC" else PKGS[p][0]
        out[path] = q if p != "SRC" or q != cs.prog["srcname"] else cs.pkgname
        if p == "SRC":
            # the model names the source package by its abstract name; allocator suffixes are kept
            sn = cs.prog["srcname"]
            out[path] = cs.pkgname + q[len(sn):] if q.startswith(sn) else q
    if cs.cfg["tmpl"] == "testify":
        out[PKGS["TM"][0]] = "mock"
    return out


def measured_imports(info):
    out = {}
    for i in info["imports"]:
        out[i["path"]] = i["name"] or None   # None: the package's own name
    return out


# ------------------------------------------------------------------------------------------ C02: assertion files
def dest_is_source_package(cs):
    return cs.cfg["place"] in ("samepkg", "samepkg_test")


def assert_filename(cs):
    return {"samepkg": "zz_assert.go", "samepkg_test": "zz_assert_test.go", "ext_test": "zz_assert_ext_test.go",
            "subpkg": "zz_assert.go", "subpkg_samename": "zz_assert.go"}[cs.cfg["place"]]


def constructor_name(mockname):
    new = "new" if mockname[:1].islower() else "New"
    return new + mockname[:1].upper() + mockname[1:]


def mock_name(name):
    g = conc_ident(name)
    exported = g[:1].upper() == g[:1] and g[:1].lower() != g[:1]
    return ("Mock" if exported else "mock") + g


def strip_names(methods):
    return [dict(m, ps=[dict(v, n="") for v in m["ps"]], rs=[dict(v, n="") for v in m["rs"]]) for m in methods]


def render_assert(cs, progx, names=None):
    """Assertion file for one case, concretised from the spec's expected method sets (PROG.sets) and admissible
    type-argument tuples (PROG.alltargs), for the target or for every interface of `names` mocked into the same file.
    Every assertion sits on its own line tagged `// A:<kind>`:
      model   the spec's method set is mutually assignable with the source interface (guards the MODEL: exit 2)
      assign  (*Mock[targs])(nil) is assignable to the source interface           (C02)
      expset  ... and to the interface spelled out from the spec's method set       (C02)
      ctor    testify: the constructor's result is assignable as well               (C02)"""
    prog = cs.prog
    insrc = dest_is_source_package(cs)

    def qual(p):
        if p == "SRC":
            return "" if insrc else "zsrc"
        return "z" + p.lower()
    r = Renderer(qual)
    body = []
    for name in (names or [prog["target"]]):
        tps = prog["decls"][name]["tps"]
        tpdecl = tparams_text(r, tps)
        tpuse = "[" + ", ".join(conc_ident(tp["n"]) for tp in tps) + "]" if tps else ""
        g = conc_ident(name)
        src = ("" if insrc else "zsrc.") + g
        mock = mock_name(name)
        body.append("type zzExp_%s%s interface {" % (g, tpdecl))
        for m in strip_names(progx["sets"][name]):
            body.append("\t" + conc_ident(m["n"]) + r.sig(m))
        body.append("}")
        body.append("func zzA_%s%s(a zzExp_%s%s) %s%s { return a } // A:model" % (g, tpdecl, g, tpuse, src, tpuse))
        body.append("func zzB_%s%s(a %s%s) zzExp_%s%s { return a } // A:model" % (g, tpdecl, src, tpuse, g, tpuse))
        for ta in (progx["alltargs"][name] if tps else [[]]):
            inst = "[" + ", ".join(r.t(a) for a in ta) + "]" if tps else ""
            body.append("var _ %s%s = (*%s%s)(nil) // A:assign" % (src, inst, mock, inst))
            body.append("var _ zzExp_%s%s = (*%s%s)(nil) // A:expset" % (g, inst, mock, inst))
            if cs.cfg["tmpl"] == "testify":
                body.append("var _ = func() %s%s { return %s%s(nil) } // A:ctor" % (src, inst, constructor_name(mock), inst))
    imps = []
    if not insrc:
        imps.append("\tzsrc \"%s\"" % cs.pkgpath)
    for p in sorted(r.used):
        imps.append("\t%s \"%s\"" % (qual(p), PKGS[p][0]))
    out = ["// assertions for %s (%s)" % (cs.pid, cs.cid), "package " + cs.outpkg, ""]
    if imps:
        out += ["import ("] + imps + [")", ""]
    out += body + [""]
    return "\n".join(out)


def assertion_kind(world, relfile, line):
    try:
        ln = (Path(world) / relfile).read_text().splitlines()[int(line) - 1]
    except (OSError, IndexError, ValueError):
        return "?"
    m = re.search(r"// A:(\w+)", ln)
    return m.group(1) if m else "?"


def typecheck_detailed(ctx, world, label=""):
    """like typecheck(mode=vet) but keeps (file, line, msg) of the first error per directory"""
    p = subprocess.run(["go", "vet", "-framepointer", "./..."], cwd=world, env=cw_env(ctx), capture_output=True, text=True, timeout=1800)
    errs = {}
    for ln in (p.stdout + p.stderr).splitlines():
        m = ERR_RE.match(ln.strip())
        if m:
            d = os.path.dirname(m.group(1))
            errs.setdefault(d, (m.group(1), int(m.group(2)), m.group(4)))
            continue
        mm = re.search(r"(c/k\d+(?:/sub)?)", ln)
        if mm and not ln.startswith("#") and p.returncode != 0 and not ln.startswith(("ok", "?")):
            errs.setdefault(mm.group(1), (mm.group(1), 0, ln.strip()[:200]))
    if p.returncode != 0 and not errs:
        raise MachineryError("go vet failed without an attributable error (%s):\n%s" % (label, (p.stdout + p.stderr)[-1500:]))
    return errs


# ------------------------------------------------------------------------------------------ trace validation
def validate_events(ctx, module, cfg, events, timeout=900):
    """One TLC run over a concatenated recording (cases/runs separated by `reset`).  The trace specs of this family do
    not dead-end on an event the contract rejects: they print REJECT with the 0-based event index, skip to the next
    reset and go on; DONE reports the total.  -> sorted list of rejected event indices."""
    ok, r = ctx.validate_trace(module, cfg, events, timeout=timeout)
    done = r.prints("DONE")
    if not ok or len(done) != 1 or done[0]["events"] != len(events):
        raise MachineryError("trace validation did not run to the end of the recording (%s/%s):\n%s" % (module, cfg, r.tail(25)))
    rej = sorted({x["at"] for x in r.prints("REJECT")})
    if len(rej) != done[0]["rejected"]:
        raise MachineryError("trace validation: %d REJECT lines but DONE says %d" % (len(rej), done[0]["rejected"]))
    return rej


# ------------------------------------------------------------------------------------------ failure signatures
def predicted_tags(cs):
    """issue tags the code-shaped model (Codegen.tla) predicts for this case's option set"""
    keys = [cs.cexpect["predkey"]]
    if len(cs.prog.get("targets") or []) > 1:
        keys.append(cs.cexpect["predkey_rest"])       # interfaces of one file may see different options
    tags = set(cs.pred["modelissues"])
    for e in cs.pred["issues"]:
        if any(e["opts"]["unroll"] == k["unroll"] and e["opts"]["stub"] == k["stub"] for k in keys):
            tags |= set(e["tags"])
    return tags


def failure_sig(cs, ok_m, det, err):
    """signature of a C01-type failure (generation failed / written file does not type-check), specific enough for
    known-finding matching: template, formatter, placement, shape feature, identifier class, error class and subject,
    and the deviation tags the model predicts for the case"""
    tags = predicted_tags(cs)
    sig = cs.sig()
    sig["kind"] = "mockery-exit" if not ok_m else "typecheck"
    msg = err if ok_m else ((det or {}).get("stderr_tail", "") or (det or {}).get("why", ""))
    sig["errclass"] = errclass(msg) if ok_m else ("panic" if (det or {}).get("panic") else "format" if "format" in msg else "exit")
    sig["predicted"] = "+".join(sorted(tags))
    for t_ in tags:
        sig["tag:" + t_] = True
    sig["errsubject"] = err_subject(msg, cs) if ok_m else ""
    return sig
