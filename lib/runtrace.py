"""Trace validation of whole `mockery` runs against spec/MockeryTrace.tla  (the ROOT trace specification).

Every run of the hook build (`ctx.run_mockery(...)` / `pipetrace.run(...)` -> RunResult with `.trace`, `.code`,
`.timed_out`) can be passed through here, whatever the check is about.  TLC judges, on the COMPLETE hook-event stream
of every run, phase order and cross-phase consistency (the clauses `Chk` of spec/MockerySkeleton.tla -- the operators
every action of the root state machine spec/Mockery.tla is built from):

  * Initialize: every package visited once per pass, expansion only after all were visited, Inject / Exclude only for a
    package at or below the expanding one (by path SEGMENTS), decided once per parent, `existed` agrees with the table,
    a new package is injected by its NEAREST recursive ancestor, the second pass starts from / repeats the first and
    injects nothing new;
  * Select once per interface, of a package of the table; `gen=false` is followed by no resolution / collection,
    `gen=true` by Resolved+Collect pairs; Collect.file is the CLEAN JOIN of that Resolved.dir and .filename,
    Collect.struct / .pkgname are the Resolved values; one source package / pkgname / template per output file;
  * FileBegin names a collected file, once, `n` = number of Collects into it; Stage(template).template is the
    collected template, .schema the schema resolved for the file's first mock; stages in pipeline order; Write only
    after all four stages and (not exists or force), bytes as generated; nothing after Exit;
  * Exit 0 only if every selected interface was collected, every collected file written, nothing failed, nothing
    missing; the process status agrees; (with `.changed`) only written files changed on disk;
  * with a contract expectation attached to the run (`.expect`, exported by TLC with the case: Mockery!Contract(w).exp)
    the `contract-*` clauses also bind Select.gen, every Collect, Inject, Exists.force and the exit status to it.

Interface:

    from runtrace import validate_runs, CLAUSE_PROPERTY, mine
    rejected = validate_runs(ctx, runs)        # runs: list of RunResult (or anything with .trace/.code/.timed_out;
                                               #       optional .expect (dict), .changed (list of file paths), .cwd)

    .changed / .cwd     `.changed` lists the FILES whose content differs after the run (absolute, or relative to the run's
                        working directory).  Clause only-written-files-changed compares them with the files of the Write
                        events.  Both sides are NORMALISED first -- joined with `.cwd` (the directory mockery ran in) when
                        relative, then cleaned (os.path.normpath) -- because a relative `dir` makes Write.file relative
                        while a tree diff is usually absolute.  If a Write.file or a `.changed` path is relative and no
                        `.cwd` is given the comparison cannot be decided and no Tree event is appended (never a rejection).
    for r in rejected:                         # [] when every run is accepted
        ...r["why"] (violated clause names), r["props"] (the property ids they belong to), r["event"], r["at"]

    rejected            list of {"index": i (position in `runs`), "why": [...], "props": [...], "event": {...},
                        "at": n (index of the event in the projected trace of that run), "events": [projected trace]}
    rejected.validated  number of runs with a non-empty hook trace that TLC went through
    rejected.drift      list of {"index", "why"}: accepted, but not what the code as it is does -- a note, never a verdict
    rejected.tlc_states states TLC generated (= events consumed)

    own, other = mine(rejected, "C10")         # a property check raises violations for `own`, notes for `other`

Runs without hook events (`version`, `--help`, ...) are skipped.  Timed-out runs get no ProcExit event.  A TLC problem
raises MachineryError (exit 2).  `selftest(ctx, run)` corrupts / drops events of an ACCEPTED real run and raises
MachineryError unless every corruption is rejected with the expected clause.
"""
from __future__ import annotations

import copy
import json
import os

from vlib import MachineryError

MODULE = "MockeryTrace"
CFG = "MockeryTrace.cfg"

HOOK_EVENTS = ("InitBegin", "InitPkg", "Recursive", "Exclude", "Inject", "InitEnd", "Parsed", "Select", "ResolveIter",
               "ResolveLoop", "Resolved", "Collect", "FileBegin", "Stage", "Generated", "Exists", "Write", "Missing",
               "Failpoint", "Exit")

_C06 = """init-not-nested init-before-parse init-at-most-twice second-init-starts-from-first-result inside-init-loop1
 package-visited-once-per-pass no-more-packages-than-announced second-init-visits-known-package
 all-packages-visited-before-expansion second-init-injects-nothing-new all-packages-visited second-init-repeats-first
 parse-after-initialize parse-once"""
_C07 = """inside-init recursive-package-was-visited recursive-once-per-pass inside-expansion-of-parent sub-at-or-below-parent
 decided-once-per-parent existed-agrees-with-table table-size-agrees nearest-recursive-ancestor-injects
 contract-settings-source select-after-parse select-before-files select-package-in-table select-once-per-interface
 previous-interface-complete contract-selection resolve-only-for-selected-interface-or-file previous-mock-collected-first
 resolved-names-current-interface collect-for-selected-interface collect-follows-its-resolution
 n-equals-mocks-collected-into-file collection-complete-before-files missing-only-after-parse
 missing-interface-was-never-discovered missing-reported-once zero-only-if-every-selected-interface-collected
 contract-all-mocks-collected"""
_C08 = """struct-equals-resolved-structname pkgname-equals-resolved-pkgname stage-template-is-collected-template
 stage-schema-is-first-mocks-resolved-schema contract-mock contract-force-file-write"""
_C09 = """not-after-exit exit-once one-source-package-per-file one-pkgname-per-file one-template-per-file zero-only-after-parse
 zero-only-if-nothing-open zero-only-if-no-missing-interface zero-only-if-nothing-failed status-agrees-with-exit-event
 zero-status-needs-exit-event-once-parsed process-exits-once contract-exit-status known-event"""
_C10 = """collect-before-files file-was-collected file-produced-once inside-a-file known-stage stage-once stages-in-order
 no-stage-after-failure no-stage-after-write is-current-file all-four-stages-ok no-failed-step existence-checked
 absent-or-forced written-once bytes-equal-generated zero-only-if-all-collected-written only-written-files-changed"""
_C11 = """iterations-count-up iterations-bounded loop-only-at-cap resolved-after-a-pass resolved-within-cap
 file-is-clean-join-of-resolved-dir-and-filename"""
_C12 = """builtin-template-has-schema schema-in-hand-is-applied schema-failure-needs-schema"""

CLAUSE_PROPERTY = {}
for _pid, _names in (("C06", _C06), ("C07", _C07), ("C08", _C08), ("C09", _C09), ("C10", _C10), ("C11", _C11), ("C12", _C12)):
    for _n in _names.split():
        CLAUSE_PROPERTY[_n] = _pid
# C13 (replace-type) leaves no mark in the hook events: no clause belongs to it.


class Rejected(list):
    validated = 0
    drift = ()
    tlc_states = 0


def props_of(why):
    return sorted({CLAUSE_PROPERTY.get(w, "ROOT") for w in why})


def mine(rejected, prop):
    """Split rejections into those that violate a clause of `prop` and the others."""
    own = [r for r in rejected if prop in r["props"]]
    other = [r for r in rejected if prop not in r["props"]]
    return own, other


def segs(path):
    return [s for s in str(path).split("/") if s != ""]


def norm_path(path, cwd):
    """absolute, cleaned spelling of a path of the run (None: relative and no cwd known)"""
    p = str(path)
    if not os.path.isabs(p):
        if not cwd:
            return None
        p = os.path.join(str(cwd), p)
    return os.path.normpath(p)


def project(events, run=0, cwd=None):
    """Raw hook events of one run -> the records MockerySkeleton!Chk reads.  Only renames fields, splits paths and adds
    the normalised spelling `nfile` of a written file."""
    out = []
    for e in events:
        ev = e.get("ev")
        if ev not in HOOK_EVENTS:
            continue
        r = {"ev": ev, "run": run}
        if ev in ("InitBegin", "InitEnd"):
            r["n"] = int(e.get("npkgs", -1))
        elif ev == "InitPkg":
            r["pkg"] = str(e.get("pkg", ""))
        elif ev == "Recursive":
            r["pkg"] = str(e.get("pkg", ""))
            r["psegs"] = segs(r["pkg"])
        elif ev in ("Exclude", "Inject"):
            r["parent"] = str(e.get("parent", ""))
            r["sub"] = str(e.get("sub", ""))
            r["psegs"] = segs(r["parent"])
            r["ssegs"] = segs(r["sub"])
            if ev == "Inject":
                r["existed"] = bool(e.get("existed", False))
        elif ev == "Parsed":
            r["n"] = int(e.get("n", -1))
        elif ev == "Select":
            r.update(pkg=str(e.get("pkg", "")), iface=str(e.get("iface", "")), gen=bool(e.get("gen", False)))
        elif ev == "ResolveIter":
            r["i"] = int(e.get("i", -1))
        elif ev == "ResolveLoop":
            r["iface"] = str(e.get("iface", ""))
        elif ev == "Resolved":
            d, fn = str(e.get("dir", "")), str(e.get("filename", ""))
            r.update(iface=str(e.get("iface", "")), dabs=d.startswith("/") or (d == "" and fn.startswith("/")),
                     dsegs=segs(d), fnsegs=segs(fn), pkgname=str(e.get("pkgname", "")),
                     struct=str(e.get("structname", "")), schema=str(e.get("schema", "")))
        elif ev == "Collect":
            f = str(e.get("file", ""))
            r.update(file=f, fabs=f.startswith("/"), fsegs=segs(f), pkg=str(e.get("pkg", "")), iface=str(e.get("iface", "")),
                     struct=str(e.get("struct", "")), pkgname=str(e.get("pkgname", "")), tmpl=str(e.get("template", "")))
        elif ev == "FileBegin":
            r.update(file=str(e.get("file", "")), n=int(e.get("n", -1)))
        elif ev == "Stage":
            r.update(stage=str(e.get("stage", "")), ok=bool(e.get("ok", False)), tmpl=str(e.get("template", "")),
                     schema=str(e.get("schema", "")), hasschema=bool(e.get("hasschema", False)),
                     validated=bool(e.get("validated", False)))
        elif ev in ("Generated", "Write"):
            r.update(file=str(e.get("file", "")), bytes=int(e.get("bytes", -1)))
            if ev == "Write":
                n = norm_path(r["file"], cwd)
                r["nfile"] = n if n is not None else "?relative:" + r["file"]
        elif ev == "Exists":
            r.update(file=str(e.get("file", "")), exists=bool(e.get("exists", False)), force=bool(e.get("force", False)))
        elif ev == "Missing":
            r.update(pkg=str(e.get("pkg", "")), iface=str(e.get("iface", "")))
        elif ev == "Exit":
            r["code"] = int(e.get("code", -1))
        out.append(r)
    return out


EMPTY_EXP = {"sel": [], "known": [], "mocks": [], "force": [], "src": [], "exit": "any"}


def run_events(r, run=0):
    """reset + projected events + ProcExit (+ Tree) for one RunResult."""
    exp = getattr(r, "expect", None)
    reset = {"ev": "reset", "run": run, "hasexp": exp is not None, "exp": exp if exp is not None else EMPTY_EXP}
    cwd = getattr(r, "cwd", None)
    evs = [reset] + project(getattr(r, "trace", None) or [], run, cwd)
    if not getattr(r, "timed_out", False) and getattr(r, "code", None) is not None:
        evs.append({"ev": "ProcExit", "run": run, "code": int(r.code)})
        ch = getattr(r, "changed", None)
        if ch is not None:
            nch = [norm_path(x, cwd) for x in ch]
            undecidable = any(x is None for x in nch) or any(e["ev"] == "Write" and e["nfile"].startswith("?relative:") for e in evs)
            if not undecidable:
                evs.append({"ev": "Tree", "run": run, "changed": nch})
    return evs


def validate_events(ctx, per_run, timeout=900):
    """per_run: {run id: [event records beginning with reset]} -> (rejects {id: rec}, drift {id: [why]}, states)."""
    ids = sorted(per_run)
    flat = []
    for i in ids:
        flat.extend(per_run[i])
    if not flat:
        return {}, {}, 0
    ok, r = ctx.validate_trace(MODULE, CFG, flat, timeout=timeout)
    if r.consumed is None or r.consumed[0] != r.consumed[1] or r.consumed[1] != len(flat):
        raise MachineryError(f"MockeryTrace did not consume the whole trace ({r.consumed} of {len(flat)}):\n" + r.tail())
    if not ok:
        raise MachineryError("MockeryTrace: TLC reported an error on a fully consumed trace:\n" + r.tail())
    rej = {}
    for x in r.prints("REJECT"):
        rej.setdefault(int(x["run"]), x)
    drift = {}
    for x in r.prints("DRIFT"):
        d = drift.setdefault(int(x["run"]), [])
        for wname in x["why"]:
            if wname not in d:
                d.append(wname)
    return rej, drift, r.distinct


def validate_runs(ctx, runs, chunk=1200, timeout=900):
    per_run = {}
    for i, r in enumerate(runs):
        if not getattr(r, "trace", None):
            continue
        per_run[i] = run_events(r, i)
    out = Rejected()
    out.validated = len(per_run)
    drift_all = []
    ids = sorted(per_run)
    for k in range(0, len(ids), chunk):
        part_ids = ids[k:k + chunk]
        part = {i: per_run[i] for i in part_ids}
        rej, drift, states = validate_events(ctx, part, timeout=timeout)
        out.tlc_states += states
        start_of = {}
        pos = 1
        for j in part_ids:
            start_of[j] = pos
            pos += len(per_run[j])
        for i, x in sorted(rej.items()):
            evs = per_run[i]
            at = int(x["at"]) - start_of[i]
            why = sorted(x["why"])
            out.append({"index": i, "why": why, "props": props_of(why), "event": evs[at] if 0 <= at < len(evs) else x["ev"],
                        "at": at, "events": evs})
        for i, why in sorted(drift.items()):
            drift_all.append({"index": i, "why": why})
    out.drift = drift_all
    return out


# ---------------------------------------------------------------------------------------------------------------
# binding self-test: corrupt single fields / drop events of an accepted real run

def _first(evs, pred):
    for k, e in enumerate(evs):
        if pred(e):
            return k
    raise MachineryError("runtrace.selftest: the base run lacks an event the corruption needs")


def corruptions():
    """name -> (mutator(evs), set of clause names of which at least one must be reported)."""
    C = {}

    def add(name, expect):
        def deco(fn):
            C[name] = (fn, set(expect))
            return fn
        return deco

    @add("collect-file-changed", {"file-is-clean-join-of-resolved-dir-and-filename"})
    def _(evs):
        e = evs[_first(evs, lambda e: e["ev"] == "Collect")]
        e["fsegs"] = e["fsegs"][:-1] + ["zz_" + e["fsegs"][-1]]

    @add("collect-struct-changed", {"struct-equals-resolved-structname"})
    def _(evs):
        evs[_first(evs, lambda e: e["ev"] == "Collect")]["struct"] += "X"

    @add("collect-pkgname-changed", {"pkgname-equals-resolved-pkgname"})
    def _(evs):
        evs[_first(evs, lambda e: e["ev"] == "Collect")]["pkgname"] += "x"

    @add("select-gen-flipped-to-false", {"resolve-only-for-selected-interface-or-file", "previous-interface-complete"})
    def _(evs):
        evs[_first(evs, lambda e: e["ev"] == "Select" and e["gen"])]["gen"] = False

    @add("select-gen-flipped-to-true", {"previous-interface-complete", "collection-complete-before-files",
                                        "zero-only-if-every-selected-interface-collected"})
    def _(evs):
        evs[_first(evs, lambda e: e["ev"] == "Select" and not e["gen"])]["gen"] = True

    @add("inject-parent-changed", {"inside-expansion-of-parent", "sub-at-or-below-parent"})
    def _(evs):
        e = evs[_first(evs, lambda e: e["ev"] == "Inject" and not e["existed"])]
        e["parent"] = e["parent"] + "x"
        e["psegs"] = e["psegs"][:-1] + [e["psegs"][-1] + "x"]

    @add("inject-sub-is-string-prefix-sibling", {"sub-at-or-below-parent"})
    def _(evs):
        e = evs[_first(evs, lambda e: e["ev"] == "Inject" and not e["existed"])]
        e["sub"] = e["parent"] + "x"
        e["ssegs"] = e["psegs"][:-1] + [e["psegs"][-1] + "x"]

    @add("inject-existed-flipped", {"existed-agrees-with-table"})
    def _(evs):
        e = evs[_first(evs, lambda e: e["ev"] == "Inject")]
        e["existed"] = not e["existed"]

    @add("filebegin-n-changed", {"n-equals-mocks-collected-into-file"})
    def _(evs):
        evs[_first(evs, lambda e: e["ev"] == "FileBegin")]["n"] += 1

    @add("filebegin-unknown-file", {"file-was-collected"})
    def _(evs):
        k = _first(evs, lambda e: e["ev"] == "FileBegin")
        evs[k]["file"] += ".bak"

    @add("stage-template-changed", {"stage-template-is-collected-template"})
    def _(evs):
        evs[_first(evs, lambda e: e["ev"] == "Stage" and e["stage"] == "template" and e["ok"])]["tmpl"] = "matryer-x"

    @add("stage-schema-changed", {"stage-schema-is-first-mocks-resolved-schema"})
    def _(evs):
        evs[_first(evs, lambda e: e["ev"] == "Stage" and e["stage"] == "template" and e["ok"])]["schema"] += ".x"

    @add("drop-resolved", {"collect-follows-its-resolution"})
    def _(evs):
        del evs[_first(evs, lambda e: e["ev"] == "Resolved" and e["iface"] != "")]

    @add("drop-collect", {"previous-interface-complete", "previous-mock-collected-first", "collection-complete-before-files"})
    def _(evs):
        del evs[_first(evs, lambda e: e["ev"] == "Collect")]

    @add("drop-second-initpkg", {"all-packages-visited-before-expansion", "all-packages-visited"})
    def _(evs):
        k = _first(evs, lambda e: e["ev"] == "InitEnd")
        k2 = k + 1 + _first(evs[k + 1:], lambda e: e["ev"] == "InitPkg")
        del evs[k2]

    @add("second-init-injects-new", {"second-init-injects-nothing-new", "existed-agrees-with-table"})
    def _(evs):
        k = _first(evs, lambda e: e["ev"] == "InitEnd")
        k2 = k + 1 + _first(evs[k + 1:], lambda e: e["ev"] == "Inject")
        evs[k2]["existed"] = False

    @add("second-init-drops-an-inject", {"second-init-repeats-first"})
    def _(evs):
        k = _first(evs, lambda e: e["ev"] == "InitEnd")
        first = evs[_first(evs, lambda e: e["ev"] == "Inject" and not e["existed"])]
        k2 = k + 1 + _first(evs[k + 1:], lambda e: e["ev"] == "Inject" and e["sub"] == first["sub"] and e["parent"] == first["parent"])
        del evs[k2]

    @add("resolve-iteration-skipped", {"iterations-count-up"})
    def _(evs):
        evs[_first(evs, lambda e: e["ev"] == "ResolveIter" and e["i"] == 1)]["i"] = 2

    @add("drop-format-stage", {"all-four-stages-ok", "stages-in-order"})
    def _(evs):
        del evs[_first(evs, lambda e: e["ev"] == "Stage" and e["stage"] == "format")]

    @add("exists-without-force", {"absent-or-forced"})
    def _(evs):
        e = evs[_first(evs, lambda e: e["ev"] == "Exists")]
        e["exists"], e["force"] = True, False

    @add("write-bytes-changed", {"bytes-equal-generated"})
    def _(evs):
        evs[_first(evs, lambda e: e["ev"] == "Write")]["bytes"] += 1

    @add("drop-write-exit-0", {"zero-only-if-all-collected-written"})
    def _(evs):
        del evs[_first(evs, lambda e: e["ev"] == "Write")]

    @add("write-for-uncollected-file", {"is-current-file"})
    def _(evs):
        evs[_first(evs, lambda e: e["ev"] == "Write")]["file"] += ".other"

    @add("tree-changed-an-unwritten-file", {"only-written-files-changed"})
    def _(evs):
        k = _first(evs, lambda e: e["ev"] == "ProcExit")
        w = [e["nfile"] for e in evs if e["ev"] == "Write"]
        evs[k + 1:] = [{"ev": "Tree", "run": evs[k]["run"], "changed": w + [w[0] + ".stamp"]}]

    @add("missing-for-a-selected-interface", {"missing-interface-was-never-discovered"})
    def _(evs):
        s = evs[_first(evs, lambda e: e["ev"] == "Select")]
        k = _first(evs, lambda e: e["ev"] == "Exit")
        evs.insert(k, {"ev": "Missing", "run": s["run"], "pkg": s["pkg"], "iface": s["iface"]})

    @add("event-after-exit", {"not-after-exit"})
    def _(evs):
        k = _first(evs, lambda e: e["ev"] == "Exit")
        evs.insert(k + 1, copy.deepcopy(evs[_first(evs, lambda e: e["ev"] == "Select")]))

    @add("process-status-differs", {"status-agrees-with-exit-event"})
    def _(evs):
        evs[_first(evs, lambda e: e["ev"] == "ProcExit")]["code"] = 1

    # with the contract's expectation attached: internally consistent, but not what the contract says
    @add("contract:select-gen-flipped", {"contract-selection"})
    def _(evs):
        evs[_first(evs, lambda e: e["ev"] == "Select" and not e["gen"])]["gen"] = True

    @add("contract:struct-renamed-consistently", {"contract-mock"})
    def _(evs):
        k = _first(evs, lambda e: e["ev"] == "Collect")
        evs[k]["struct"] += "X"
        r = max(j for j in range(k) if evs[j]["ev"] == "Resolved")
        evs[r]["struct"] += "X"

    @add("contract:file-moved-consistently", {"contract-mock"})
    def _(evs):
        k = _first(evs, lambda e: e["ev"] == "Collect")
        r = max(j for j in range(k) if evs[j]["ev"] == "Resolved")
        evs[r]["fnsegs"] = ["zz_" + evs[r]["fnsegs"][-1]]
        old = evs[k]["file"]
        new = old.rsplit("/", 1)[0] + "/zz_" + old.rsplit("/", 1)[1]
        for e in evs:
            if e.get("file") == old:
                e["file"] = new
                if "fsegs" in e:
                    e["fsegs"] = e["fsegs"][:-1] + ["zz_" + e["fsegs"][-1]]

    @add("contract:force-flipped", {"contract-force-file-write"})
    def _(evs):
        e = evs[_first(evs, lambda e: e["ev"] == "Exists")]
        e["force"] = not e["force"]

    return C


def selftest(ctx, run, require=None):
    """Corrupt one field / drop one event of an ACCEPTED successful real run that has: two Initialize passes with a
    newly injected sub-package, a Select gen=false, resolutions with >= 2 passes, a written file.  Every variant must be
    rejected with (at least) one of the clauses it was built to violate.  Returns {variant: [clauses reported]}."""
    base = run_events(run, 0)
    bare = copy.deepcopy(base)                      # without the contract's expectation: the world-free clauses alone
    bare[0]["hasexp"], bare[0]["exp"] = False, EMPTY_EXP
    C = corruptions()
    names = sorted(C) if require is None else sorted(require)
    if not base[0]["hasexp"]:
        names = [n for n in names if not n.startswith("contract:")]
    per_run = {0: base}
    for k, name in enumerate(names, start=1):
        evs = copy.deepcopy(base if name.startswith("contract:") else bare)
        C[name][0](evs)
        for e in evs:
            e["run"] = k
        per_run[k] = evs
    rej, _drift, _ = validate_events(ctx, per_run)
    if 0 in rej:
        raise MachineryError("runtrace.selftest: the unmodified real trace was rejected: " + json.dumps(rej[0]))
    missed = [n for k, n in enumerate(names, start=1) if k not in rej]
    if missed:
        raise MachineryError("runtrace.selftest: corrupted traces were ACCEPTED: " + ", ".join(missed))
    wrong = [f"{n}: {sorted(rej[k]['why'])}" for k, n in enumerate(names, start=1) if not (set(rej[k]["why"]) & C[n][1])]
    if wrong:
        raise MachineryError("runtrace.selftest: rejected, but not with the clause the corruption targets: " + "; ".join(wrong))
    return {n: sorted(rej[k]["why"]) for k, n in enumerate(names, start=1)}
