"""Trace validation of `mockery` runs against spec/PipelineTrace.tla  (properties C09 / C10).

Every run of the hook build (`ctx.run_mockery(...)` -> RunResult with `.trace`, `.code`, `.timed_out`) can be
passed through here, whatever the check is about.  TLC judges, on every run:

  * stages of each output file in pipeline order, each once, none after a failed one;
  * `Write(f)` only after template, schema, exec and format of f all completed AND the existence check of f
    reported (not exists) or force-file-write; never for a file with a failed step / failpoint; at most once;
  * `Exit code=0` only if every collected file was written, nothing failed and no interface was `Missing`;
  * the status reported by the operating system agrees with the `Exit` event (0 <=> 0), and a run that got as
    far as parsing cannot end with status 0 without an `Exit` event.

Interface (keep it this small):

    from pipetrace import validate_runs
    rejected = validate_runs(ctx, runs)            # runs: list of RunResult (or anything with .trace/.code/.timed_out)
    for r in rejected:                             # [] when every run is accepted
        ctx.violation({"kind": "trace-rejected", "why": r["why"][0], ...}, r)

    rejected            list of {"index": i (position in `runs`), "why": [violated clause names], "event": {...},
                        "at": n (index of the event in the projected trace of that run), "events": [projected trace]}
    rejected.validated  number of runs with a non-empty hook trace that TLC went through (accepted + rejected)
    rejected.drift      list of {"index", "why"}: accepted by the contract but not what the code-shaped layer does
                        (e.g. continues after a failed file) -- a note, never a verdict

Runs without hook events (e.g. `trace=False`) are skipped.  Timed-out runs get no ProcExit event.  A TLC problem
raises MachineryError (exit 2).  `selftest(ctx, run)` corrupts / drops events of an accepted real run and raises
MachineryError unless every corruption is rejected.
"""
from __future__ import annotations

import copy
import itertools
import json
import subprocess
import time
from concurrent.futures import ThreadPoolExecutor

from vlib import MachineryError, RunResult, go_env

KEEP = ("Parsed", "Collect", "FileBegin", "Stage", "Generated", "Exists", "Write", "Missing", "Failpoint", "Exit")
MODULE = "PipelineTrace"
CFG = "PipelineTrace.cfg"


class Rejected(list):
    validated = 0
    drift = ()
    tlc_states = 0


def _rec(ev, run, **kw):
    r = {"ev": ev, "run": run, "file": "", "stage": "", "ok": False, "exists": False, "force": False, "code": -1}
    r.update(kw)
    return r


def project(events, run=0):
    """Raw hook events of one run -> the records PipelineTrace.tla reads (fixed field set)."""
    out = []
    for e in events:
        ev = e.get("ev")
        if ev not in KEEP:
            continue
        if ev == "Stage":
            out.append(_rec(ev, run, stage=str(e.get("stage", "")), ok=bool(e.get("ok", False))))
        elif ev == "Exists":
            out.append(_rec(ev, run, file=str(e.get("file", "")), exists=bool(e.get("exists", False)),
                            force=bool(e.get("force", False))))
        elif ev == "Exit":
            out.append(_rec(ev, run, code=int(e.get("code", -1))))
        elif ev in ("Collect", "FileBegin", "Generated", "Write"):
            out.append(_rec(ev, run, file=str(e.get("file", ""))))
        else:
            out.append(_rec(ev, run))
    return out


def run_events(r, run=0):
    """reset + projected events + ProcExit for one RunResult."""
    evs = [_rec("reset", run)] + project(getattr(r, "trace", None) or [], run)
    if not getattr(r, "timed_out", False) and getattr(r, "code", None) is not None:
        evs.append(_rec("ProcExit", run, code=int(r.code)))
    return evs


def validate_events(ctx, per_run, timeout=900):
    """per_run: {run id: [event records beginning with reset]} -> (rejects {id: rec}, drift {id: [why]}, states)."""
    ids = sorted(per_run)
    flat = []
    for i in ids:
        flat.extend(per_run[i])
    if not flat:
        return {}, {}, 0
    ok, r = ctx.validate_trace(MODULE, CFG, flat, timeout=timeout)
    if r.consumed is None or r.consumed[0] != r.consumed[1] or r.consumed[1] != len(flat):
        raise MachineryError(f"PipelineTrace did not consume the whole trace ({r.consumed} of {len(flat)}):\n" + r.tail())
    if not ok:
        raise MachineryError("PipelineTrace: TLC reported an error on a fully consumed trace:\n" + r.tail())
    rej = {}
    for x in r.prints("REJECT"):
        rej.setdefault(int(x["run"]), x)
    drift = {}
    for x in r.prints("DRIFT"):
        drift.setdefault(int(x["run"]), [])
        for wname in x["why"]:
            if wname not in drift[int(x["run"])]:
                drift[int(x["run"])].append(wname)
    return rej, drift, r.distinct


def validate_runs(ctx, runs, chunk=1500, timeout=900):
    per_run = {}
    for i, r in enumerate(runs):
        if not (getattr(r, "trace", None)):
            continue
        per_run[i] = run_events(r, i)
    out = Rejected()
    out.validated = len(per_run)
    drift_all = []
    ids = sorted(per_run)
    for k in range(0, len(ids), chunk):
        part = {i: per_run[i] for i in ids[k:k + chunk]}
        rej, drift, states = validate_events(ctx, part, timeout=timeout)
        out.tlc_states += states
        for i, x in sorted(rej.items()):
            evs = per_run[i]
            # position of the rejected event inside this run's projected trace
            start = 1
            for j in ids[k:k + chunk]:
                if j == i:
                    break
                start += len(per_run[j])
            out.append({"index": i, "why": sorted(x["why"]), "event": x["ev"], "at": int(x["at"]) - start,
                        "events": evs})
        for i, why in sorted(drift.items()):
            drift_all.append({"index": i, "why": why})
    out.drift = drift_all
    return out


def selftest(ctx, run):
    """Corrupt one field / drop one event of an ACCEPTED successful real run; each variant must be rejected."""
    base = run_events(run, 0)
    names = [e["ev"] for e in base]
    need = ("Stage", "Exists", "Write", "Exit")
    if not all(n in names for n in need) or getattr(run, "code", 1) != 0:
        raise MachineryError("pipetrace.selftest needs a successful run that wrote a file")
    variants = {}

    def var(name, fn):
        evs = copy.deepcopy(base)
        fn(evs)
        variants[name] = evs

    def drop_format(evs):
        i = next(k for k, e in enumerate(evs) if e["ev"] == "Stage" and e["stage"] == "format")
        del evs[i]

    def exists_true(evs):
        e = next(e for e in evs if e["ev"] == "Exists")
        e["exists"], e["force"] = True, False

    def stage_failed(evs):
        e = next(e for e in evs if e["ev"] == "Stage" and e["stage"] == "schema")
        e["ok"] = False

    def drop_write(evs):
        i = next(k for k, e in enumerate(evs) if e["ev"] == "Write")
        del evs[i]

    def add_missing(evs):
        i = next(k for k, e in enumerate(evs) if e["ev"] == "Exit")
        evs.insert(i, _rec("Missing", 0))

    def proc_status(evs):
        evs[-1]["code"] = 1

    def swap_stages(evs):
        i = next(k for k, e in enumerate(evs) if e["ev"] == "Stage" and e["stage"] == "exec")
        j = next(k for k, e in enumerate(evs) if e["ev"] == "Stage" and e["stage"] == "format")
        evs[i], evs[j] = evs[j], evs[i]

    def drop_exists(evs):
        i = next(k for k, e in enumerate(evs) if e["ev"] == "Exists")
        del evs[i]

    var("drop-format-stage", drop_format)
    var("exists-without-force", exists_true)
    var("schema-stage-failed-but-written", stage_failed)
    var("drop-write-exit-0", drop_write)
    var("missing-before-exit-0", add_missing)
    var("process-status-differs", proc_status)
    var("format-before-exec", swap_stages)
    var("drop-existence-check", drop_exists)
    per_run = {0: base}
    order = sorted(variants)
    for k, name in enumerate(order, start=1):
        for e in variants[name]:
            e["run"] = k
        per_run[k] = variants[name]
    rej, _drift, _ = validate_events(ctx, per_run)
    if 0 in rej:
        raise MachineryError("pipetrace.selftest: the unmodified real trace was rejected: " + json.dumps(rej[0]))
    missed = [name for k, name in enumerate(order, start=1) if k not in rej]
    if missed:
        raise MachineryError("pipetrace.selftest: corrupted traces were ACCEPTED: " + ", ".join(missed))
    return {name: sorted(rej[k]["why"]) for k, name in enumerate(order, start=1)}


# ---------------------------------------------------------------------------------------------------------------
# Helpers used by checks/c09.py and checks/c10.py (thread-safe variant of Ctx.run_mockery + a small pool).

_seq = itertools.count(1)


def run(ctx, cwd, args=(), env=None, timeout=120, fail=None, unset=()):
    """Like ctx.run_mockery, but safe to call from several threads (own trace-file counter).
    unset: environment variables the process must NOT see (e.g. HOME) -- removed after `env` is applied."""
    binp = ctx.mockery()
    tfile = ctx.scratch / f"ptrace-{next(_seq)}.ndjson"
    e = go_env(env)
    for k in unset:
        e.pop(k, None)
    e["VERIFHOOK_TRACE"] = str(tfile)
    if fail:
        e["VERIFHOOK_FAIL"] = fail
    t = time.time()
    to = False
    try:
        p = subprocess.run([str(binp), *args], cwd=cwd, env=e, capture_output=True, text=True, timeout=timeout,
                           errors="replace")
        code, out, err = p.returncode, p.stdout, p.stderr
    except subprocess.TimeoutExpired as ex:
        to, code = True, -9
        out = ex.stdout.decode("utf8", "replace") if isinstance(ex.stdout, bytes) else (ex.stdout or "")
        err = ex.stderr.decode("utf8", "replace") if isinstance(ex.stderr, bytes) else (ex.stderr or "")
    evs = []
    if tfile.exists():
        for ln in tfile.read_text().splitlines():
            try:
                evs.append(json.loads(ln))
            except ValueError:
                pass
        tfile.unlink()
    return RunResult(code, out, err, time.time() - t, to, evs)


def pmap(fn, items, workers=10):
    """Ordered parallel map; an exception in a worker is re-raised here."""
    if not items:
        return []
    with ThreadPoolExecutor(max_workers=workers) as ex:
        return list(ex.map(fn, items))


def final_coverage_zero(r):
    """Actions with a zero count in the LAST coverage report of a TLC run (`-coverage 1` also prints interim reports,
    in which actions deep in the graph are still at 0)."""
    import re
    text = r.text
    k = text.rfind("The coverage statistics at")
    if k < 0:
        raise MachineryError("TLC printed no coverage report")
    return [ln.strip() for ln in text[k:].splitlines() if re.search(r"^<\w+ line .*>: 0:0$", ln.strip())]


MODULE_FILES = ("go.mod", "go.sum", "go.work", "go.work.sum", "vendor/modules.txt")


def untidy_module(feature, pkg, gomod, gosum):
    """An untidy-but-resolvable module (class "untidy-module" of Pipeline.tla) -> (extra source files, go.mod text, go.sum text).
    Under the go command's default -mod=readonly the package `pkg` then fails to load; nothing may rewrite go.mod / go.sum.
    Such worlds must be run WITHOUT GOFLAGS=-mod=mod (pass env={"GOFLAGS": ""}), i.e. the way a user runs mockery."""
    if feature == "replace-without-require":
        files = {"localdep/go.mod": "module example.com/localdep\n\ngo 1.23\n",
                 "localdep/dep.go": "package localdep\n\n// T lives in a module that go.mod only mentions in a replace directive.\ntype T int\n",
                 f"{pkg}/uses_dep.go": f"package {pkg}\n\nimport \"example.com/localdep\"\n\nvar _ localdep.T\n"}
        return files, gomod + "\nreplace example.com/localdep => ./localdep\n", gosum
    if feature == "missing-gosum-line":
        files = {f"{pkg}/uses_testify.go": f"package {pkg}\n\nimport _ \"github.com/stretchr/testify/mock\"\n"}
        kept = "".join(ln + "\n" for ln in gosum.splitlines() if not ln.startswith("github.com/stretchr/testify "))
        return files, gomod, kept
    raise MachineryError("unknown untidy-module shape: " + str(feature))
