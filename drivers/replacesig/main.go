// Command replacesig projects Go source onto the abstract signature terms of
// spec/ReplaceType.tla (C13).  Standard library only.
//
// usage: replacesig <in.json> <out.json>
//
//	in:  {"files": [{"id": "...", "path": "/abs/file.go", "dst": "import/path/of/the/file's/package"}],
//	      "exprs": [{"id": "...", "dst": "...", "imports": {"qualifier": "import/path"}, "exprs": ["[]foo.T", ...]}]}
//	out: {"files": {"<id>": {"pkg": "mocks", "imports": [{"name": "foo0", "path": "..."}],
//	                         "methods": [{"recv": "MockI1", "name": "M1", "pnames": ["x"], "params": [term],
//	                                      "results": [term], "variadic": false}], "error": ""}},
//	      "exprs": {"<id>": {"terms": [term], "error": ""}}}
//
// term = {"k": "named|basic|ptr|slice|map|chan|func|raw", "p": "<import path>", "n": "<name>", "a": [term]}
// A qualified identifier is resolved through the file's own import table (alias, else last path
// element); an unqualified non-universe identifier belongs to the file's own package (dst).
package main

import (
	"bytes"
	"encoding/json"
	"fmt"
	"go/ast"
	"go/parser"
	"go/printer"
	"go/token"
	"go/types"
	"os"
	"path"
	"strconv"
)

type term struct {
	K string `json:"k"`
	P string `json:"p"`
	N string `json:"n"`
	A []term `json:"a"`
}

type imp struct {
	Name string `json:"name"`
	Path string `json:"path"`
}

type method struct {
	Recv     string   `json:"recv"`
	Name     string   `json:"name"`
	PNames   []string `json:"pnames"`
	Params   []term   `json:"params"`
	Results  []term   `json:"results"`
	Variadic bool     `json:"variadic"`
}

type fileOut struct {
	Pkg     string   `json:"pkg"`
	Imports []imp    `json:"imports"`
	Methods []method `json:"methods"`
	Error   string   `json:"error"`
}

type exprOut struct {
	Terms []term `json:"terms"`
	Error string `json:"error"`
}

type conv struct {
	quals   map[string]string // qualifier -> path
	dst     string
	tparams map[string]bool // type parameters in scope (of the receiver / given by the caller)
	err     error
}

func leaf(k, p, n string) term { return term{K: k, P: p, N: n, A: []term{}} }
func con(k string, a ...term) term {
	return term{K: k, A: a}
}

func (c *conv) fail(format string, a ...any) term {
	if c.err == nil {
		c.err = fmt.Errorf(format, a...)
	}
	return leaf("raw", "", "?")
}

func raw(e ast.Expr) term {
	var b bytes.Buffer
	_ = printer.Fprint(&b, token.NewFileSet(), e)
	return leaf("raw", "", b.String())
}

func (c *conv) typ(e ast.Expr) term {
	switch t := e.(type) {
	case *ast.Ident:
		if c.tparams[t.Name] {
			return leaf("tparam", "", t.Name)
		}
		if types.Universe.Lookup(t.Name) != nil {
			return leaf("basic", "", t.Name)
		}
		return leaf("named", c.dst, t.Name)
	case *ast.SelectorExpr:
		x, ok := t.X.(*ast.Ident)
		if !ok {
			return raw(e)
		}
		p, ok := c.quals[x.Name]
		if !ok {
			return c.fail("qualifier %q is not in the import table", x.Name)
		}
		return leaf("named", p, t.Sel.Name)
	case *ast.ParenExpr:
		return c.typ(t.X)
	case *ast.IndexExpr: // generic instantiation g[t]
		return con("inst", c.typ(t.X), c.typ(t.Index))
	case *ast.IndexListExpr:
		a := []term{c.typ(t.X)}
		for _, ix := range t.Indices {
			a = append(a, c.typ(ix))
		}
		return term{K: "inst", A: a}
	case *ast.StarExpr:
		return con("ptr", c.typ(t.X))
	case *ast.ArrayType:
		if t.Len == nil {
			return con("slice", c.typ(t.Elt))
		}
		r := con("array", c.typ(t.Elt))
		r.N = raw(t.Len).N
		return r
	case *ast.Ellipsis:
		return con("slice", c.typ(t.Elt))
	case *ast.MapType:
		return con("map", c.typ(t.Key), c.typ(t.Value))
	case *ast.ChanType:
		r := con("chan", c.typ(t.Value))
		switch t.Dir {
		case ast.SEND:
			r.N = "send"
		case ast.RECV:
			r.N = "recv"
		}
		return r
	case *ast.FuncType:
		a := []term{}
		ps, _, _ := c.fields(t.Params)
		rs, _, _ := c.fields(t.Results)
		a = append(a, ps...)
		a = append(a, rs...)
		return term{K: "func", A: a}
	default:
		return raw(e)
	}
}

func (c *conv) fields(fl *ast.FieldList) (ts []term, names []string, variadic bool) {
	ts, names = []term{}, []string{}
	if fl == nil {
		return
	}
	for _, f := range fl.List {
		_, isEll := f.Type.(*ast.Ellipsis)
		t := c.typ(f.Type)
		n := len(f.Names)
		if n == 0 {
			ts = append(ts, t)
			names = append(names, "")
		}
		for i := 0; i < n; i++ {
			ts = append(ts, t)
			names = append(names, f.Names[i].Name)
		}
		variadic = isEll
	}
	return
}

// recvTParams returns the type parameter names a method's receiver declares (func (m *Mock[K, V]) ...).
func recvTParams(e ast.Expr) map[string]bool {
	out := map[string]bool{}
	switch t := e.(type) {
	case *ast.StarExpr:
		return recvTParams(t.X)
	case *ast.ParenExpr:
		return recvTParams(t.X)
	case *ast.IndexExpr:
		if id, ok := t.Index.(*ast.Ident); ok {
			out[id.Name] = true
		}
	case *ast.IndexListExpr:
		for _, ix := range t.Indices {
			if id, ok := ix.(*ast.Ident); ok {
				out[id.Name] = true
			}
		}
	}
	return out
}

func recvName(e ast.Expr) string {
	switch t := e.(type) {
	case *ast.StarExpr:
		return recvName(t.X)
	case *ast.Ident:
		return t.Name
	case *ast.IndexExpr:
		return recvName(t.X)
	case *ast.IndexListExpr:
		return recvName(t.X)
	case *ast.ParenExpr:
		return recvName(t.X)
	}
	return ""
}

func doFile(p, dst string) fileOut {
	out := fileOut{Imports: []imp{}, Methods: []method{}}
	fset := token.NewFileSet()
	f, err := parser.ParseFile(fset, p, nil, parser.SkipObjectResolution)
	if err != nil {
		out.Error = "parse: " + err.Error()
		return out
	}
	out.Pkg = f.Name.Name
	c := &conv{quals: map[string]string{}, dst: dst}
	for _, is := range f.Imports {
		ip, err := strconv.Unquote(is.Path.Value)
		if err != nil {
			out.Error = "import path: " + err.Error()
			return out
		}
		name := ""
		if is.Name != nil {
			name = is.Name.Name
		}
		out.Imports = append(out.Imports, imp{Name: name, Path: ip})
		q := name
		if q == "" {
			q = path.Base(ip)
		}
		if q != "_" && q != "." {
			c.quals[q] = ip
		}
	}
	for _, d := range f.Decls {
		fd, ok := d.(*ast.FuncDecl)
		if !ok || fd.Recv == nil || len(fd.Recv.List) != 1 {
			continue
		}
		c.err = nil
		c.tparams = recvTParams(fd.Recv.List[0].Type)
		ps, names, variadic := c.fields(fd.Type.Params)
		rs, _, _ := c.fields(fd.Type.Results)
		m := method{Recv: recvName(fd.Recv.List[0].Type), Name: fd.Name.Name, PNames: names, Params: ps, Results: rs, Variadic: variadic}
		if c.err != nil && out.Error == "" {
			out.Error = fmt.Sprintf("method %s.%s: %v", m.Recv, m.Name, c.err)
		}
		out.Methods = append(out.Methods, m)
	}
	return out
}

func doExprs(dst string, quals map[string]string, tparams []string, exprs []string) exprOut {
	out := exprOut{Terms: []term{}}
	c := &conv{quals: quals, dst: dst, tparams: map[string]bool{}}
	for _, tp := range tparams {
		c.tparams[tp] = true
	}
	for _, s := range exprs {
		e, err := parser.ParseExpr(s)
		if err != nil {
			out.Error = fmt.Sprintf("parse %q: %v", s, err)
			return out
		}
		out.Terms = append(out.Terms, c.typ(e))
	}
	if c.err != nil {
		out.Error = c.err.Error()
	}
	return out
}

func main() {
	if len(os.Args) != 3 {
		fmt.Fprintln(os.Stderr, "usage: replacesig <in.json> <out.json>")
		os.Exit(2)
	}
	b, err := os.ReadFile(os.Args[1])
	if err != nil {
		fmt.Fprintln(os.Stderr, err)
		os.Exit(2)
	}
	var in struct {
		Files []struct {
			ID   string `json:"id"`
			Path string `json:"path"`
			Dst  string `json:"dst"`
		} `json:"files"`
		Exprs []struct {
			ID      string            `json:"id"`
			Dst     string            `json:"dst"`
			Imports map[string]string `json:"imports"`
			TParams []string          `json:"tparams"`
			Exprs   []string          `json:"exprs"`
		} `json:"exprs"`
	}
	if err := json.Unmarshal(b, &in); err != nil {
		fmt.Fprintln(os.Stderr, err)
		os.Exit(2)
	}
	out := struct {
		Files map[string]fileOut `json:"files"`
		Exprs map[string]exprOut `json:"exprs"`
	}{Files: map[string]fileOut{}, Exprs: map[string]exprOut{}}
	for _, f := range in.Files {
		out.Files[f.ID] = doFile(f.Path, f.Dst)
	}
	for _, e := range in.Exprs {
		out.Exprs[e.ID] = doExprs(e.Dst, e.Imports, e.TParams, e.Exprs)
	}
	ob, err := json.Marshal(out)
	if err != nil {
		fmt.Fprintln(os.Stderr, err)
		os.Exit(2)
	}
	if err := os.WriteFile(os.Args[2], ob, 0o644); err != nil {
		fmt.Fprintln(os.Stderr, err)
		os.Exit(2)
	}
}
