// Command tagger recomputes the abstraction tables of spec/TaggerMC.tla with the library the release
// tagger itself uses (github.com/Masterminds/semver/v3, the version pinned by /repo/tools/go.mod).
// It is built inside the working-tree snapshot of the tools module by checks/c20.py.
//
// usage: tagger <in.json> <out.json>      in:  {"strings": ["v3.0.1", ...]}
// out: {"info": {s: {parsable, strict, dots3, maj, min, pat, pre, str}}, "less": [[a, b], ...]}
package main

import (
	"encoding/json"
	"fmt"
	"os"
	"strings"

	"github.com/Masterminds/semver/v3"
)

type info struct {
	Parsable bool   `json:"parsable"` // semver.NewVersion (lenient) accepts it: what tag.go uses
	Strict   bool   `json:"strict"`   // X.Y.Z[-pre][+meta] with an optional leading v: "a full semantic version"
	Dots3    bool   `json:"dots3"`    // at least three dot-separated parts (tag.go:124-128)
	Maj      uint64 `json:"maj"`
	Min      uint64 `json:"min"`
	Pat      uint64 `json:"pat"`
	Pre      string `json:"pre"`
	Str      string `json:"str"` // Version.String()
}

func main() {
	if len(os.Args) != 3 {
		fmt.Fprintln(os.Stderr, "usage: tagger in.json out.json")
		os.Exit(2)
	}
	raw, err := os.ReadFile(os.Args[1])
	if err != nil {
		fmt.Fprintln(os.Stderr, err)
		os.Exit(2)
	}
	var in struct {
		Strings []string `json:"strings"`
	}
	if err := json.Unmarshal(raw, &in); err != nil {
		fmt.Fprintln(os.Stderr, err)
		os.Exit(2)
	}
	out := struct {
		Info map[string]info `json:"info"`
		Less [][2]string     `json:"less"`
	}{Info: map[string]info{}, Less: [][2]string{}}
	vs := map[string]*semver.Version{}
	for _, s := range in.Strings {
		i := info{Dots3: len(strings.Split(s, ".")) >= 3}
		if v, err := semver.NewVersion(s); err == nil {
			i.Parsable = true
			i.Maj, i.Min, i.Pat, i.Pre, i.Str = v.Major(), v.Minor(), v.Patch(), v.Prerelease(), v.String()
			vs[s] = v
		}
		if _, err := semver.StrictNewVersion(strings.TrimPrefix(s, "v")); err == nil {
			i.Strict = true
		}
		out.Info[s] = i
	}
	for _, a := range in.Strings {
		for _, b := range in.Strings {
			va, vb := vs[a], vs[b]
			if va != nil && vb != nil && va.LessThan(vb) {
				if !vb.GreaterThan(va) {
					fmt.Fprintln(os.Stderr, "LessThan/GreaterThan disagree on", a, b)
					os.Exit(2)
				}
				out.Less = append(out.Less, [2]string{a, b})
			}
		}
	}
	b, _ := json.Marshal(out)
	if err := os.WriteFile(os.Args[2], b, 0o644); err != nil {
		fmt.Fprintln(os.Stderr, err)
		os.Exit(2)
	}
}
