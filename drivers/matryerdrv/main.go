// matryerdrv replays TLC-exported behaviours of spec/MatryerMock.tla on freshly generated matryer mocks.
//
// It is copied by checks/c04.py into the scratch world next to a generated registry.go
// (key "o<k>/C<id>" -> constructor of the mock generated for class C<id> with option set k).
// Everything is done by reflection, field by field / parameter by parameter *by position*, never by
// name: a template that renames fields passes, one that transposes them does not.
//
// usage: matryerdrv <plan.json> <cases.ndjson> <out.ndjson>
//
// plan.json: {"classes": {"<ar>/<var>/<nres>": ["C1","C7",...]},          shape -> class ids to fan out to
//             "pkgs":    {"<stub>/<resets>": ["o2","o3"]},                  options -> generated packages
//             "trace_every": K, "trace_offset": j, "max_mismatch": n, "workers": w}
// cases.ndjson: one exported CASE per line: {"sig":..,"opt":..,"init":..,"inner":..,"ops":[event...]}
// out.ndjson: {"kind":"trace","replay":id,"key":..,"case":i,"mismatch":null|{...},"events":[...]} per selected or
//             mismatching replay, and a final {"kind":"summary",...}.
package main

import (
	"bufio"
	"encoding/json"
	"fmt"
	"os"
	"reflect"
	"sort"
	"strings"
	"sync"
	"sync/atomic"
	"time"
	"unsafe"
)

type Shape struct {
	Ar   int  `json:"ar"`
	Var  bool `json:"var"`
	Nres int  `json:"nres"`
}
type Opt struct {
	Stub   bool `json:"stub"`
	Resets bool `json:"resets"`
}
type Reply struct {
	Kind  string `json:"kind"`
	Res   []int  `json:"res"`
	Names bool   `json:"names"`
	Inner []int  `json:"inner"`
	Seen  [][][][]int `json:"seen"` // what the OTHER method's MCalls() showed inside each invocation of the re-entrant function
}
type FwdEntry struct {
	M    string  `json:"m"`
	F    string  `json:"f"`
	Args [][]int `json:"args"`
}
type Event struct {
	Op    string                `json:"op"`
	M     string                `json:"m"`
	F     string                `json:"f"`
	Args  [][]int               `json:"args"`
	Reply Reply                 `json:"reply"`
	Fwd   []FwdEntry            `json:"fwd"`
	Logs  map[string][][][]int  `json:"logs"`
	Fnil  map[string]bool       `json:"fnil"`
	By    map[string][][][]int  `json:"by"`
	Snaps []Snap                `json:"snaps"`
	Xlog  [][][]int             `json:"xlog"`
	After [][]int               `json:"after"`
	AfterBy map[string][][]int  `json:"afterby,omitempty"`
	Types string                `json:"types,omitempty"`
	Case  int                   `json:"case"`
	Sig   map[string]Shape      `json:"sig,omitempty"`
	Opt   *Opt                  `json:"opt,omitempty"`
	Init  map[string]string     `json:"init,omitempty"`
}
type Snap struct {
	M    string    `json:"m"`
	Recs [][][]int `json:"recs"`
}
type kept struct {
	m string
	v reflect.Value
}
type Case struct {
	Sig   map[string]Shape  `json:"sig"`
	Opt   Opt               `json:"opt"`
	Init  map[string]string `json:"init"`
	Inner [][]int           `json:"inner"`
	ByArgs map[string][][]int `json:"byargs"`
	XArgs  [][]int            `json:"xargs"`
	Ops   []Event           `json:"ops"`
}
type Plan struct {
	Classes     map[string][]string `json:"classes"`
	Pkgs        map[string][]string `json:"pkgs"`
	TraceEvery  int                 `json:"trace_every"`
	TraceOffset int                 `json:"trace_offset"`
	MaxMismatch int                 `json:"max_mismatch"`
	Workers     int                 `json:"workers"`
	HangSeconds int                 `json:"hang_seconds"`
	ClassTypes  map[string]string   `json:"class_types"`  // class id -> type set name
	ClassRefPos map[string][]int    `json:"class_refpos"` // class id -> reference-like non-variadic positions (TLA+ table)
	SparsePkgs  []string            `json:"sparse_pkgs"`  // packages that hold mocks of some classes only
	LightPkgs   []string            `json:"light_pkgs"`    // packages replayed only for histories of <= LightMaxOps operations
	LightMaxOps int                 `json:"light_max_ops"` // (skip-ensure has no run-time meaning)
}

const undecodable = 999999

var methods = []string{"A", "B"}

// ---------------------------------------------------------------------------------- values
type codeErr int

func (e codeErr) Error() string { return fmt.Sprintf("e%d", int(e)) }

var errType = reflect.TypeOf((*error)(nil)).Elem()

// codeNamer satisfies any interface{ Name() int } declared by the generated world
type codeNamer int

func (n codeNamer) Name() int { return int(n) }

func encode(t reflect.Type, code int) reflect.Value {
	v := reflect.New(t).Elem()
	if code == 0 {
		return v
	}
	switch t.Kind() {
	case reflect.Int, reflect.Int8, reflect.Int16, reflect.Int32, reflect.Int64:
		v.SetInt(int64(code))
	case reflect.Uint, reflect.Uint8, reflect.Uint16, reflect.Uint32, reflect.Uint64:
		v.SetUint(uint64(code))
	case reflect.Float32, reflect.Float64:
		v.SetFloat(float64(code))
	case reflect.String:
		v.SetString(fmt.Sprintf("s%d", code))
	case reflect.Interface:
		if t == errType || t.NumMethod() > 0 && reflect.TypeOf(codeErr(0)).Implements(t) {
			v.Set(reflect.ValueOf(codeErr(code)))
		} else if t.NumMethod() > 0 && reflect.TypeOf(codeNamer(0)).Implements(t) {
			v.Set(reflect.ValueOf(codeNamer(code)))
		} else {
			v.Set(reflect.ValueOf(code))
		}
	case reflect.Struct:
		v.Field(0).Set(encode(t.Field(0).Type, code))
	case reflect.Ptr:
		p := reflect.New(t.Elem())
		p.Elem().Set(encode(t.Elem(), code))
		v.Set(p)
	case reflect.Slice:
		s := reflect.MakeSlice(t, 1, 1)
		s.Index(0).Set(encode(t.Elem(), code))
		v.Set(s)
	case reflect.Map:
		m := reflect.MakeMap(t)
		m.SetMapIndex(encode(t.Key(), 1), encode(t.Elem(), code))
		v.Set(m)
	case reflect.Array:
		for i := 0; i < t.Len(); i++ {
			v.Index(i).Set(encode(t.Elem(), code))
		}
	case reflect.Func: // a function returning the code
		v.Set(reflect.MakeFunc(t, func([]reflect.Value) []reflect.Value {
			out := make([]reflect.Value, t.NumOut())
			for i := range out {
				out[i] = encode(t.Out(i), code)
			}
			return out
		}))
	case reflect.Chan: // a channel holding the code
		c := reflect.MakeChan(t, 1)
		c.Send(encode(t.Elem(), code))
		v.Set(c)
	default:
		panic("matryerdrv: cannot encode type " + t.String())
	}
	return v
}

// readable returns v in a form whose Interface()/Elem() may be used even if it came from an unexported field.
func readable(v reflect.Value) reflect.Value {
	if v.CanInterface() {
		return v
	}
	if v.CanAddr() {
		return reflect.NewAt(v.Type(), unsafe.Pointer(v.UnsafeAddr())).Elem()
	}
	c := reflect.New(v.Type()).Elem() // last resort for kinds with direct getters
	switch v.Kind() {
	case reflect.Int, reflect.Int8, reflect.Int16, reflect.Int32, reflect.Int64:
		c.SetInt(v.Int())
	case reflect.Uint, reflect.Uint8, reflect.Uint16, reflect.Uint32, reflect.Uint64:
		c.SetUint(v.Uint())
	case reflect.Float32, reflect.Float64:
		c.SetFloat(v.Float())
	case reflect.String:
		c.SetString(v.String())
	default:
		return v
	}
	return c
}

func decode(v reflect.Value) (code int) {
	defer func() {
		if recover() != nil {
			code = undecodable
		}
	}()
	v = readable(v)
	if v.IsZero() {
		return 0
	}
	switch v.Kind() {
	case reflect.Int, reflect.Int8, reflect.Int16, reflect.Int32, reflect.Int64:
		return int(v.Int())
	case reflect.Uint, reflect.Uint8, reflect.Uint16, reflect.Uint32, reflect.Uint64:
		return int(v.Uint())
	case reflect.Float32, reflect.Float64:
		f := v.Float()
		if f != float64(int(f)) {
			return undecodable
		}
		return int(f)
	case reflect.String:
		var c int
		if n, err := fmt.Sscanf(v.String(), "s%d", &c); n != 1 || err != nil || fmt.Sprintf("s%d", c) != v.String() {
			return undecodable
		}
		return c
	case reflect.Interface:
		e := v.Elem()
		if ce, ok := e.Interface().(codeErr); ok {
			return int(ce)
		}
		if cn, ok := e.Interface().(codeNamer); ok {
			return int(cn)
		}
		if e.Kind() == reflect.Int {
			return int(e.Int())
		}
		return undecodable
	case reflect.Struct:
		return decode(v.Field(0))
	case reflect.Ptr:
		return decode(v.Elem())
	case reflect.Slice:
		if v.Len() != 1 {
			return undecodable
		}
		return decode(v.Index(0))
	case reflect.Map:
		if v.Len() != 1 {
			return undecodable
		}
		return decode(v.MapIndex(v.MapKeys()[0]))
	case reflect.Array:
		if v.Len() == 0 {
			return undecodable
		}
		return decode(v.Index(0))
	case reflect.Func:
		if v.Type().NumIn() != 0 || v.Type().NumOut() != 1 {
			return undecodable
		}
		return decode(v.Call(nil)[0])
	case reflect.Chan:
		x, ok := v.TryRecv()
		if !ok {
			return undecodable
		}
		v.Send(x)
		return decode(x)
	}
	return undecodable
}

// decodeArg: an argument is a sequence of codes: one for an ordinary parameter, one per element for the variadic one.
func decodeArg(v reflect.Value, variadic bool) []int {
	if !variadic {
		return []int{decode(v)}
	}
	v = readable(v)
	out := make([]int, 0, 2)
	if v.Kind() != reflect.Slice {
		return []int{undecodable}
	}
	for i := 0; i < v.Len(); i++ {
		out = append(out, decode(v.Index(i)))
	}
	return out
}

// ---------------------------------------------------------------------------------- the user's functions (table)
func fnum(f string) int {
	switch f {
	case "F1":
		return 1
	case "F2":
		return 2
	case "FR":
		return 3
	case "FP":
		return 4
	}
	return 7
}

// results of abstract function f applied to what it SAW (concretisation of MatryerMockContract!Results)
func results(f string, args [][]int, nres int) []int {
	tag := 0
	if len(args) > 0 && len(args[0]) > 0 {
		tag = args[0][0] / 100
	}
	out := make([]int, nres)
	for i := range out {
		out[i] = 1000*fnum(f) + 10*tag + i + 1
	}
	return out
}

type fpPanic struct{}

// ---------------------------------------------------------------------------------- one replay
type replay struct {
	mock   reflect.Value // pointer to the generated struct
	c      *Case
	fwd    []FwdEntry
	inner  []int
	seen   [][][][]int
	depth  int
	broken string // non-empty: the mock lacks something the driver needs (reported in the event)
	raw      map[string]reflect.Value // what the MCalls() accessors returned in the last observation
	retained []kept                   // MCalls() results kept (the slices themselves) to be re-inspected later
	prevLogs map[string][][][]int
	ent    entry
	mcache map[string]reflect.Value
	by     *replay // bystander: a second instance of the same mock type, called once per method up front
}

// entry: how to reach one generated mock.  names = the concrete names of the abstract methods A and B; shim (only for
// in-package mocks, whose methods may be unexported) = method expressions generated next to the mock.
type entry struct {
	mk    func() interface{}
	names [3]string // concrete names of A, B and the third method X
	shim  map[string]interface{}
}

// concrete name of abstract method m ("A"/"B")
func (r *replay) mname(m string) string {
	switch m {
	case "B":
		return r.ent.names[1]
	case "X":
		return r.ent.names[2]
	}
	return r.ent.names[0]
}

// fname: the ACTUAL name of the struct field holding the func for abstract method m
func (r *replay) fname(m string) string { return r.mname(m) + "Func" }

// funcField returns the (settable) MFunc field of abstract method m, exported or not
func (r *replay) funcField(m string) reflect.Value {
	f := r.mock.Elem().FieldByName(r.fname(m))
	if f.IsValid() && !f.CanSet() && f.CanAddr() {
		f = reflect.NewAt(f.Type(), unsafe.Pointer(f.UnsafeAddr())).Elem()
	}
	return f
}

// method resolves a role -- "A", "B", "ACalls", "BCalls", "ResetACalls", "ResetBCalls", "ResetCalls" -- to a callable
// bound to this mock instance.
func (r *replay) method(role string) (reflect.Value, bool) {
	if v, ok := r.mcache[role]; ok {
		return v, v.IsValid()
	}
	if r.mcache == nil {
		r.mcache = map[string]reflect.Value{}
	}
	var v reflect.Value
	if r.ent.shim != nil {
		if f, ok := r.ent.shim[role]; ok {
			fn := reflect.ValueOf(f)
			ft := fn.Type()
			ins := make([]reflect.Type, 0, ft.NumIn())
			for i := 1; i < ft.NumIn(); i++ {
				ins = append(ins, ft.In(i))
			}
			outs := make([]reflect.Type, 0, ft.NumOut())
			for i := 0; i < ft.NumOut(); i++ {
				outs = append(outs, ft.Out(i))
			}
			recv := r.mock
			v = reflect.MakeFunc(reflect.FuncOf(ins, outs, ft.IsVariadic()), func(in []reflect.Value) []reflect.Value {
				args := append([]reflect.Value{recv}, in...)
				if ft.IsVariadic() {
					return fn.CallSlice(args)
				}
				return fn.Call(args)
			})
		}
	} else {
		name := role
		switch {
		case role == "A" || role == "B" || role == "X":
			name = r.mname(role)
		case role == "ACalls" || role == "BCalls" || role == "XCalls":
			name = r.mname(role[:1]) + "Calls"
		case role == "ResetACalls" || role == "ResetBCalls":
			name = "Reset" + r.mname(role[5:6]) + "Calls"
		}
		v = r.mock.MethodByName(name)
	}
	r.mcache[role] = v
	return v, v.IsValid()
}

func (r *replay) makeFunc(m, f string) reflect.Value {
	fld := r.funcField(m)
	ft := fld.Type()
	nres := ft.NumOut()
	return reflect.MakeFunc(ft, func(in []reflect.Value) []reflect.Value {
		args := make([][]int, len(in))
		for i, v := range in {
			args[i] = decodeArg(v, ft.IsVariadic() && i == len(in)-1)
		}
		r.fwd = append(r.fwd, FwdEntry{M: m, F: f, Args: args})
		if f == "F1" { // the table function also writes through every reference-like argument it is given
			for _, v := range in {
				mutate(v)
			}
		}
		switch f {
		case "FP":
			panic(fpPanic{})
		case "FR":
			if cm, ok := r.method("BCalls"); ok { // the other method's records must be readable from inside the function
				r.seen = append(r.seen, r.project("B", cm.Call(nil)[0]))
			} else {
				r.seen = append(r.seen, [][][]int{{{undecodable}}})
			}
			if r.depth == 0 {
				r.depth++
				rep, _ := r.call(m, r.c.Inner)
				r.depth--
				r.inner = rep.Res
			}
		}
		res := results(f, args, nres)
		out := make([]reflect.Value, nres)
		for i := range out {
			out[i] = encode(ft.Out(i), res[i])
		}
		return out
	})
}

func (r *replay) setFunc(m, f string) {
	fld := r.funcField(m)
	if !fld.IsValid() || fld.Kind() != reflect.Func {
		r.broken = "no field " + r.fname(m)
		return
	}
	if f == "nil" {
		fld.Set(reflect.Zero(fld.Type()))
		return
	}
	fld.Set(r.makeFunc(m, f))
}

// mutate: what the table function F1 does to a reference-like argument it was given (MutDelta = 5 on the first code)
func mutate(v reflect.Value) {
	defer func() { recover() }()
	switch v.Kind() {
	case reflect.Slice:
		if v.Len() > 0 {
			e := v.Index(0)
			e.Set(encode(e.Type(), decode(e)+5))
		}
	case reflect.Map:
		for _, k := range v.MapKeys() {
			v.SetMapIndex(k, encode(v.Type().Elem(), decode(v.MapIndex(k))+5))
			break
		}
	case reflect.Ptr:
		if !v.IsNil() {
			v.Elem().Set(encode(v.Type().Elem(), decode(v.Elem())+5))
		}
	}
}

func isRefKind(t reflect.Type) bool {
	switch t.Kind() {
	case reflect.Slice, reflect.Map, reflect.Ptr, reflect.Chan, reflect.Func:
		return true
	}
	return false
}

// restore puts the caller's own argument object back to what the caller had put there
func restore(v reflect.Value, codes []int) {
	defer func() { recover() }()
	switch v.Kind() {
	case reflect.Slice:
		for j := 0; j < v.Len() && j < len(codes); j++ {
			v.Index(j).Set(encode(v.Type().Elem(), codes[j]))
		}
	case reflect.Map:
		for _, k := range v.MapKeys() {
			v.SetMapIndex(k, encode(v.Type().Elem(), codes[0]))
			break
		}
	case reflect.Ptr:
		if !v.IsNil() {
			v.Elem().Set(encode(v.Type().Elem(), codes[0]))
		}
	}
}

// call performs m(args) the way a caller owning its argument objects does (the variadic part is a slice the caller
// holds and spreads).  after = the caller's argument objects as they look when the call is over; they are then put
// back, so that records are compared with what was passed.
func (r *replay) call(m string, args [][]int) (rep Reply, after [][]int) {
	rep = Reply{Kind: "ret", Res: []int{}, Inner: []int{}}
	after = [][]int{}
	meth, ok := r.method(m)
	if !ok {
		rep.Kind = "nomethod"
		return
	}
	mt := meth.Type()
	in := make([]reflect.Value, 0, 4)
	for i := 0; i < mt.NumIn(); i++ {
		if i >= len(args) {
			rep.Kind = "arity"
			return
		}
		if mt.IsVariadic() && i == mt.NumIn()-1 {
			vs := reflect.Zero(mt.In(i)) // no elements: nil slice, as f() passes
			if len(args[i]) > 0 {
				vs = reflect.MakeSlice(mt.In(i), len(args[i]), len(args[i]))
				for j, c := range args[i] {
					vs.Index(j).Set(encode(mt.In(i).Elem(), c))
				}
			}
			in = append(in, vs)
		} else {
			in = append(in, encode(mt.In(i), args[i][0]))
		}
	}
	if len(args) != mt.NumIn() {
		rep.Kind = "arity"
		return
	}
	defer func() {
		if p := recover(); p != nil {
			rep.Kind = "panic"
			rep.Res = []int{}
			if _, isFP := p.(fpPanic); !isFP {
				// "a message naming MFunc": the actual name of the field that holds this method's function
				rep.Names = strings.Contains(fmt.Sprint(p), r.fname(m))
			}
		}
		for i, v := range in {
			variadic := mt.IsVariadic() && i == len(in)-1
			after = append(after, decodeArg(v, variadic))
			if variadic || isRefKind(v.Type()) {
				restore(v, args[i])
			}
		}
	}()
	var out []reflect.Value
	if mt.IsVariadic() {
		out = meth.CallSlice(in)
	} else {
		out = meth.Call(in)
	}
	for _, o := range out {
		rep.Res = append(rep.Res, decode(o))
	}
	return
}

// project decodes a value returned by MCalls() (a slice of structs) by position
func (r *replay) project(m string, out reflect.Value) [][][]int {
	recs := [][][]int{}
	meth, _ := r.method(m)
	mt := meth.Type()
	if out.Kind() != reflect.Slice {
		return append(recs, [][]int{{undecodable}})
	}
	for i := 0; i < out.Len(); i++ {
		el := out.Index(i)
		rec := [][]int{}
		if el.Kind() == reflect.Struct {
			for j := 0; j < el.NumField(); j++ {
				variadic := mt.IsVariadic() && j == mt.NumIn()-1 && el.NumField() == mt.NumIn()
				rec = append(rec, decodeArg(el.Field(j), variadic))
			}
		} else {
			rec = append(rec, []int{undecodable})
		}
		recs = append(recs, rec)
	}
	return recs
}

func (r *replay) observe(e *Event) {
	e.Logs = map[string][][][]int{}
	e.Fnil = map[string]bool{}
	r.raw = map[string]reflect.Value{}
	for _, m := range methods {
		recs := [][][]int{}
		if cm, ok := r.method(m + "Calls"); ok && cm.Type().NumIn() == 0 && cm.Type().NumOut() == 1 {
			out := cm.Call(nil)[0]
			r.raw[m] = out // the returned slice itself, not a copy
			recs = r.project(m, out)
		} else {
			recs = append(recs, [][]int{{undecodable}})
			r.broken = "no accessor " + m + "Calls()"
		}
		e.Logs[m] = recs
		fld := r.funcField(m)
		e.Fnil[m] = !fld.IsValid() || fld.Kind() != reflect.Func || fld.IsNil()
	}
}

// xlog: the records of the third method X, which no operation of the history calls
func (r *replay) xlog() [][][]int {
	if cm, ok := r.method("XCalls"); ok && cm.Type().NumIn() == 0 && cm.Type().NumOut() == 1 {
		return r.project("X", cm.Call(nil)[0])
	}
	return [][][]int{{{undecodable}}}
}

// snapshots: re-inspect every retained MCalls() result after the operation, then retain the results of this
// operation's reads for every method whose log the operation changed to something non-empty
// (the same rule as MatryerMockContract!SnapsAfter, applied to the observed logs).
func (r *replay) snapshots(e *Event) {
	e.Snaps = make([]Snap, 0, len(r.retained))
	for _, k := range r.retained {
		e.Snaps = append(e.Snaps, Snap{M: k.m, Recs: r.project(k.m, k.v)})
	}
	for _, m := range methods {
		cur := e.Logs[m]
		if len(cur) > 0 && !reflect.DeepEqual(cur, r.prevLogs[m]) {
			if v, ok := r.raw[m]; ok {
				r.retained = append(r.retained, kept{m, v})
			}
		}
	}
	r.prevLogs = e.Logs
}

func norm(e *Event) {
	if e.Args == nil {
		e.Args = [][]int{}
	}
	if e.Fwd == nil {
		e.Fwd = []FwdEntry{}
	}
	if e.Reply.Res == nil {
		e.Reply.Res = []int{}
	}
	if e.Reply.Inner == nil {
		e.Reply.Inner = []int{}
	}
	for i := range e.Args {
		if e.Args[i] == nil {
			e.Args[i] = []int{}
		}
	}
	for i := range e.Fwd {
		if e.Fwd[i].Args == nil {
			e.Fwd[i].Args = [][]int{}
		}
		for j := range e.Fwd[i].Args {
			if e.Fwd[i].Args[j] == nil {
				e.Fwd[i].Args[j] = []int{}
			}
		}
	}
	if e.Snaps == nil {
		e.Snaps = []Snap{}
	}
	if e.After == nil {
		e.After = [][]int{}
	}
	if e.Xlog == nil {
		e.Xlog = [][][]int{}
	}
	if e.Reply.Seen == nil {
		e.Reply.Seen = [][][][]int{}
	}
	for a := range e.Reply.Seen {
		if e.Reply.Seen[a] == nil {
			e.Reply.Seen[a] = [][][]int{}
		}
	}
	for i := range e.After {
		if e.After[i] == nil {
			e.After[i] = []int{}
		}
	}
	for si := range e.Snaps {
		if e.Snaps[si].Recs == nil {
			e.Snaps[si].Recs = [][][]int{}
		}
		for i := range e.Snaps[si].Recs {
			for j := range e.Snaps[si].Recs[i] {
				if e.Snaps[si].Recs[i][j] == nil {
					e.Snaps[si].Recs[i][j] = []int{}
				}
			}
		}
	}
	for k, l := range e.By {
		if l == nil {
			e.By[k] = [][][]int{}
		}
		for i := range l {
			for j := range l[i] {
				if l[i][j] == nil {
					l[i][j] = []int{}
				}
			}
		}
	}
	for k, l := range e.Logs {
		if l == nil {
			e.Logs[k] = [][][]int{}
		}
		for i := range l {
			if l[i] == nil {
				l[i] = [][]int{}
			}
			for j := range l[i] {
				if l[i][j] == nil {
					l[i][j] = []int{}
				}
			}
		}
	}
}

// step performs the op of the expected event x and returns what was observed
func (r *replay) step(x *Event) Event {
	e := Event{Op: x.Op, M: x.M, F: x.F, Args: x.Args, Reply: Reply{Kind: "ret", Res: []int{}, Inner: []int{}}}
	r.fwd = nil
	r.inner = nil
	r.seen = nil
	switch x.Op {
	case "setfunc":
		r.setFunc(x.M, x.F)
	case "call":
		e.Reply, e.After = r.call(x.M, x.Args)
		if r.inner != nil {
			e.Reply.Inner = r.inner
		}
		if e.Reply.Kind != "panic" || r.seen != nil {
			e.Reply.Seen = r.seen
		}
	case "resetm", "resetall":
		name := "ResetCalls"
		if x.Op == "resetm" {
			name = "Reset" + x.M + "Calls"
		}
		if meth, ok := r.method(name); ok && meth.Type().NumIn() == 0 {
			func() {
				defer func() {
					if recover() != nil {
						e.Reply.Kind = "panic"
					}
				}()
				meth.Call(nil)
			}()
		} else {
			e.Reply.Kind = "nomethod"
		}
	}
	e.Fwd = r.fwd
	r.observe(&e)
	r.snapshots(&e)
	e.Xlog = r.xlog()
	if r.by != nil {
		var be Event
		r.by.observe(&be)
		e.By = be.Logs
	}
	if r.broken != "" {
		e.Reply.Kind = "broken:" + r.broken
	}
	norm(&e)
	return e
}

type traceOut struct {
	Kind     string      `json:"kind"`
	Replay   int64       `json:"replay"`
	Key      string      `json:"key"`
	Case     int         `json:"case"`
	Mismatch interface{} `json:"mismatch"`
	Events   []Event     `json:"events"`
}

func main() {
	if len(os.Args) != 4 {
		fmt.Fprintln(os.Stderr, "usage: matryerdrv plan.json cases.ndjson out.ndjson")
		os.Exit(2)
	}
	var plan Plan
	b, err := os.ReadFile(os.Args[1])
	if err == nil {
		err = json.Unmarshal(b, &plan)
	}
	if err != nil {
		fmt.Fprintln(os.Stderr, "plan:", err)
		os.Exit(2)
	}
	if plan.Workers <= 0 {
		plan.Workers = 8
	}
	if plan.TraceEvery <= 0 {
		plan.TraceEvery = 1
	}
	if plan.HangSeconds <= 0 {
		plan.HangSeconds = 60
	}
	cf, err := os.Open(os.Args[2])
	if err != nil {
		fmt.Fprintln(os.Stderr, err)
		os.Exit(2)
	}
	of, err := os.Create(os.Args[3])
	if err != nil {
		fmt.Fprintln(os.Stderr, err)
		os.Exit(2)
	}
	w := bufio.NewWriterSize(of, 1<<20)
	var wmu sync.Mutex
	emit := func(v interface{}) {
		bb, _ := json.Marshal(v)
		wmu.Lock()
		w.Write(bb)
		w.WriteByte('\n')
		wmu.Unlock()
	}

	sparse := map[string]bool{}
	for _, p := range plan.SparsePkgs {
		sparse[p] = true
	}
	light := map[string]bool{}
	for _, p := range plan.LightPkgs {
		light[p] = true
	}
	type job struct {
		idx int
		raw []byte
	}
	jobs := make(chan job, 256)
	var replays, matched, mismatched, mismatchDistinct, mismatchKept, steps, progress int64
	var seenMismatch sync.Map // (case, observed behaviour) already kept: the same deviation on another class of the same shape
	var missing sync.Map
	perKey := map[string]*[2]int64{}
	var pkmu sync.Mutex
	current := make([]atomic.Value, plan.Workers) // what each worker is doing (for the hang report)
	var wg sync.WaitGroup
	for wi := 0; wi < plan.Workers; wi++ {
		wg.Add(1)
		go func(wi int) {
			defer wg.Done()
			for j := range jobs {
				c := new(Case)
				if err := json.Unmarshal(j.raw, c); err != nil {
					fmt.Fprintln(os.Stderr, "case", j.idx, err)
					os.Exit(2)
				}
				sa := c.Sig["A"]
				shapeKey := fmt.Sprintf("%d/%v/%d", sa.Ar, sa.Var, sa.Nres)
				optKey := fmt.Sprintf("%v/%v", c.Opt.Stub, c.Opt.Resets)
				for _, cls := range plan.Classes[shapeKey] {
					for _, pkg := range plan.Pkgs[optKey] {
						if light[pkg] && len(c.Ops) > plan.LightMaxOps {
							continue
						}
						key := pkg + "/" + cls
						ent, ok := registry[key]
						mk := ent.mk
						if !ok {
							if !sparse[pkg] {
								missing.Store(key, true)
							}
							continue
						}
						id := atomic.AddInt64(&replays, 1)
						types := plan.ClassTypes[cls]
						r := &replay{mock: reflect.ValueOf(mk()), c: c, ent: ent, prevLogs: map[string][][][]int{"A": {}, "B": {}}}
						r.by = &replay{mock: reflect.ValueOf(mk()), c: c, ent: ent}
						for _, m := range methods {
							r.by.setFunc(m, "F2")
							r.by.call(m, c.ByArgs[m])
						}
						r.setFunc("X", "F2")
						r.call("X", c.XArgs)
						evs := make([]Event, 0, len(c.Ops)+1)
						o := c.Opt
						var be Event
						r.by.observe(&be)
						evs = append(evs, Event{Op: "reset", Case: int(id), Sig: c.Sig, Opt: &o, Init: c.Init,
							Logs: map[string][][][]int{"A": {}, "B": {}}, Fnil: map[string]bool{"A": true, "B": true},
							By: be.Logs, Types: types, Xlog: r.xlog()})
						norm(&evs[0])
						// abstraction table check: the positions the TLA+ table calls reference-like are exactly those
						// whose real parameter type is a slice, map, pointer, chan or func
						if am, ok := r.method("A"); ok {
							at := am.Type()
							got := []int{}
							for i := 0; i < at.NumIn(); i++ {
								if !(at.IsVariadic() && i == at.NumIn()-1) && isRefKind(at.In(i)) {
									got = append(got, i+1)
								}
							}
							want := append([]int{}, plan.ClassRefPos[cls]...)
							sort.Ints(want)
							if !reflect.DeepEqual(got, want) {
								r.broken = fmt.Sprintf("reference-position table disagrees with the real types: table %v, types %v", want, got)
							}
						}
						for _, m := range methods {
							if f := c.Init[m]; f != "nil" {
								r.setFunc(m, f)
							}
						}
						var mm interface{}
						for k := range c.Ops {
							x := &c.Ops[k]
							norm(x)
							current[wi].Store([4]interface{}{key, j.idx, k, x.Op + " " + x.M})
							e := r.step(x)
							atomic.AddInt64(&progress, 1)
							e.Case = int(id)
							if mm == nil {
								xc := *x
								xc.Case = int(id)
								xc.After = x.AfterBy[types] // the model's expectation for this class's type set
								if xc.After == nil {
									xc.After = [][]int{}
								}
								xc.AfterBy = nil
								if !reflect.DeepEqual(xc, e) {
									mm = map[string]interface{}{"step": k, "expected": xc, "observed": e}
								}
							}
							evs = append(evs, e)
						}
						atomic.AddInt64(&steps, int64(len(c.Ops)))
						pkmu.Lock()
						pk := perKey[key]
						if pk == nil {
							pk = &[2]int64{}
							perKey[key] = pk
						}
						if mm == nil {
							pk[0]++
						} else {
							pk[1]++
						}
						pkmu.Unlock()
						if mm != nil {
							atomic.AddInt64(&mismatched, 1)
							cp := make([]Event, len(evs))
							copy(cp, evs)
							for i := range cp {
								cp[i].Case = 0
							}
							sigb, _ := json.Marshal(cp[1:])
							sig := fmt.Sprintf("%d|%s", j.idx, sigb)
							if _, dup := seenMismatch.LoadOrStore(sig, true); !dup {
								n := atomic.AddInt64(&mismatchDistinct, 1)
								if int(n) <= plan.MaxMismatch {
									atomic.AddInt64(&mismatchKept, 1)
									emit(traceOut{"trace", id, key, j.idx, mm, evs})
								}
							}
						} else {
							atomic.AddInt64(&matched, 1)
							if int(id)%plan.TraceEvery == plan.TraceOffset%plan.TraceEvery {
								emit(traceOut{"trace", id, key, j.idx, nil, evs})
							}
						}
					}
				}
			}
		}(wi)
	}
	// watchdog: a replay step that never returns (e.g. a lock that is not released) is real behaviour
	done := make(chan struct{})
	go func() {
		last := int64(-1)
		idle := 0
		for {
			select {
			case <-done:
				return
			case <-time.After(time.Second):
			}
			p := atomic.LoadInt64(&progress)
			if p == last {
				idle++
			} else {
				idle = 0
				last = p
			}
			if idle >= plan.HangSeconds {
				cur := []string{}
				for i := range current {
					if s, ok := current[i].Load().([4]interface{}); ok {
						cur = append(cur, fmt.Sprint(s))
					}
				}
				sort.Strings(cur)
				emit(map[string]interface{}{"kind": "hang", "current": cur})
				wmu.Lock()
				w.Flush()
				os.Exit(3)
			}
		}
	}()
	sc := bufio.NewScanner(cf)
	sc.Buffer(make([]byte, 1<<20), 1<<26)
	idx := 0
	for sc.Scan() {
		ln := sc.Bytes()
		if len(ln) == 0 {
			continue
		}
		jobs <- job{idx, append([]byte(nil), ln...)}
		idx++
	}
	close(jobs)
	wg.Wait()
	close(done)
	miss := []string{}
	missing.Range(func(k, _ interface{}) bool { miss = append(miss, k.(string)); return true })
	sort.Strings(miss)
	pk := map[string][2]int64{}
	for k, v := range perKey {
		pk[k] = *v
	}
	emit(map[string]interface{}{"kind": "summary", "cases": idx, "replays": replays, "matched": matched,
		"mismatched": mismatched, "mismatch_distinct": mismatchDistinct, "mismatch_kept": mismatchKept, "steps": steps, "missing": miss, "per_key": pk})
	w.Flush()
	of.Close()
}
