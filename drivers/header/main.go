// Command header is the oracle/projection driver of C17 (spec/Header*.tla).  Standard library only.
//
// usage: header <in.json> <out.json>
//
//	in:  {"tags": {"a": "vfa", "b": "vfb"},
//	      "files": [{"id": "...", "path": "/abs/file.go"}],
//	      "exprs": [{"id": "...", "text": "(vfa && vfb) || !vfa"}]}
//	out: {"files": {"<id>": {"generated": bool,        // go/ast.IsGenerated on the parsed file
//	                         "pkg_offset": int,        // byte offset of the package clause (go/parser)
//	                         "lines": [{"c": class, "tt": table|[]}],   // header up to and including the package clause
//	                         "error": ""}},
//	      "exprs": {"<id>": {"tt": {"none": b, "a": b, "b": b, "ab": b}, "error": ""}}}
//
// tt is the truth table of a build expression computed by go/build/constraint (the harness compares it
// with the table computed by the TLA+ contract).  Line classes are those of spec/HeaderContract.tla.
package main

import (
	"encoding/json"
	"fmt"
	"go/ast"
	"go/build/constraint"
	"go/parser"
	"go/token"
	"os"
	"regexp"
	"strings"
)

type line struct {
	C  string `json:"c"`
	TT any    `json:"tt"`
}

type fileOut struct {
	Generated bool   `json:"generated"`
	PkgOffset int    `json:"pkg_offset"`
	Lines     []line `json:"lines"`
	Error     string `json:"error"`
}

type exprOut struct {
	TT    map[string]bool `json:"tt"`
	Error string          `json:"error"`
}

var markerRe = regexp.MustCompile(`^// Code generated .* DO NOT EDIT\.$`)

var assignments = map[string][]string{"none": {}, "a": {"a"}, "b": {"b"}, "ab": {"a", "b"}}

func table(x constraint.Expr, tags map[string]string) map[string]bool {
	tt := map[string]bool{}
	for name, set := range assignments {
		on := map[string]bool{}
		for _, t := range set {
			on[tags[t]] = true
		}
		tt[name] = x.Eval(func(tag string) bool { return on[tag] })
	}
	return tt
}

func plain(c string) line { return line{C: c, TT: []any{}} }

func classify(src string, tags map[string]string) []line {
	out := []line{}
	inBlock := false
	for _, raw := range strings.Split(src, "\n") {
		raw = strings.TrimSuffix(raw, "\r")
		t := strings.TrimSpace(raw)
		if inBlock {
			if i := strings.Index(t, "*/"); i >= 0 {
				inBlock = false
				if strings.TrimSpace(t[i+2:]) != "" {
					out = append(out, plain("other"))
				} else {
					out = append(out, plain("bclose"))
				}
			} else {
				out = append(out, plain("bmid"))
			}
			continue
		}
		switch {
		case t == "":
			out = append(out, plain("blank"))
		case strings.HasPrefix(t, "//"):
			switch {
			case markerRe.MatchString(t):
				out = append(out, plain("marker"))
			case constraint.IsGoBuild(t):
				x, err := constraint.Parse(t)
				if err != nil {
					out = append(out, plain("badbuild"))
				} else {
					out = append(out, line{C: "gobuild", TT: table(x, tags)})
				}
			case constraint.IsPlusBuild(t):
				out = append(out, plain("plusbuild"))
			default:
				out = append(out, plain("lc"))
			}
		case strings.HasPrefix(t, "/*"):
			if i := strings.Index(t[2:], "*/"); i >= 0 {
				if strings.TrimSpace(t[2+i+2:]) != "" {
					out = append(out, plain("other"))
				} else {
					out = append(out, plain("bone"))
				}
			} else {
				inBlock = true
				out = append(out, plain("bopen"))
			}
		case t == "package" || strings.HasPrefix(t, "package ") || strings.HasPrefix(t, "package\t"):
			out = append(out, plain("package"))
			return out
		default:
			out = append(out, plain("other"))
		}
	}
	return out
}

func doFile(p string, tags map[string]string) fileOut {
	out := fileOut{Lines: []line{}, PkgOffset: -1}
	b, err := os.ReadFile(p)
	if err != nil {
		out.Error = "read: " + err.Error()
		return out
	}
	out.Lines = classify(string(b), tags)
	fset := token.NewFileSet()
	f, err := parser.ParseFile(fset, p, b, parser.ParseComments|parser.PackageClauseOnly)
	if err != nil {
		out.Error = "parse: " + err.Error()
		return out
	}
	out.Generated = ast.IsGenerated(f)
	out.PkgOffset = fset.Position(f.Package).Offset
	return out
}

func main() {
	if len(os.Args) != 3 {
		fmt.Fprintln(os.Stderr, "usage: header <in.json> <out.json>")
		os.Exit(2)
	}
	b, err := os.ReadFile(os.Args[1])
	if err != nil {
		fmt.Fprintln(os.Stderr, err)
		os.Exit(2)
	}
	var in struct {
		Tags  map[string]string `json:"tags"`
		Files []struct {
			ID   string `json:"id"`
			Path string `json:"path"`
		} `json:"files"`
		Exprs []struct {
			ID   string `json:"id"`
			Text string `json:"text"`
		} `json:"exprs"`
	}
	if err := json.Unmarshal(b, &in); err != nil {
		fmt.Fprintln(os.Stderr, err)
		os.Exit(2)
	}
	out := struct {
		Files map[string]fileOut `json:"files"`
		Exprs map[string]exprOut `json:"exprs"`
	}{Files: map[string]fileOut{}, Exprs: map[string]exprOut{}}
	for _, f := range in.Files {
		out.Files[f.ID] = doFile(f.Path, in.Tags)
	}
	for _, e := range in.Exprs {
		x, err := constraint.Parse("//go:build " + e.Text)
		if err != nil {
			out.Exprs[e.ID] = exprOut{Error: err.Error()}
			continue
		}
		out.Exprs[e.ID] = exprOut{TT: table(x, in.Tags)}
	}
	ob, err := json.Marshal(out)
	if err != nil {
		fmt.Fprintln(os.Stderr, err)
		os.Exit(2)
	}
	if err := os.WriteFile(os.Args[2], ob, 0o644); err != nil {
		fmt.Fprintln(os.Stderr, err)
		os.Exit(2)
	}
}
