// Command alloc replays operation histories on the real template.Registry /
// template.MethodScope (public API, no hooks) and logs every reply as ndjson.
//
// usage: alloc <cases.json> <trace.ndjson>
// cases: [{"inpkg":bool,"dst":"x/io","ops":[{"op":"add","name":..}, ...]}, ...]
package main

import (
	"bufio"
	"context"
	"encoding/json"
	"fmt"
	"go/token"
	"go/types"
	"os"
	"sort"

	"github.com/vektra/mockery/v3/template"
	"golang.org/x/tools/go/packages"
)

type op struct {
	Op     string `json:"op"`
	Name   string `json:"name,omitempty"`
	Prefix string `json:"prefix,omitempty"`
	Path   string `json:"path,omitempty"`
	Pname  string `json:"pname,omitempty"` // addvar: package name of the variable's type ("" with path "" = basic type)
}

type tcase struct {
	InPkg   bool   `json:"inpkg"`
	Dst     string `json:"dst"`
	SrcPath string `json:"srcpath,omitempty"` // source package of the registry ("" = none)
	SrcName string `json:"srcname,omitempty"`
	Ops     []op   `json:"ops"`
}

func main() {
	b, err := os.ReadFile(os.Args[1])
	if err != nil {
		panic(err)
	}
	var in struct {
		Universe []string `json:"universe"`
		Cases    []tcase  `json:"cases"`
	}
	if err := json.Unmarshal(b, &in); err != nil {
		panic(err)
	}
	f, err := os.Create(os.Args[2])
	if err != nil {
		panic(err)
	}
	w := bufio.NewWriter(f)
	enc := json.NewEncoder(w)
	emit := func(m map[string]any) {
		if err := enc.Encode(m); err != nil {
			panic(err)
		}
	}
	// probe reports which names of the universe (plus the names this history itself has seen: extra) the
	// scope says exist
	inUniverse := map[string]bool{}
	uniq := []string{}
	for _, n := range in.Universe {
		if !inUniverse[n] {
			inUniverse[n] = true
			uniq = append(uniq, n)
		}
	}
	probe := func(s *template.MethodScope, extra map[string]bool) []string {
		vis := []string{}
		for _, n := range uniq {
			if s.NameExists(n) {
				vis = append(vis, n)
			}
		}
		for n := range extra {
			if !inUniverse[n] && s.NameExists(n) {
				vis = append(vis, n)
			}
		}
		sort.Strings(vis)
		return vis
	}
	// replay runs one history on fresh objects and returns the logged events (a recovered panic becomes
	// a "panic" event).  With erase=true the suggest operations are skipped.
	replay := func(ci int, c tcase, erase bool) (evs []map[string]any) {
		emit := func(m map[string]any) { evs = append(evs, m) }
		defer func() {
			if r := recover(); r != nil {
				emit(map[string]any{"op": "panic", "case": ci, "msg": fmt.Sprint(r)})
			}
		}()
		var src *packages.Package
		if c.SrcPath != "" {
			src = &packages.Package{PkgPath: c.SrcPath, Name: c.SrcName, Types: types.NewPackage(c.SrcPath, c.SrcName)}
		}
		reg, err := template.NewRegistry(src, c.Dst, c.InPkg)
		if err != nil {
			panic(err)
		}
		scope := reg.MethodScope()
		extra := map[string]bool{}
		var vars []*template.Var
		typkgs := map[string]*types.Package{}
		emit(map[string]any{"op": "reset", "case": ci, "inpkg": c.InPkg, "dst": c.Dst, "visible": probe(scope, extra)})
		for _, o := range c.Ops {
			switch o.Op {
			case "add":
				scope.AddName(o.Name)
				extra[o.Name] = true
				emit(map[string]any{"op": "add", "case": ci, "name": o.Name})
			case "exists":
				emit(map[string]any{"op": "exists", "case": ci, "name": o.Name, "res": scope.NameExists(o.Name)})
			case "suggest":
				if erase {
					continue
				}
				emit(map[string]any{"op": "suggest", "case": ci, "prefix": o.Prefix, "res": scope.SuggestName(o.Prefix)})
			case "alloc":
				r := scope.AllocateName(o.Prefix)
				extra[r] = true
				emit(map[string]any{"op": "alloc", "case": ci, "prefix": o.Prefix, "res": r})
			case "import":
				p := reg.AddImport(o.Name, o.Path)
				emit(map[string]any{"op": "import", "case": ci, "name": o.Name, "path": o.Path, "rpath": p.Path(), "nil": p == nil, "res": p.Qualifier()})
			case "addvar":
				// the real MethodScope.AddVar on a go/types variable: a parameter named o.Name of the named type T
				// declared in package (o.Pname, o.Path), or of type string when no package is given
				var typ types.Type = types.Typ[types.String]
				if o.Path != "" {
					tp := typkgs[o.Path]
					if tp == nil {
						tp = types.NewPackage(o.Path, o.Pname)
						typkgs[o.Path] = tp
					}
					typ = types.NewNamed(types.NewTypeName(token.NoPos, tp, "T", nil), types.NewStruct(nil, nil), nil)
				}
				v, err := scope.AddVar(context.Background(), types.NewParam(token.NoPos, nil, o.Name, typ), "", nil)
				if err != nil {
					panic(err)
				}
				vars = append(vars, v)
				ev := map[string]any{"op": "addvar", "case": ci, "name": o.Name, "pname": o.Pname, "path": o.Path,
					"rpath": "", "nil": false, "q": "", "res": v.Name, "tstr": v.TypeString(),
					"tident": token.IsIdentifier(v.TypeString())} // the type's name is itself an identifier (in-package or predeclared type)
				if o.Path != "" {
					// what the file registry reports for the package AddVar imported (AddImport is stable by contract)
					p := reg.AddImport(o.Pname, o.Path)
					ev["rpath"], ev["nil"], ev["q"] = p.Path(), p == nil, p.Qualifier()
					extra[p.Qualifier()] = true
				}
				extra[v.Name] = true
				extra[v.TypeString()] = true
				ev["visible"] = probe(scope, extra)
				emit(ev)
			case "resolve":
				scope.ResolveVariableNameCollisions(context.Background())
				names := []string{}
				for _, v := range vars {
					names = append(names, v.Name)
					extra[v.Name] = true
				}
				emit(map[string]any{"op": "resolve", "case": ci, "names": names, "visible": probe(scope, extra)})
			case "imports":
				paths := []string{}
				quals := []string{}
				for _, p := range reg.Imports() {
					paths = append(paths, p.Path())
					quals = append(quals, p.Qualifier())
				}
				emit(map[string]any{"op": "imports", "case": ci, "paths": paths, "quals": quals})
			case "qual":
				q, err := reg.Imports().PkgQualifier(o.Path)
				emit(map[string]any{"op": "qual", "case": ci, "path": o.Path, "found": err == nil, "res": q})
			case "newscope":
				scope = reg.MethodScope()
				vars = nil
				emit(map[string]any{"op": "newscope", "case": ci, "visible": probe(scope, extra)})
			default:
				panic("unknown op " + o.Op)
			}
		}
		return evs
	}
	for ci, c := range in.Cases {
		evs := replay(ci, c, false)
		hasSuggest := false
		for _, o := range c.Ops {
			if o.Op == "suggest" {
				hasSuggest = true
			}
		}
		if hasSuggest {
			// second replay with the suggest operations erased: the replies of all other operations are
			// logged next to the original ones (<field>_erased); the trace specification compares them.
			er := replay(ci, c, true)
			j := 0
			for _, e := range evs {
				if e["op"] == "suggest" || e["op"] == "panic" {
					continue
				}
				if j >= len(er) || er[j]["op"] != e["op"] {
					break
				}
				for _, k := range []string{"res", "quals", "visible", "found", "nil", "names", "rpath"} {
					if v, ok := er[j][k]; ok {
						e[k+"_erased"] = v
					}
				}
				j++
			}
		}
		for _, e := range evs {
			emit(e)
		}
	}
	if err := w.Flush(); err != nil {
		panic(err)
	}
	f.Close()
}
