// Command alloc replays operation histories on the real template.Registry /
// template.MethodScope (public API, no hooks) and logs every reply as ndjson.
//
// usage: alloc <cases.json> <trace.ndjson>
// cases: [{"inpkg":bool,"dst":"x/io","ops":[{"op":"add","name":..}, ...]}, ...]
package main

import (
	"bufio"
	"encoding/json"
	"fmt"
	"go/types"
	"os"
	"sort"

	"github.com/vektra/mockery/v3/template"
	"golang.org/x/tools/go/packages"
)

type op struct {
	Op     string `json:"op"`
	Name   string `json:"name,omitempty"`
	Prefix string `json:"prefix,omitempty"`
	Path   string `json:"path,omitempty"`
}

type tcase struct {
	InPkg   bool   `json:"inpkg"`
	Dst     string `json:"dst"`
	SrcPath string `json:"srcpath,omitempty"` // source package of the registry ("" = none)
	SrcName string `json:"srcname,omitempty"`
	Ops     []op   `json:"ops"`
}

func main() {
	b, err := os.ReadFile(os.Args[1])
	if err != nil {
		panic(err)
	}
	var in struct {
		Universe []string `json:"universe"`
		Cases    []tcase  `json:"cases"`
	}
	if err := json.Unmarshal(b, &in); err != nil {
		panic(err)
	}
	f, err := os.Create(os.Args[2])
	if err != nil {
		panic(err)
	}
	w := bufio.NewWriter(f)
	enc := json.NewEncoder(w)
	emit := func(m map[string]any) {
		if err := enc.Encode(m); err != nil {
			panic(err)
		}
	}
	probe := func(s *template.MethodScope) []string {
		vis := []string{}
		for _, n := range in.Universe {
			if s.NameExists(n) {
				vis = append(vis, n)
			}
		}
		sort.Strings(vis)
		return vis
	}
	// replay runs one history on fresh objects and returns the logged events (a recovered panic becomes
	// a "panic" event).  With erase=true the suggest operations are skipped.
	replay := func(ci int, c tcase, erase bool) (evs []map[string]any) {
		emit := func(m map[string]any) { evs = append(evs, m) }
		defer func() {
			if r := recover(); r != nil {
				emit(map[string]any{"op": "panic", "case": ci, "msg": fmt.Sprint(r)})
			}
		}()
		var src *packages.Package
		if c.SrcPath != "" {
			src = &packages.Package{PkgPath: c.SrcPath, Name: c.SrcName, Types: types.NewPackage(c.SrcPath, c.SrcName)}
		}
		reg, err := template.NewRegistry(src, c.Dst, c.InPkg)
		if err != nil {
			panic(err)
		}
		scope := reg.MethodScope()
		emit(map[string]any{"op": "reset", "case": ci, "inpkg": c.InPkg, "dst": c.Dst, "visible": probe(scope)})
		for _, o := range c.Ops {
			switch o.Op {
			case "add":
				scope.AddName(o.Name)
				emit(map[string]any{"op": "add", "case": ci, "name": o.Name})
			case "exists":
				emit(map[string]any{"op": "exists", "case": ci, "name": o.Name, "res": scope.NameExists(o.Name)})
			case "suggest":
				if erase {
					continue
				}
				emit(map[string]any{"op": "suggest", "case": ci, "prefix": o.Prefix, "res": scope.SuggestName(o.Prefix)})
			case "alloc":
				emit(map[string]any{"op": "alloc", "case": ci, "prefix": o.Prefix, "res": scope.AllocateName(o.Prefix)})
			case "import":
				p := reg.AddImport(o.Name, o.Path)
				emit(map[string]any{"op": "import", "case": ci, "name": o.Name, "path": o.Path, "nil": p == nil, "res": p.Qualifier()})
			case "imports":
				paths := []string{}
				quals := []string{}
				for _, p := range reg.Imports() {
					paths = append(paths, p.Path())
					quals = append(quals, p.Qualifier())
				}
				emit(map[string]any{"op": "imports", "case": ci, "paths": paths, "quals": quals})
			case "qual":
				q, err := reg.Imports().PkgQualifier(o.Path)
				emit(map[string]any{"op": "qual", "case": ci, "path": o.Path, "found": err == nil, "res": q})
			case "newscope":
				scope = reg.MethodScope()
				emit(map[string]any{"op": "newscope", "case": ci, "visible": probe(scope)})
			default:
				panic("unknown op " + o.Op)
			}
		}
		return evs
	}
	for ci, c := range in.Cases {
		evs := replay(ci, c, false)
		hasSuggest := false
		for _, o := range c.Ops {
			if o.Op == "suggest" {
				hasSuggest = true
			}
		}
		if hasSuggest {
			// second replay with the suggest operations erased: the replies of all other operations are
			// logged next to the original ones (<field>_erased); the trace specification compares them.
			er := replay(ci, c, true)
			j := 0
			for _, e := range evs {
				if e["op"] == "suggest" || e["op"] == "panic" {
					continue
				}
				if j >= len(er) || er[j]["op"] != e["op"] {
					break
				}
				for _, k := range []string{"res", "quals", "visible", "found", "nil"} {
					if v, ok := er[j][k]; ok {
						e[k+"_erased"] = v
					}
				}
				j++
			}
		}
		for _, e := range evs {
			emit(e)
		}
	}
	if err := w.Flush(); err != nil {
		panic(err)
	}
	f.Close()
}
