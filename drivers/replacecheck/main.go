// Command replacecheck type-checks every package of a scratch module from source (go/packages, no
// compilation, nothing is written to the Go build cache) and reports the errors per package.
//
// usage: replacecheck <module dir> <out.json>
//
//	out: {"<import path>": ["error", ...]}   -- only packages with errors (load, import-cycle, syntax or type errors)
package main

import (
	"encoding/json"
	"fmt"
	"os"
	"strings"

	"golang.org/x/tools/go/packages"
)

func main() {
	if len(os.Args) != 3 {
		fmt.Fprintln(os.Stderr, "usage: replacecheck <module dir> <out.json>")
		os.Exit(2)
	}
	cfg := &packages.Config{
		Dir: os.Args[1],
		Mode: packages.NeedName | packages.NeedFiles | packages.NeedCompiledGoFiles | packages.NeedImports |
			packages.NeedDeps | packages.NeedTypes | packages.NeedSyntax | packages.NeedTypesInfo,
		Env: os.Environ(),
	}
	pkgs, err := packages.Load(cfg, "./...")
	if err != nil {
		fmt.Fprintln(os.Stderr, "load:", err)
		os.Exit(2)
	}
	out := map[string][]string{}
	for _, p := range pkgs {
		for _, e := range p.Errors {
			out[p.PkgPath] = append(out[p.PkgPath], e.Error())
		}
		// an error in a dependency inside the module is the dependency's, not this package's
		if len(out[p.PkgPath]) > 0 {
			continue
		}
		if p.IllTyped {
			own := false
			for _, e := range p.TypeErrors {
				out[p.PkgPath] = append(out[p.PkgPath], e.Error())
				own = true
			}
			if !own {
				var bad []string
				for path, ip := range p.Imports {
					if ip.IllTyped || len(ip.Errors) > 0 {
						bad = append(bad, path)
					}
				}
				out[p.PkgPath] = append(out[p.PkgPath], "imports ill-typed package(s): "+strings.Join(bad, ", "))
			}
		}
	}
	b, _ := json.Marshal(out)
	if err := os.WriteFile(os.Args[2], b, 0o644); err != nil {
		fmt.Fprintln(os.Stderr, err)
		os.Exit(2)
	}
}
