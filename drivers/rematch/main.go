// Command rematch evaluates Go regular expressions (regexp.MatchString, the call mockery uses for
// include-interface-regex / exclude-interface-regex / exclude-subpkg-regex) on a list of subjects.
//
// usage: rematch <in.json> <out.json>
// in:  {"pats": ["er$", ...], "subjects": ["Reader", ...]}
// out: {"match": {"<pat>": {"<subject>": true|false}}, "errors": {"<pat>": "compile error"}}
//
// The checks use it to recompute the Match tables that the TLA+ specifications (Selection.tla,
// Recursive.tla) carry as constants; a disagreement is a machinery error, never a verdict.
package main

import (
	"encoding/json"
	"os"
	"regexp"
)

func main() {
	b, err := os.ReadFile(os.Args[1])
	if err != nil {
		panic(err)
	}
	var in struct {
		Pats     []string `json:"pats"`
		Subjects []string `json:"subjects"`
	}
	if err := json.Unmarshal(b, &in); err != nil {
		panic(err)
	}
	out := struct {
		Match  map[string]map[string]bool `json:"match"`
		Errors map[string]string          `json:"errors"`
	}{map[string]map[string]bool{}, map[string]string{}}
	for _, p := range in.Pats {
		out.Match[p] = map[string]bool{}
		for _, s := range in.Subjects {
			m, err := regexp.MatchString(p, s)
			if err != nil {
				out.Errors[p] = err.Error()
				break
			}
			out.Match[p][s] = m
		}
	}
	ob, _ := json.Marshal(out)
	if err := os.WriteFile(os.Args[2], ob, 0o644); err != nil {
		panic(err)
	}
}
