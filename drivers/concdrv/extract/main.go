// extract reads freshly generated mock files (go/ast, no type information needed) and prints, as JSON,
//
//   - for every method of every struct declared in the file its *program*: the sequence of instructions that
//     matter for concurrent use -- lock operations on receiver fields, reads/writes of receiver fields and of
//     package-level variables, forwarding calls, control flow (branch/jump/return/panic, deferred instructions);
//   - the struct declarations (field names and type strings) and the package-level variables of the file.
//
// checks/c05.py turns the matryer programs into the constants of spec/MatryerConc.tla and checks the testify
// footprint claim on the testify programs.  Nothing here knows the template: field roles are recognised by how the
// generated code USES them (x.Lock() => mutex, x = append(x, ..) => read then write, ...).
//
// usage: extract file.go...
package main

import (
	"bytes"
	"encoding/json"
	"fmt"
	"go/ast"
	"go/parser"
	"go/printer"
	"go/token"
	"os"
)

type Instr struct {
	Op   string `json:"op"`   // lock rlock unlock runlock read write forward local branch jump return panic call
	Mu   string `json:"mu"`   // mutex (receiver field path) for lock ops
	V    string `json:"v"`    // shared variable: receiver field path ("calls.A", "AFunc") or "pkg:name"
	Kind string `json:"kind"` // write: append | nil | other ; call: callee text
	To   int    `json:"to"`   // branch: index of the instruction after the skipped block; jump: target
	Line int    `json:"line"`
}

type Method struct {
	Recv     string  `json:"recv"`
	RecvName string  `json:"recv_name"`
	Name     string  `json:"name"`
	Prog     []Instr `json:"prog"`
	Defers   [][]Instr `json:"-"`
	Notes    []string `json:"notes"`
}

type Field struct {
	Name string `json:"name"`
	Type string `json:"type"`
}

type FileOut struct {
	Path    string             `json:"path"`
	Package string             `json:"package"`
	PkgVars []string           `json:"pkgvars"`
	Structs map[string][]Field `json:"structs"`
	Methods []*Method          `json:"methods"`
}

var fset = token.NewFileSet()

func text(n ast.Node) string {
	var b bytes.Buffer
	printer.Fprint(&b, fset, n)
	return b.String()
}

type ext struct {
	recv    string
	pkgvars map[string]bool
	locals  map[string]bool
	alias   map[string]string // local -> receiver-rooted path it was loaded from ("ExpectedCalls[]" for a range value)
	m       *Method
}

// path of a selector chain rooted at the receiver: mock.calls.A -> "calls.A"; "" if not rooted at the receiver
func (x *ext) recvPath(e ast.Expr) string {
	switch t := e.(type) {
	case *ast.SelectorExpr:
		if id, ok := t.X.(*ast.Ident); ok && id.Name == x.recv && x.recv != "" {
			return t.Sel.Name
		}
		// a selector on a local that holds (an element of / a pointer to) receiver state: still that shared state
		if id, ok := t.X.(*ast.Ident); ok && x.alias[id.Name] != "" {
			return x.alias[id.Name] + "." + t.Sel.Name
		}
		if p := x.recvPath(t.X); p != "" {
			return p + "." + t.Sel.Name
		}
	case *ast.ParenExpr:
		return x.recvPath(t.X)
	case *ast.StarExpr:
		return x.recvPath(t.X)
	case *ast.IndexExpr:
		if id, ok := t.X.(*ast.Ident); ok && x.alias[id.Name] != "" {
			return x.alias[id.Name] + "[]"
		}
		return x.recvPath(t.X)
	}
	return ""
}

// setAlias: local name now holds what the receiver-rooted expression e denotes (elem: one element of it)
func (x *ext) setAlias(name ast.Expr, e ast.Expr, elem bool) {
	id, ok := name.(*ast.Ident)
	if !ok || id.Name == "_" {
		return
	}
	if u, ok := e.(*ast.UnaryExpr); ok && u.Op == token.AND {
		e = u.X
	}
	p := x.recvPath(e)
	if p == "" {
		if rid, ok := e.(*ast.Ident); ok {
			p = x.alias[rid.Name]
		}
	}
	if p == "" {
		delete(x.alias, id.Name)
		return
	}
	if elem {
		p += "[]"
	}
	x.alias[id.Name] = p
}

func (x *ext) emit(i Instr, n ast.Node) {
	if n != nil {
		i.Line = fset.Position(n.Pos()).Line
	}
	x.m.Prog = append(x.m.Prog, i)
}

var lockOps = map[string]string{"Lock": "lock", "Unlock": "unlock", "RLock": "rlock", "RUnlock": "runlock"}

// reads: emit the shared reads (and calls) performed when evaluating e, in evaluation order
func (x *ext) reads(e ast.Expr) {
	if e == nil {
		return
	}
	switch t := e.(type) {
	case *ast.CallExpr:
		if sel, ok := t.Fun.(*ast.SelectorExpr); ok {
			if op, isLock := lockOps[sel.Sel.Name]; isLock && len(t.Args) == 0 {
				if p := x.recvPath(sel.X); p != "" {
					x.emit(Instr{Op: op, Mu: p}, t)
					return
				}
				if id, ok := sel.X.(*ast.Ident); ok && x.pkgvars[id.Name] && !x.locals[id.Name] {
					x.emit(Instr{Op: op, Mu: "pkg:" + id.Name}, t)
					return
				}
			}
		}
		for _, a := range t.Args {
			x.reads(a)
		}
		if p := x.recvPath(t.Fun); p != "" {
			// a call through a receiver field (mock.AFunc(...)) or a method of an embedded field (_mock.Called(...))
			x.emit(Instr{Op: "forward", V: p, Kind: text(t.Fun)}, t)
			return
		}
		if fl, ok := t.Fun.(*ast.FuncLit); ok {
			x.block(fl.Body.List)
			return
		}
		x.reads(t.Fun)
		if id, ok := t.Fun.(*ast.Ident); ok && id.Name == "panic" {
			x.emit(Instr{Op: "panic"}, t)
			return
		}
		x.emit(Instr{Op: "call", Kind: text(t.Fun)}, t)
	case *ast.SelectorExpr:
		if p := x.recvPath(t); p != "" {
			x.emit(Instr{Op: "read", V: p}, t)
			return
		}
		x.reads(t.X)
	case *ast.Ident:
		if x.pkgvars[t.Name] && !x.locals[t.Name] {
			x.emit(Instr{Op: "read", V: "pkg:" + t.Name}, t)
		}
	case *ast.BinaryExpr:
		x.reads(t.X)
		x.reads(t.Y)
	case *ast.UnaryExpr:
		x.reads(t.X)
	case *ast.StarExpr:
		x.reads(t.X)
	case *ast.ParenExpr:
		x.reads(t.X)
	case *ast.IndexExpr:
		x.reads(t.X)
		x.reads(t.Index)
	case *ast.SliceExpr:
		x.reads(t.X)
		x.reads(t.Low)
		x.reads(t.High)
		x.reads(t.Max)
	case *ast.TypeAssertExpr:
		x.reads(t.X)
	case *ast.CompositeLit:
		for _, el := range t.Elts {
			x.reads(el)
		}
	case *ast.KeyValueExpr:
		x.reads(t.Value)
	case *ast.FuncLit:
		// a closure created here: its body runs later on some goroutine; record its accesses as they appear
		x.block(t.Body.List)
	}
}

func (x *ext) write(lhs ast.Expr, kind string) {
	if p := x.recvPath(lhs); p != "" {
		if ix, ok := lhs.(*ast.IndexExpr); ok {
			x.reads(ix.Index)
		}
		x.emit(Instr{Op: "write", V: p, Kind: kind}, lhs)
		return
	}
	switch t := lhs.(type) {
	case *ast.Ident:
		if x.pkgvars[t.Name] && !x.locals[t.Name] {
			x.emit(Instr{Op: "write", V: "pkg:" + t.Name, Kind: kind}, lhs)
		}
	case *ast.IndexExpr:
		x.reads(t.Index)
		x.write(t.X, kind)
	case *ast.SelectorExpr:
		x.write(t.X, kind)
	case *ast.StarExpr:
		x.write(t.X, kind)
	}
}

func (x *ext) declare(e ast.Expr) {
	if id, ok := e.(*ast.Ident); ok {
		x.locals[id.Name] = true
	}
}

func (x *ext) block(list []ast.Stmt) {
	for _, s := range list {
		x.stmt(s)
	}
}

func (x *ext) stmt(s ast.Stmt) {
	switch t := s.(type) {
	case *ast.ExprStmt:
		x.reads(t.X)
	case *ast.AssignStmt:
		for i, r := range t.Rhs {
			kind := "other"
			if id, ok := r.(*ast.Ident); ok && id.Name == "nil" {
				kind = "nil"
			}
			if c, ok := r.(*ast.CallExpr); ok {
				if id, ok := c.Fun.(*ast.Ident); ok && id.Name == "append" && len(c.Args) > 0 && i < len(t.Lhs) &&
					x.recvPath(c.Args[0]) != "" && x.recvPath(c.Args[0]) == x.recvPath(t.Lhs[i]) {
					kind = "append"
				}
			}
			x.reads(r)
			if t.Tok != token.ASSIGN && t.Tok != token.DEFINE && i < len(t.Lhs) { // op-assign: read then write
				x.reads(t.Lhs[i])
			}
			if i < len(t.Lhs) {
				if t.Tok == token.DEFINE {
					x.declare(t.Lhs[i])
				}
				x.write(t.Lhs[i], kind)
				if (t.Tok == token.DEFINE || t.Tok == token.ASSIGN) && len(t.Lhs) == len(t.Rhs) {
					x.setAlias(t.Lhs[i], r, false)
				}
			}
		}
		if len(t.Rhs) < len(t.Lhs) {
			for _, l := range t.Lhs[len(t.Rhs):] {
				if t.Tok == token.DEFINE {
					x.declare(l)
				}
				x.write(l, "other")
			}
		}
	case *ast.IncDecStmt:
		x.reads(t.X)
		x.write(t.X, "other")
	case *ast.DeclStmt:
		if gd, ok := t.Decl.(*ast.GenDecl); ok {
			for _, sp := range gd.Specs {
				if vs, ok := sp.(*ast.ValueSpec); ok {
					for _, v := range vs.Values {
						x.reads(v)
					}
					for _, n := range vs.Names {
						x.locals[n.Name] = true
					}
				}
			}
		}
	case *ast.ReturnStmt:
		for _, r := range t.Results {
			x.reads(r)
		}
		x.emit(Instr{Op: "return"}, t)
	case *ast.IfStmt:
		if t.Init != nil {
			x.stmt(t.Init)
		}
		x.reads(t.Cond)
		bi := len(x.m.Prog)
		x.emit(Instr{Op: "branch"}, t)
		x.block(t.Body.List)
		if t.Else != nil {
			ji := len(x.m.Prog)
			x.emit(Instr{Op: "jump"}, t)
			x.m.Prog[bi].To = len(x.m.Prog)
			x.stmt(t.Else)
			x.m.Prog[ji].To = len(x.m.Prog)
		} else {
			x.m.Prog[bi].To = len(x.m.Prog)
		}
	case *ast.BlockStmt:
		x.block(t.List)
	case *ast.ForStmt, *ast.RangeStmt:
		// zero or one iteration (abstraction); noted
		x.m.Notes = append(x.m.Notes, fmt.Sprintf("loop at line %d abstracted to 0/1 iterations", fset.Position(s.Pos()).Line))
		var body *ast.BlockStmt
		if f, ok := t.(*ast.ForStmt); ok {
			if f.Init != nil {
				x.stmt(f.Init)
			}
			x.reads(f.Cond)
			body = f.Body
		} else {
			r := t.(*ast.RangeStmt)
			x.reads(r.X)
			if r.Tok == token.DEFINE {
				if r.Key != nil {
					x.declare(r.Key)
				}
				if r.Value != nil {
					x.declare(r.Value)
				}
			}
			if r.Value != nil {
				x.setAlias(r.Value, r.X, true)
			}
			body = r.Body
		}
		bi := len(x.m.Prog)
		x.emit(Instr{Op: "branch"}, s)
		x.block(body.List)
		x.m.Prog[bi].To = len(x.m.Prog)
	case *ast.DeferStmt:
		// deferred instructions run at return/panic: extracted into their own list
		saved := x.m.Prog
		x.m.Prog = nil
		x.reads(t.Call)
		d := x.m.Prog
		x.m.Prog = saved
		x.m.Defers = append(x.m.Defers, d)
		x.emit(Instr{Op: "defer", To: len(x.m.Defers) - 1}, t)
	case *ast.GoStmt:
		x.m.Notes = append(x.m.Notes, fmt.Sprintf("go statement at line %d", fset.Position(s.Pos()).Line))
		x.reads(t.Call)
	case *ast.SwitchStmt, *ast.TypeSwitchStmt, *ast.SelectStmt:
		x.m.Notes = append(x.m.Notes, fmt.Sprintf("switch/select at line %d not modelled", fset.Position(s.Pos()).Line))
	}
}

type MethodOut struct {
	Recv     string    `json:"recv"`
	RecvName string    `json:"recv_name"`
	Name     string    `json:"name"`
	Prog     []Instr   `json:"prog"`
	Defers   [][]Instr `json:"defers"`
	Notes    []string  `json:"notes"`
}

func main() {
	type out struct {
		Path    string             `json:"path"`
		Package string             `json:"package"`
		PkgVars []string           `json:"pkgvars"`
		Structs map[string][]Field `json:"structs"`
		Methods []MethodOut        `json:"methods"`
	}
	var outs []out
	for _, path := range os.Args[1:] {
		f, err := parser.ParseFile(fset, path, nil, parser.SkipObjectResolution)
		if err != nil {
			fmt.Fprintln(os.Stderr, "extract:", err)
			os.Exit(2)
		}
		o := out{Path: path, Package: f.Name.Name, Structs: map[string][]Field{}, PkgVars: []string{}}
		pkgvars := map[string]bool{}
		for _, d := range f.Decls {
			gd, ok := d.(*ast.GenDecl)
			if !ok {
				continue
			}
			for _, sp := range gd.Specs {
				switch t := sp.(type) {
				case *ast.ValueSpec:
					if gd.Tok == token.VAR {
						for _, n := range t.Names {
							if n.Name != "_" {
								pkgvars[n.Name] = true
								o.PkgVars = append(o.PkgVars, n.Name)
							}
						}
					}
				case *ast.TypeSpec:
					if st, ok := t.Type.(*ast.StructType); ok {
						fs := []Field{}
						for _, fl := range st.Fields.List {
							ty := text(fl.Type)
							if len(fl.Names) == 0 {
								fs = append(fs, Field{"", ty})
							}
							for _, n := range fl.Names {
								fs = append(fs, Field{n.Name, ty})
							}
						}
						o.Structs[t.Name.Name] = fs
					}
				}
			}
		}
		for _, d := range f.Decls {
			fd, ok := d.(*ast.FuncDecl)
			if !ok || fd.Body == nil {
				continue
			}
			m := &Method{Name: fd.Name.Name}
			x := &ext{pkgvars: pkgvars, locals: map[string]bool{}, alias: map[string]string{}, m: m}
			if fd.Recv != nil && len(fd.Recv.List) == 1 {
				rt := fd.Recv.List[0].Type
				if st, ok := rt.(*ast.StarExpr); ok {
					rt = st.X
				}
				if ix, ok := rt.(*ast.IndexExpr); ok {
					rt = ix.X
				}
				if ix, ok := rt.(*ast.IndexListExpr); ok {
					rt = ix.X
				}
				m.Recv = text(rt)
				if len(fd.Recv.List[0].Names) == 1 {
					m.RecvName = fd.Recv.List[0].Names[0].Name
					x.recv = m.RecvName
				}
			}
			for _, p := range fd.Type.Params.List {
				for _, n := range p.Names {
					x.locals[n.Name] = true
				}
			}
			if fd.Type.Results != nil {
				for _, p := range fd.Type.Results.List {
					for _, n := range p.Names {
						x.locals[n.Name] = true
					}
				}
			}
			x.block(fd.Body.List)
			x.emit(Instr{Op: "return"}, nil)
			mo := MethodOut{m.Recv, m.RecvName, m.Name, m.Prog, m.Defers, m.Notes}
			if mo.Defers == nil {
				mo.Defers = [][]Instr{}
			}
			if mo.Notes == nil {
				mo.Notes = []string{}
			}
			o.Methods = append(o.Methods, mo)
		}
		outs = append(outs, o)
	}
	json.NewEncoder(os.Stdout).Encode(outs)
}
