// stress is the real-code oracle of C05.  It is copied by checks/c05.py into the scratch world next to a
// generated registry.go (constructors of the freshly generated matryer and testify mocks) and built with
// `go build -race`.
//
// Free-running (no gates, no channels between the goroutines that use the mock: gates create happens-before
// edges that hide exactly the races in question):
//
//	matryer  G goroutines x K calls of A, every argument position encoding the same (g,k); concurrent readers
//	         of ACalls(); in reset rounds concurrent ResetACalls()/ResetCalls().  Oracles: race detector
//	         (reports go to GORACE log_path, judged by c05.py), lost / duplicated record (count and multiset when
//	         no reset ran; the records of a reset-free second phase after a reset phase), torn record (fields from
//	         different calls), order (records of one goroutine must appear in its call order).
//	         Small histories (3 goroutines x 2 operations, invoke/return stamped with one atomic counter) are
//	         recorded for the linearizability check by TLC (spec/MatryerConcLin.tla).
//	testify  G goroutines x K calls against .Maybe() expectations with mock.Anything and a function-valued
//	         return, while another goroutine registers further expectations with On(); afterwards mock.Mock.Calls
//	         must hold exactly one entry per call, each with the arguments of one call.
//
// usage: stress plan.json out.json
package main

import (
	"encoding/json"
	"fmt"
	"math/rand"
	"os"
	"reflect"
	"runtime"
	"sort"
	"strings"
	"sync"
	"sync/atomic"
	"time"
	"unsafe"

	"github.com/stretchr/testify/mock"
)

type Plan struct {
	Seed    int64           `json:"seed"`
	G       int             `json:"g"`
	K       int             `json:"k"`
	Rounds  int             `json:"rounds"`
	Hist    int             `json:"hist"`
	Unroll  map[string]bool `json:"unroll"`
	Only    []string        `json:"only"`
	Testify bool            `json:"testify"`
	TCases  []TCase           `json:"tcases"`   // history classes exported by spec/TestifyConcCases.tla (testify_cases.go)
	UnrollS map[string]string `json:"unroll_s"` // testify package -> unroll-variadic setting as spelled in the config: false | unset | true
	SnapMs  int             `json:"snap_ms"` // duration of the reader || resetter || caller round per with-resets mock
}

type Failure struct {
	Target string      `json:"target"`
	Mode   string      `json:"mode"`
	Kind   string      `json:"kind"` // lost duplicated torn order result panic testify-fail count
	Detail interface{} `json:"detail"`
}

type Out struct {
	Failures  []Failure                `json:"failures"`
	Histories []map[string]interface{} `json:"histories"` // events for TLC, concatenated
	Stats     map[string]int64         `json:"stats"`
	Targets   []string                 `json:"targets"`
}

var (
	out   = Out{Stats: map[string]int64{}, Failures: []Failure{}, Histories: []map[string]interface{}{}}
	outMu sync.Mutex
)

func fail(target, mode, kind string, detail interface{}) {
	outMu.Lock()
	if len(out.Failures) < 200 {
		out.Failures = append(out.Failures, Failure{target, mode, kind, detail})
	}
	outMu.Unlock()
}

func stat(k string, n int64) {
	outMu.Lock()
	out.Stats[k] += n
	outMu.Unlock()
}

// ------------------------------------------------------------------------------------------ values
const kBase = 100000

func code(g, k int) int { return g*kBase + k + 1 } // never 0

type codeErr int

func (e codeErr) Error() string { return fmt.Sprintf("e%d", int(e)) }

var errType = reflect.TypeOf((*error)(nil)).Elem()

func encode(t reflect.Type, c int) reflect.Value {
	v := reflect.New(t).Elem()
	switch t.Kind() {
	case reflect.Int, reflect.Int8, reflect.Int16, reflect.Int32, reflect.Int64:
		v.SetInt(int64(c))
	case reflect.Uint, reflect.Uint32, reflect.Uint64:
		v.SetUint(uint64(c))
	case reflect.Float64, reflect.Float32:
		v.SetFloat(float64(c))
	case reflect.String:
		v.SetString(fmt.Sprintf("s%d", c))
	case reflect.Interface:
		if t == errType {
			v.Set(reflect.ValueOf(codeErr(c)))
		} else {
			v.Set(reflect.ValueOf(c))
		}
	case reflect.Ptr:
		p := reflect.New(t.Elem())
		p.Elem().Set(encode(t.Elem(), c))
		v.Set(p)
	case reflect.Struct:
		v.Field(0).Set(encode(t.Field(0).Type, c))
	case reflect.Slice:
		s := reflect.MakeSlice(t, 2, 2)
		s.Index(0).Set(encode(t.Elem(), c))
		s.Index(1).Set(encode(t.Elem(), c))
		v.Set(s)
	default:
		panic("stress: cannot encode " + t.String())
	}
	return v
}

func readable(v reflect.Value) reflect.Value {
	if v.CanInterface() || !v.CanAddr() {
		return v
	}
	return reflect.NewAt(v.Type(), unsafe.Pointer(v.UnsafeAddr())).Elem()
}

// decode returns every code found in v (a slice contributes one per element): a value from one call has one distinct code
func decode(v reflect.Value, into *[]int) {
	v = readable(v)
	switch v.Kind() {
	case reflect.Int, reflect.Int8, reflect.Int16, reflect.Int32, reflect.Int64:
		*into = append(*into, int(v.Int()))
	case reflect.Uint, reflect.Uint32, reflect.Uint64:
		*into = append(*into, int(v.Uint()))
	case reflect.Float64, reflect.Float32:
		*into = append(*into, int(v.Float()))
	case reflect.String:
		c := -1
		fmt.Sscanf(v.String(), "s%d", &c)
		*into = append(*into, c)
	case reflect.Interface, reflect.Ptr:
		if v.IsNil() {
			*into = append(*into, -1)
			return
		}
		if ce, ok := v.Elem().Interface().(codeErr); ok && v.Kind() == reflect.Interface {
			*into = append(*into, int(ce))
			return
		}
		decode(v.Elem(), into)
	case reflect.Struct:
		decode(v.Field(0), into)
	case reflect.Slice:
		for i := 0; i < v.Len(); i++ {
			decode(v.Index(i), into)
		}
	default:
		*into = append(*into, -1)
	}
}

// one code for a whole record / argument list, or -1 if torn (fields from different calls) ; -2 = no field at all
func oneCode(cs []int) int {
	if len(cs) == 0 {
		return -2
	}
	for _, c := range cs {
		if c != cs[0] || c <= 0 {
			return -1
		}
	}
	return cs[0]
}

// ------------------------------------------------------------------------------------------ matryer target
type mtarget struct {
	name                   string
	v                      reflect.Value
	a, b, aCalls, bCalls   reflect.Value
	resetA, resetB, resetA2 reflect.Value // ResetACalls, ResetBCalls, ResetCalls
	arity                  int
	pr                     *probe // non-nil: AFunc observes, while it runs, whether its own call is already recorded
	nilFuncs               bool // MFunc fields left nil: the mock is used as a pure call recorder (stub-impl)
}

func newM(name string, mk func() interface{}) *mtarget { return newM2(name, mk, false) }

// probe: "recorded before the user's function is entered".  One caller makes the calls one after the other; while AFunc
// runs it (a) reads ACalls() itself and (b) blocks until an observer goroutine has read ACalls(): both must already
// list the call in progress; (c) every third call AFunc panics (recovered by the caller) and the call must stay recorded.
type probe struct {
	req chan [2]int // {code of the call in progress, number of records expected}
	ack chan struct{}
	n   int // calls entered so far
	// reads of ACalls() block while AFunc runs (a mock that keeps its lock across the forwarding call): the property does
	// not forbid that, so the reads are skipped then; found out on the first call with a helper goroutine and a timeout
	blocked bool
}

type probePanic struct{}

func (t *mtarget) listed(recs []int, c, wantLen int) bool {
	if t.arity == 0 {
		return len(recs) == wantLen
	}
	for _, r := range recs {
		if r == c {
			return true
		}
	}
	return false
}

func (t *mtarget) runProbe(K int) {
	t.pr = &probe{req: make(chan [2]int), ack: make(chan struct{})}
	done := make(chan struct{})
	go func() { // the observer: another goroutine, while AFunc is blocked
		defer close(done)
		for q := range t.pr.req {
			if !t.listed(t.read(t.aCalls), q[0], q[1]) {
				fail(t.name, "probe/other-goroutine-while-func-runs", "unrecorded-while-running",
					map[string]interface{}{"call": q[0], "what": "ACalls() read by another goroutine while AFunc is running does not list the call in progress"})
			}
			t.pr.ack <- struct{}{}
		}
	}()
	for k := 0; k < K; k++ {
		func() {
			defer func() {
				if p := recover(); p != nil {
					if _, ok := p.(probePanic); !ok {
						fail(t.name, "probe", "panic", fmt.Sprint(p))
					}
				}
			}()
			t.call(t.a, code(1, k))
		}()
	}
	close(t.pr.req)
	<-done
	if recs := t.read(t.aCalls); len(recs) != K {
		fail(t.name, "probe/final", "lost-or-extra", map[string]interface{}{"calls": K, "records": len(recs),
			"what": "every third AFunc panicked (recovered by the caller); a call whose function panics is still a call"})
	}
	stat("probe_calls", int64(K))
}

func newM2(name string, mk func() interface{}, nilFuncs bool) *mtarget {
	t := &mtarget{name: name, v: reflect.ValueOf(mk()), nilFuncs: nilFuncs}
	for _, m := range []string{"A", "B"} {
		if nilFuncs {
			break
		}
		fld := t.v.Elem().FieldByName(m + "Func")
		ft := fld.Type()
		fld.Set(reflect.MakeFunc(ft, func(in []reflect.Value) []reflect.Value {
			// pure function of its inputs: no shared state in the driver's own function
			c := 0
			if len(in) > 0 {
				var cs []int
				decode(in[0], &cs)
				if len(cs) > 0 {
					c = cs[0]
				}
			}
			if pr := t.pr; pr != nil && m == "A" {
				pr.n++
				if pr.n == 1 {
					tried := make(chan struct{})
					go func() { t.read(t.aCalls); close(tried) }()
					select {
					case <-tried:
					case <-time.After(1 * time.Second):
						pr.blocked = true
						stat("probe_reads_block_while_func_runs", 1)
					}
				}
				if pr.blocked {
					if pr.n%3 == 0 {
						panic(probePanic{})
					}
				} else if !t.listed(t.read(t.aCalls), c, pr.n) {
					fail(t.name, "probe/inside-func", "unrecorded-in-func",
						map[string]interface{}{"call": c, "what": "ACalls() read by AFunc itself does not list the call in progress"})
				}
				if !pr.blocked {
					pr.req <- [2]int{c, pr.n}
					<-pr.ack
					if pr.n%3 == 0 {
						panic(probePanic{})
					}
				}
			}
			res := make([]reflect.Value, ft.NumOut())
			for i := range res {
				res[i] = encode(ft.Out(i), c)
			}
			return res
		}))
	}
	t.a, t.b = t.v.MethodByName("A"), t.v.MethodByName("B")
	t.aCalls, t.bCalls = t.v.MethodByName("ACalls"), t.v.MethodByName("BCalls")
	t.resetA, t.resetB, t.resetA2 = t.v.MethodByName("ResetACalls"), t.v.MethodByName("ResetBCalls"), t.v.MethodByName("ResetCalls")
	t.arity = t.a.Type().NumIn()
	return t
}

func (t *mtarget) call(meth reflect.Value, c int) (resCode int) {
	mt := meth.Type()
	in := make([]reflect.Value, 0, 4)
	for i := 0; i < mt.NumIn(); i++ {
		if mt.IsVariadic() && i == mt.NumIn()-1 {
			in = append(in, encode(mt.In(i).Elem(), c), encode(mt.In(i).Elem(), c))
		} else {
			in = append(in, encode(mt.In(i), c))
		}
	}
	outv := meth.Call(in)
	var cs []int
	for _, o := range outv {
		decode(o, &cs)
	}
	return oneCode(cs)
}

// read returns one code per record (-1 torn, -2 record without fields)
func (t *mtarget) read(calls reflect.Value) []int {
	s := calls.Call(nil)[0]
	res := make([]int, s.Len())
	for i := range res {
		var cs []int
		el := s.Index(i)
		for j := 0; j < el.NumField(); j++ {
			decode(el.Field(j), &cs)
		}
		res[i] = oneCode(cs)
	}
	return res
}

// checks on one observed log: torn, duplicates, per-goroutine order
func (t *mtarget) checkLog(mode string, recs []int) {
	if t.arity == 0 {
		return
	}
	seen := map[int]bool{}
	lastK := map[int]int{}
	for i, c := range recs {
		if c <= 0 {
			fail(t.name, mode, "torn", map[string]interface{}{"index": i, "what": "fields of one record decode to different calls"})
			return
		}
		if seen[c] {
			fail(t.name, mode, "duplicated", map[string]interface{}{"code": c})
			return
		}
		seen[c] = true
		g, k := c/kBase, c%kBase
		if lk, ok := lastK[g]; ok && k < lk {
			fail(t.name, mode, "order", map[string]interface{}{"goroutine": g, "k": k, "after": lk})
			return
		}
		lastK[g] = k
	}
}

func (t *mtarget) stressRound(mode string, G, K int, withResets bool, kOffset int, rng *rand.Rand) {
	var wg sync.WaitGroup
	var stop int32
	var rwg sync.WaitGroup
	readers := 2
	for r := 0; r < readers; r++ {
		rwg.Add(1)
		go func() {
			defer rwg.Done()
			defer func() {
				if p := recover(); p != nil { // e.g. a torn slice header read without the lock
					fail(t.name, mode+"/concurrent-read", "panic", "while reading the recorded calls: "+fmt.Sprint(p))
				}
			}()
			n := 0
			for atomic.LoadInt32(&stop) == 0 {
				t.checkLog(mode+"/concurrent-read", t.read(t.aCalls))
				t.read(t.bCalls)
				n++
				runtime.Gosched()
			}
			stat("concurrent_reads", int64(n))
		}()
	}
	if withResets {
		for r := 0; r < 2; r++ {
			rwg.Add(1)
			r := r
			go func() {
				defer rwg.Done()
				n := 0
				for atomic.LoadInt32(&stop) == 0 {
					if r == 0 {
						t.resetA.Call(nil)
						t.resetB.Call(nil)
					} else {
						t.resetA2.Call(nil)
					}
					n++
					runtime.Gosched()
				}
				stat("concurrent_resets", int64(n))
			}()
		}
	}
	for g := 1; g <= G; g++ {
		wg.Add(1)
		go func(g int) {
			defer wg.Done()
			defer func() {
				if p := recover(); p != nil {
					fail(t.name, mode, "panic", fmt.Sprint(p))
				}
			}()
			for k := kOffset; k < kOffset+K; k++ {
				c := code(g, k)
				if rc := t.call(t.a, c); t.a.Type().NumOut() > 0 && t.arity > 0 && rc != c && !t.nilFuncs {
					fail(t.name, mode, "result", map[string]interface{}{"want": c, "got": rc})
					return
				}
				if k%3 == 0 {
					t.call(t.b, c)
				}
			}
		}(g)
	}
	wg.Wait()
	atomic.StoreInt32(&stop, 1)
	rwg.Wait()
	stat("calls", int64(G*K))
}

// snapshotRound: readers || resetters || callers for a fixed time.  The oracle is applied to what ACalls() RETURNS while
// resets run: every returned record was produced by an actual call (all its fields decode to one (g,k), never the zero
// value: every argument is non-zero), no call twice, per goroutine in call order (k increasing) -- checkLog on each
// snapshot.  The resetters pause for varying short times so that the log has some length when it is emptied.
func (t *mtarget) snapshotRound(mode string, G int, dur time.Duration) {
	var stop int32
	var wg sync.WaitGroup
	for g := 1; g <= G; g++ {
		wg.Add(1)
		go func(g int) {
			defer wg.Done()
			defer func() {
				if p := recover(); p != nil {
					fail(t.name, mode, "panic", fmt.Sprint(p))
				}
			}()
			k := 0
			for ; atomic.LoadInt32(&stop) == 0 && k < kBase-2; k++ {
				t.call(t.a, code(g, k))
			}
			stat("snapshot_calls", int64(k))
		}(g)
	}
	for r := 0; r < 2; r++ {
		wg.Add(1)
		go func(r int) {
			defer wg.Done()
			n := 0
			for ; atomic.LoadInt32(&stop) == 0; n++ {
				if (n+r)%2 == 0 {
					t.resetA.Call(nil)
				} else {
					t.resetA2.Call(nil)
				}
				if n%4 == 3 {
					runtime.Gosched()
				} else {
					time.Sleep(time.Duration(5+(n%7)*10) * time.Microsecond)
				}
			}
			stat("snapshot_resets", int64(n))
		}(r)
	}
	for r := 0; r < 4; r++ {
		wg.Add(1)
		go func() {
			defer wg.Done()
			defer func() {
				if p := recover(); p != nil {
					fail(t.name, mode+"/concurrent-read", "panic", "while reading the recorded calls: "+fmt.Sprint(p))
				}
			}()
			n, nonEmpty := 0, 0
			for ; atomic.LoadInt32(&stop) == 0; n++ {
				recs := t.read(t.aCalls)
				if len(recs) > 0 {
					nonEmpty++
				}
				t.checkLog(mode+"/concurrent-read", recs)
			}
			stat("snapshot_reads", int64(n))
			stat("snapshot_reads_nonempty", int64(nonEmpty))
		}()
	}
	time.Sleep(dur)
	atomic.StoreInt32(&stop, 1)
	wg.Wait()
}

// recorder reports whether the mock accepts calls while its MFunc fields are nil (stub-impl): found by trying
func (t *mtarget) recorder() (ok bool) {
	defer func() {
		if recover() != nil {
			ok = false
		}
	}()
	p := newM2(t.name, func() interface{} { return reflect.New(t.v.Elem().Type()).Interface() }, true)
	p.call(p.a, code(1, 0))
	p.call(p.b, code(1, 0))
	return true
}

func (t *mtarget) stress(plan *Plan, rng *rand.Rand) {
	t.stressWith(plan, rng, false)
	newM2(t.name, func() interface{} { return reflect.New(t.v.Elem().Type()).Interface() }, false).runProbe(12)
	if t.recorder() {
		// the same rounds on a mock whose MFunc fields are nil: every call takes the "no function" path
		t.stressWith(plan, rng, true)
		stat("recorder_targets", 1)
	}
}

func (t *mtarget) stressWith(plan *Plan, rng *rand.Rand, nilFuncs bool) {
	G, K := plan.G, plan.K
	fresh := func() *mtarget {
		return newM2(t.name, func() interface{} { return reflect.New(t.v.Elem().Type()).Interface() }, nilFuncs)
	}
	pre := ""
	if nilFuncs {
		pre = "nil-func/"
		K = K/2 + 1
	}
	hasResets := t.resetA.IsValid() && t.resetA2.IsValid() && t.resetB.IsValid()
	if hasResets && plan.SnapMs > 0 {
		ms := plan.SnapMs
		if nilFuncs {
			ms = ms/2 + 1
		}
		fresh().snapshotRound(pre+"snapshots-under-reset", 3, time.Duration(ms)*time.Millisecond)
	}
	for round := 0; round < plan.Rounds; round++ {
		// fresh instance per round
		t2 := fresh()
		mode := pre + "no-reset"
		t2.stressRound(mode, G, K, false, 0, rng)
		recs := t2.read(t2.aCalls)
		if len(recs) != G*K {
			fail(t.name, mode, "lost-or-extra", map[string]interface{}{"calls": G * K, "records": len(recs)})
		} else {
			t2.checkLog(mode+"/final", recs)
		}
		if hasResets {
			mode = pre + "reset-then-quiet"
			t3 := fresh()
			t3.stressRound(mode+"/phase1", G, K, true, 0, rng)
			t3.checkLog(mode+"/after-phase1", t3.read(t3.aCalls))
			t3.stressRound(mode+"/phase2", G, K, false, K, rng) // no resets any more: nothing of phase 2 may be lost
			recs := t3.read(t3.aCalls)
			t3.checkLog(mode+"/final", recs)
			n2 := 0
			for _, c := range recs {
				if c > 0 && c%kBase-1 >= K {
					n2++
				}
			}
			if t3.arity > 0 && n2 != G*K {
				fail(t.name, mode, "lost-or-extra", map[string]interface{}{"phase2_calls": G * K, "phase2_records": n2})
			}
			if t3.arity == 0 && len(recs) < G*K {
				fail(t.name, mode, "lost-or-extra", map[string]interface{}{"phase2_calls": G * K, "records": len(recs)})
			}
		}
	}
}

// ------------------------------------------------------------------------------------------ small histories for TLC
var histCase int64

func (t *mtarget) history(rng *rand.Rand, needOverlap bool) bool {
	if t.arity == 0 {
		return false
	}
	hasResets := t.resetA.IsValid() && t.resetA2.IsValid()
	t2 := newM(t.name, func() interface{} { return reflect.New(t.v.Elem().Type()).Interface() })
	const NG, NK = 3, 2
	kinds := []string{"call", "call", "read", "callb"}
	if hasResets {
		kinds = append(kinds, "resetm", "resetall", "read")
	}
	type op struct{ what string }
	progs := make([][]string, NG)
	for g := range progs {
		for k := 0; k < NK; k++ {
			progs[g] = append(progs[g], kinds[rng.Intn(len(kinds))])
		}
	}
	var clock int64
	var start int32
	evs := make([][]map[string]interface{}, NG)
	var wg sync.WaitGroup
	for g := 0; g < NG; g++ {
		wg.Add(1)
		go func(g int) {
			defer wg.Done()
			for atomic.LoadInt32(&start) == 0 {
			}
			for k, what := range progs[g] {
				c := code(g+1, k)
				e := map[string]interface{}{"op": "inv", "g": g + 1, "what": what, "m": "A", "id": c, "recs": []int{}}
				if what == "callb" {
					e["what"], e["m"] = "call", "B"
				}
				if what == "resetall" {
					e["m"] = ""
				}
				e["t"] = atomic.AddInt64(&clock, 1)
				var recs []int
				switch what {
				case "call":
					t2.call(t2.a, c)
				case "callb":
					t2.call(t2.b, c)
				case "read":
					recs = t2.read(t2.aCalls)
				case "resetm":
					t2.resetA.Call(nil)
				case "resetall":
					t2.resetA2.Call(nil)
				}
				r := map[string]interface{}{"op": "ret", "g": g + 1, "what": e["what"], "m": e["m"], "id": c, "recs": []int{}}
				if recs != nil {
					r["recs"] = recs
				}
				r["t"] = atomic.AddInt64(&clock, 1)
				evs[g] = append(evs[g], e, r)
			}
		}(g)
	}
	atomic.StoreInt32(&start, 1)
	wg.Wait()
	all := []map[string]interface{}{}
	for _, l := range evs {
		all = append(all, l...)
	}
	sort.Slice(all, func(i, j int) bool { return all[i]["t"].(int64) < all[j]["t"].(int64) })
	overlap := false
	for i := 0; i+1 < len(all); i++ {
		if all[i]["op"] == "inv" && all[i+1]["op"] == "inv" {
			overlap = true
		}
	}
	if needOverlap && !overlap {
		return false
	}
	id := atomic.AddInt64(&histCase, 1)
	h := []map[string]interface{}{{"op": "reset", "case": id, "target": t.name, "g": 0, "what": "", "m": "", "id": 0, "recs": []int{},
		"logs": map[string][]int{"A": {}, "B": {}}}}
	for _, e := range all {
		delete(e, "t")
		e["case"] = id
		e["logs"] = map[string][]int{"A": {}, "B": {}}
		h = append(h, e)
	}
	fa, fb := t2.read(t2.aCalls), t2.read(t2.bCalls)
	h = append(h, map[string]interface{}{"op": "final", "case": id, "g": 0, "what": "", "m": "", "id": 0, "recs": []int{},
		"logs": map[string][]int{"A": fa, "B": fb}})
	outMu.Lock()
	out.Histories = append(out.Histories, h...)
	outMu.Unlock()
	stat("histories", 1)
	if overlap {
		stat("histories_overlapping", 1)
	}
	return true
}

// ------------------------------------------------------------------------------------------ testify
type recT struct {
	mu   sync.Mutex
	errs []string
}

func (t *recT) Logf(format string, args ...interface{}) {}
func (t *recT) Errorf(format string, args ...interface{}) {
	t.mu.Lock()
	if len(t.errs) < 5 {
		t.errs = append(t.errs, fmt.Sprintf(format, args...))
	}
	t.mu.Unlock()
}
func (t *recT) FailNow()         { panic("FailNow") }
func (t *recT) Cleanup(f func()) {}
func (t *recT) Helper()          {}

type onner interface {
	On(methodName string, arguments ...interface{}) *mock.Call
}

func testifyStress(name string, mk func(t tT) interface{}, unroll bool, plan *Plan) {
	G, K := plan.G, plan.K/2+1
	{
		// constructors of several mocks run concurrently (parallel tests each build their own mock): they must not
		// share unsynchronised state either
		var cwg sync.WaitGroup
		var go_ int32
		for i := 0; i < 4; i++ {
			cwg.Add(1)
			go func() {
				defer cwg.Done()
				defer func() {
					if p := recover(); p != nil {
						fail(name, "testify", "panic", "in the constructor: "+fmt.Sprint(p))
					}
				}()
				for atomic.LoadInt32(&go_) == 0 {
				}
				for j := 0; j < 3; j++ {
					mk(&recT{})
				}
			}()
		}
		atomic.StoreInt32(&go_, 1)
		cwg.Wait()
		stat("testify_concurrent_constructors", 12)
	}
	for round := 0; round < plan.Rounds; round++ {
		rt := &recT{}
		m := mk(rt)
		on, ok := m.(onner)
		if !ok {
			fail(name, "testify", "broken", "mock has no On method")
			return
		}
		v := reflect.ValueOf(m)
		a := v.MethodByName("A")
		at := a.Type()
		nargs := at.NumIn()
		if at.IsVariadic() && unroll {
			nargs = at.NumIn() + 1 // two variadic elements are always passed
		}
		anys := make([]interface{}, nargs)
		for i := range anys {
			anys[i] = mock.Anything
		}
		var fn reflect.Value
		{
			ins := make([]reflect.Type, at.NumIn())
			for i := range ins {
				ins[i] = at.In(i)
			}
			outs := make([]reflect.Type, at.NumOut())
			for i := range outs {
				outs[i] = at.Out(i)
			}
			ft := reflect.FuncOf(ins, outs, at.IsVariadic())
			fn = reflect.MakeFunc(ft, func(in []reflect.Value) []reflect.Value {
				c := 0
				if len(in) > 0 {
					var cs []int
					decode(in[0], &cs)
					if len(cs) > 0 {
						c = cs[0]
					}
				}
				res := make([]reflect.Value, len(outs))
				for i := range res {
					res[i] = encode(outs[i], c)
				}
				return res
			})
		}
		if round%2 == 0 {
			// plain testify API
			call := on.On("A", anys...).Maybe()
			if at.NumOut() > 0 {
				call.Return(fn.Interface())
			}
		} else {
			// the generated typed expecter API: EXPECT().A(...).RunAndReturn(fn) / .Run(fn).
			// Several goroutines register their expectation concurrently, and for each of them this is the FIRST
			// EXPECT() call on the fresh mock: no EXPECT() happens-before the others.
			if !v.MethodByName("EXPECT").IsValid() {
				fail(name, "testify", "broken", "mock has no EXPECT method")
				return
			}
			register := func() {
				defer func() {
					if p := recover(); p != nil {
						fail(name, "testify", "panic", "while registering through EXPECT(): "+fmt.Sprint(p))
					}
				}()
				am := v.MethodByName("EXPECT").Call(nil)[0].MethodByName("A")
				if !am.IsValid() {
					fail(name, "testify", "broken", "expecter has no A method")
					return
				}
				av := make([]reflect.Value, len(anys))
				for i := range av {
					av[i] = reflect.ValueOf(mock.Anything)
				}
				co := am.Call(av)[0]
				which := "RunAndReturn"
				if at.NumOut() == 0 {
					which = "Run"
				}
				rm := co.MethodByName(which)
				if !rm.IsValid() {
					fail(name, "testify", "broken", "typed call has no "+which)
					return
				}
				rm.Call([]reflect.Value{fn})
				co.Elem().FieldByName("Call").MethodByName("Maybe").Call(nil)
			}
			var ewg sync.WaitGroup
			var go_ int32
			for i := 0; i < 4; i++ {
				ewg.Add(1)
				go func() {
					defer ewg.Done()
					for atomic.LoadInt32(&go_) == 0 {
					}
					register()
				}()
			}
			atomic.StoreInt32(&go_, 1)
			ewg.Wait()
			stat("testify_expecter_rounds", 1)
			stat("testify_concurrent_first_expect", 4)
		}
		var wg sync.WaitGroup
		var stop int32
		var rwg sync.WaitGroup
		rwg.Add(1)
		go func() { // concurrent registration of further expectations, as testify's thread-safety contract allows
			defer rwg.Done()
			n := 0
			for atomic.LoadInt32(&stop) == 0 && n < 300 {
				if round%2 == 1 && n%2 == 0 {
					// through the generated typed helper: EXPECT().B(x).Return(0), then Maybe() on the embedded *mock.Call
					if co := v.MethodByName("EXPECT").Call(nil)[0].MethodByName("B").Call([]reflect.Value{reflect.ValueOf(-1 - n)})[0]; co.IsValid() {
						co.MethodByName("Return").Call([]reflect.Value{reflect.ValueOf(0)})
						co.Elem().FieldByName("Call").MethodByName("Maybe").Call(nil)
						stat("testify_concurrent_typed_on", 1)
					}
				} else {
					on.On("B", -1-n).Return(0).Maybe()
				}
				n++
				runtime.Gosched()
			}
			stat("testify_concurrent_on", int64(n))
		}()
		for g := 1; g <= G; g++ {
			wg.Add(1)
			go func(g int) {
				defer wg.Done()
				defer func() {
					if p := recover(); p != nil {
						fail(name, "testify", "panic", fmt.Sprint(p))
					}
				}()
				// With unrolled variadics the ELEMENTS are the call's arguments; a caller may spread a buffer it re-uses
				// (m.A(x, buf...)): the mock must not keep that buffer as its record of the call.
				reuse := at.IsVariadic() && unroll
				var buf reflect.Value
				if reuse {
					buf = reflect.MakeSlice(at.In(at.NumIn()-1), 2, 2)
				}
				for k := 0; k < K; k++ {
					c := code(g, k)
					in := make([]reflect.Value, 0, 4)
					for i := 0; i < at.NumIn(); i++ {
						if at.IsVariadic() && i == at.NumIn()-1 {
							if reuse {
								buf.Index(0).Set(encode(at.In(i).Elem(), c))
								buf.Index(1).Set(encode(at.In(i).Elem(), c))
								in = append(in, buf)
							} else {
								in = append(in, encode(at.In(i).Elem(), c), encode(at.In(i).Elem(), c))
							}
						} else {
							in = append(in, encode(at.In(i), c))
						}
					}
					var outv []reflect.Value
					if reuse {
						outv = a.CallSlice(in)
					} else {
						outv = a.Call(in)
					}
					var cs []int
					for _, o := range outv {
						decode(o, &cs)
					}
					if at.NumOut() > 0 && at.NumIn() > 0 && oneCode(cs) != c {
						fail(name, "testify", "result", map[string]interface{}{"want": c, "got": cs})
						return
					}
				}
			}(g)
		}
		wg.Wait()
		atomic.StoreInt32(&stop, 1)
		rwg.Wait()
		stat("testify_calls", int64(G*K))
		rt.mu.Lock()
		errs := append([]string(nil), rt.errs...)
		rt.mu.Unlock()
		if len(errs) > 0 {
			fail(name, "testify", "testify-fail", errs)
			continue
		}
		// mock.Mock.Calls: one entry per call, each holding the arguments of exactly one call
		callsF := v.Elem().FieldByName("Mock").FieldByName("Calls")
		seen := map[int]bool{}
		n := 0
		for i := 0; i < callsF.Len(); i++ {
			c := callsF.Index(i)
			if c.FieldByName("Method").String() != "A" {
				continue
			}
			n++
			if at.NumIn() == 0 {
				continue
			}
			var cs []int
			args := c.FieldByName("Arguments")
			for j := 0; j < args.Len(); j++ {
				decode(args.Index(j), &cs)
			}
			oc := oneCode(cs)
			if oc <= 0 {
				fail(name, "testify", "torn", map[string]interface{}{"index": i, "codes": cs})
				break
			}
			if seen[oc] {
				fail(name, "testify", "duplicated", map[string]interface{}{"code": oc})
				break
			}
			seen[oc] = true
		}
		if n != G*K {
			fail(name, "testify", "lost-or-extra", map[string]interface{}{"calls": G * K, "recorded": n})
		}
	}
}

func main() {
	var plan Plan
	b, err := os.ReadFile(os.Args[1])
	if err == nil {
		err = json.Unmarshal(b, &plan)
	}
	if err != nil {
		fmt.Fprintln(os.Stderr, err)
		os.Exit(2)
	}
	if runtime.GOMAXPROCS(0) < 4 {
		runtime.GOMAXPROCS(4)
	}
	rng := rand.New(rand.NewSource(plan.Seed))
	want := func(name string) bool {
		if len(plan.Only) == 0 {
			return true
		}
		for _, o := range plan.Only {
			if o == name || strings.HasPrefix(name, o) {
				return true
			}
		}
		return false
	}
	names := []string{}
	for k := range matryerReg {
		names = append(names, k)
	}
	sort.Strings(names)
	for _, name := range names {
		if !want(name) {
			continue
		}
		out.Targets = append(out.Targets, name)
		t := newM(name, matryerReg[name])
		t.stress(&plan, rng)
		kept := 0
		for i := 0; i < plan.Hist*8 && kept < plan.Hist; i++ {
			// the first fifth as they come, then only histories in which operations really overlapped
			if t.history(rng, kept >= plan.Hist/5) {
				kept++
			}
		}
	}
	if plan.Testify {
		names = names[:0]
		for k := range testifyReg {
			names = append(names, k)
		}
		sort.Strings(names)
		for _, name := range names {
			if !want(name) {
				continue
			}
			out.Targets = append(out.Targets, name)
			testifyStress(name, testifyReg[name], plan.Unroll[strings.SplitN(name, "/", 2)[0]], &plan)
			testifyCases(name, testifyReg[name], plan.UnrollS[strings.SplitN(name, "/", 2)[0]], plan.TCases)
		}
	}
	bb, _ := json.Marshal(out)
	if err := os.WriteFile(os.Args[2], bb, 0o644); err != nil {
		fmt.Fprintln(os.Stderr, err)
		os.Exit(2)
	}
}
