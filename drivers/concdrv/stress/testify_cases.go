// testify_cases.go -- replay of the history classes exported by spec/TestifyConcCases.tla on the freshly generated
// testify mocks, free-running under the race detector.  Each class makes testify WRITE its shared state under its
// mutex while generated code runs: limited expectations (Times(n) / Once() / Twice(): every Called() stores
// Call.Repeatability and Call.totalCalls), expectations registered / unset concurrently (ExpectedCalls is rewritten),
// variadic methods called with zero variadic arguments as well as with some, whatever the unroll-variadic setting.
// The expected outcome (records, failed calls, argument slots, what is left of the expectations) comes with the case
// from TLA+; this file only concretises and compares.
package main

import (
	"fmt"
	"reflect"
	"runtime"
	"sync"
	"sync/atomic"

	"github.com/stretchr/testify/mock"
)

type TExpect struct {
	Recorded  int   `json:"recorded"`
	Failed    int   `json:"failed"`
	Slots     int   `json:"slots"`
	Remaining []int `json:"remaining"`
	Races     int   `json:"races"`
}

type TCase struct {
	ID         string  `json:"id"`
	Exp        string  `json:"exp"`    // maybe times once twice
	Nvar       string  `json:"nvar"`   // na 0 2
	Unroll     string  `json:"unroll"` // false unset true
	Conc       string  `json:"conc"`   // none on unset assert
	G          int     `json:"g"`
	K          int     `json:"k"`
	Calls      int     `json:"calls"`
	Registered int     `json:"registered"`
	Rep        int     `json:"rep"`
	Expect     TExpect `json:"expect"`
}

// function-valued return: derives every result from the first argument (0 if there is none)
func retFn(at reflect.Type) reflect.Value {
	ins := make([]reflect.Type, at.NumIn())
	for i := range ins {
		ins[i] = at.In(i)
	}
	outs := make([]reflect.Type, at.NumOut())
	for i := range outs {
		outs[i] = at.Out(i)
	}
	return reflect.MakeFunc(reflect.FuncOf(ins, outs, at.IsVariadic()), func(in []reflect.Value) []reflect.Value {
		c := 0
		if len(in) > 0 {
			var cs []int
			decode(in[0], &cs)
			if len(cs) > 0 {
				c = cs[0]
			}
		}
		res := make([]reflect.Value, len(outs))
		for i := range res {
			res[i] = encode(outs[i], c)
		}
		return res
	})
}

type asserter interface {
	AssertNumberOfCalls(t mock.TestingT, methodName string, expectedCalls int) bool
	AssertNotCalled(t mock.TestingT, methodName string, arguments ...interface{}) bool
}

func testifyCase(name string, mk func(t tT) interface{}, c *TCase) {
	mode := "testify-case/" + c.ID
	rt := &recT{}
	m := mk(rt)
	on, ok := m.(onner)
	if !ok {
		fail(name, mode, "broken", "mock has no On method")
		return
	}
	v := reflect.ValueOf(m)
	a := v.MethodByName("A")
	at := a.Type()
	fixed := at.NumIn()
	nvar := 0
	if at.IsVariadic() {
		fixed--
		if c.Nvar == "2" {
			nvar = 2
		}
	}
	anys := make([]interface{}, fixed+c.Expect.Slots)
	for i := range anys {
		anys[i] = mock.Anything
	}
	fn := retFn(at)
	var exps []*mock.Call
	for i := 0; i < c.Registered; i++ {
		e := on.On("A", anys...)
		switch c.Exp {
		case "maybe":
			e.Maybe()
		case "times":
			e.Times(c.Rep)
		case "once":
			e.Once()
		case "twice":
			e.Twice()
		}
		if at.NumOut() > 0 {
			e.Return(fn.Interface())
		}
		exps = append(exps, e)
	}
	var wg, rwg sync.WaitGroup
	var stop int32
	if c.Conc != "none" {
		rwg.Add(1)
		go func() {
			defer rwg.Done()
			defer func() {
				if p := recover(); p != nil {
					fail(name, mode, "panic", "user goroutine ("+c.Conc+"): "+fmt.Sprint(p))
				}
			}()
			n := 0
			for atomic.LoadInt32(&stop) == 0 && n < 400 {
				switch c.Conc {
				case "on":
					on.On("B", -1-n).Return(0).Maybe()
				case "unset":
					on.On("B", -1-n).Return(0).Maybe().Unset()
				case "assert":
					if as, ok := m.(asserter); ok {
						as.AssertNotCalled(&recT{}, "B", -1-n)
						as.AssertNumberOfCalls(&recT{}, "B", 0)
					}
				}
				n++
				runtime.Gosched()
			}
			stat("testify_case_conc_"+c.Conc, int64(n))
		}()
	}
	per := c.Calls / c.G
	var go_ int32
	for g := 1; g <= c.G; g++ {
		wg.Add(1)
		go func(g int) {
			defer wg.Done()
			defer func() {
				if p := recover(); p != nil {
					fail(name, mode, "panic", fmt.Sprint(p))
				}
			}()
			for atomic.LoadInt32(&go_) == 0 {
			}
			for k := 0; k < per; k++ {
				cd := code(g, k)
				in := make([]reflect.Value, 0, 4)
				for i := 0; i < fixed; i++ {
					in = append(in, encode(at.In(i), cd))
				}
				for i := 0; i < nvar; i++ {
					in = append(in, encode(at.In(fixed).Elem(), cd))
				}
				outv := a.Call(in)
				var cs []int
				for _, o := range outv {
					decode(o, &cs)
				}
				if at.NumOut() > 0 && len(in) > 0 && oneCode(cs) != cd {
					fail(name, mode, "result", map[string]interface{}{"want": cd, "got": cs})
					return
				}
			}
		}(g)
	}
	atomic.StoreInt32(&go_, 1)
	wg.Wait()
	atomic.StoreInt32(&stop, 1)
	rwg.Wait()
	stat("testify_case_runs", 1)
	stat("testify_case_calls", int64(per*c.G))
	if at.IsVariadic() && nvar == 0 {
		stat("testify_zero_variadic_calls", int64(per*c.G))
	}
	if c.Exp != "maybe" {
		stat("testify_limited_expectation_calls", int64(per*c.G))
	}
	rt.mu.Lock()
	errs := append([]string(nil), rt.errs...)
	rt.mu.Unlock()
	failed := len(errs)
	if failed != c.Expect.Failed {
		fail(name, mode, "testify-fail", map[string]interface{}{"expected_failed_calls": c.Expect.Failed, "errors": errs})
		return
	}
	// mock.Mock.Calls: one entry per call, each with the arguments of exactly one call, in the expected number of slots
	callsF := v.Elem().FieldByName("Mock").FieldByName("Calls")
	seen := map[int]bool{}
	n := 0
	for i := 0; i < callsF.Len(); i++ {
		rc := callsF.Index(i)
		if rc.FieldByName("Method").String() != "A" {
			continue
		}
		n++
		args := rc.FieldByName("Arguments")
		if args.Len() != fixed+c.Expect.Slots {
			fail(name, mode, "slots", map[string]interface{}{"index": i, "arguments": args.Len(), "want": fixed + c.Expect.Slots})
			break
		}
		if args.Len() == 0 {
			continue
		}
		var cs []int
		for j := 0; j < args.Len(); j++ {
			decode(args.Index(j), &cs)
		}
		oc := oneCode(cs)
		if oc <= 0 {
			fail(name, mode, "torn", map[string]interface{}{"index": i, "codes": cs})
			break
		}
		if seen[oc] {
			fail(name, mode, "duplicated", map[string]interface{}{"code": oc})
			break
		}
		seen[oc] = true
	}
	if n != c.Expect.Recorded {
		fail(name, mode, "lost-or-extra", map[string]interface{}{"calls": per * c.G, "recorded": n, "want": c.Expect.Recorded})
	}
	// what is left of the expectations (all goroutines have been joined: plain reads are fine here)
	want := map[int]bool{}
	for _, r := range c.Expect.Remaining {
		want[r] = true
	}
	for _, e := range exps {
		if !want[e.Repeatability] {
			fail(name, mode, "remaining", map[string]interface{}{"repeatability": e.Repeatability, "want_one_of": c.Expect.Remaining})
			break
		}
	}
}

// testifyCases runs the cases that apply to the target (its unroll setting; "na" classes for non-variadic methods,
// "0"/"2" classes for variadic ones)
func testifyCases(name string, mk func(t tT) interface{}, unroll string, cases []TCase) {
	m := mk(&recT{})
	a := reflect.ValueOf(m).MethodByName("A")
	if !a.IsValid() {
		fail(name, "testify-case", "broken", "mock has no method A")
		return
	}
	variadic := a.Type().IsVariadic()
	for i := range cases {
		c := &cases[i]
		if c.Unroll != unroll || (c.Nvar == "na") == variadic {
			continue
		}
		testifyCase(name, mk, c)
	}
}
