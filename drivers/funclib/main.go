// Command funclib is the stdlib oracle of check C16.
//
//	funclib keys                     -> JSON list of the keys of template_funcs.FuncMap (the map under test)
//	funclib namesake in.json out.json
//
// "namesake" computes, for every case, the Go standard-library function the template function is
// documented to equal.  It deliberately does NOT go through template_funcs: the table below names the
// stdlib function directly and takes its arguments in the stdlib's own order.  Which template argument
// is the subject (and therefore moves to the front) comes from the TLA+ function table (FuncLib!Table,
// exported with each case as rot), not from this file.
package main

import (
	"encoding/hex"
	"encoding/json"
	"fmt"
	"math"
	"math/big"
	"os"
	"path/filepath"
	"regexp"
	"sort"
	"strings"

	"github.com/vektra/mockery/v3/template_funcs"
)

type arg struct {
	T string   `json:"t"`           // s | i | l | q | n (int named by its decimal text)
	N string   `json:"n,omitempty"`
	S string   `json:"s,omitempty"` // hex bytes
	I int      `json:"i,omitempty"`
	L []string `json:"l,omitempty"` // hex bytes each
}

type kase struct {
	ID   int    `json:"id"`
	Fn   string `json:"fn"`
	Args []arg  `json:"args"`
	Rot  bool   `json:"rot"`
}

type result struct {
	ID int      `json:"id"`
	T  string   `json:"t"` // s | b | i | l | f | err | none
	S  string   `json:"s,omitempty"`
	B  bool     `json:"b,omitempty"`
	I  int      `json:"i,omitempty"`
	L  []string `json:"l"`
	F  float64  `json:"f,omitempty"`
	E  string   `json:"e,omitempty"`
}

func str(a arg) string {
	b, err := hex.DecodeString(a.S)
	if err != nil {
		panic(err)
	}
	return string(b)
}

func list(a arg) []string {
	out := make([]string, 0, len(a.L))
	for _, h := range a.L {
		b, err := hex.DecodeString(h)
		if err != nil {
			panic(err)
		}
		out = append(out, string(b))
	}
	return out
}

func rs(s string) result { return result{T: "s", S: hex.EncodeToString([]byte(s))} }
func rb(b bool) result   { return result{T: "b", B: b} }
func rf(f float64) result {
	return result{T: "f", F: f}
}
func rl(l []string) result {
	out := make([]string, 0, len(l))
	for _, s := range l {
		out = append(out, hex.EncodeToString([]byte(s)))
	}
	return result{T: "l", L: out}
}

// arguments x are in the namesake's own order
var namesakes = map[string]func(x []arg) result{
	"contains":    func(x []arg) result { return rb(strings.Contains(str(x[0]), str(x[1]))) },
	"hasPrefix":   func(x []arg) result { return rb(strings.HasPrefix(str(x[0]), str(x[1]))) },
	"hasSuffix":   func(x []arg) result { return rb(strings.HasSuffix(str(x[0]), str(x[1]))) },
	"join":        func(x []arg) result { return rs(strings.Join(list(x[0]), str(x[1]))) },
	"replace":     func(x []arg) result { return rs(strings.Replace(str(x[0]), str(x[1]), str(x[2]), x[3].I)) },
	"replaceAll":  func(x []arg) result { return rs(strings.ReplaceAll(str(x[0]), str(x[1]), str(x[2]))) },
	"split":       func(x []arg) result { return rl(strings.Split(str(x[0]), str(x[1]))) },
	"splitAfter":  func(x []arg) result { return rl(strings.SplitAfter(str(x[0]), str(x[1]))) },
	"splitAfterN": func(x []arg) result { return rl(strings.SplitAfterN(str(x[0]), str(x[1]), x[2].I)) },
	"trim":        func(x []arg) result { return rs(strings.Trim(str(x[0]), str(x[1]))) },
	"trimLeft":    func(x []arg) result { return rs(strings.TrimLeft(str(x[0]), str(x[1]))) },
	"trimPrefix":  func(x []arg) result { return rs(strings.TrimPrefix(str(x[0]), str(x[1]))) },
	"trimRight":   func(x []arg) result { return rs(strings.TrimRight(str(x[0]), str(x[1]))) },
	"trimSuffix":  func(x []arg) result { return rs(strings.TrimSuffix(str(x[0]), str(x[1]))) },
	"trimSpace":   func(x []arg) result { return rs(strings.TrimSpace(str(x[0]))) },
	"lower":       func(x []arg) result { return rs(strings.ToLower(str(x[0]))) },
	"upper":       func(x []arg) result { return rs(strings.ToUpper(str(x[0]))) },
	"quoteMeta":   func(x []arg) result { return rs(regexp.QuoteMeta(str(x[0]))) },
	"matchString": func(x []arg) result {
		ok, err := regexp.MatchString(str(x[0]), str(x[1]))
		if err != nil {
			return result{T: "err", E: err.Error()}
		}
		return rb(ok)
	},
	"base":      func(x []arg) result { return rs(filepath.Base(str(x[0]))) },
	"clean":     func(x []arg) result { return rs(filepath.Clean(str(x[0]))) },
	"dir":       func(x []arg) result { return rs(filepath.Dir(str(x[0]))) },
	"expandEnv": func(x []arg) result { return rs(os.ExpandEnv(str(x[0]))) },
	"getenv":    func(x []arg) result { return rs(os.Getenv(str(x[0]))) },
	"ceil":      func(x []arg) result { return rf(math.Ceil(float64(x[0].I) / 4)) },
	"floor":     func(x []arg) result { return rf(math.Floor(float64(x[0].I) / 4)) },
	"round":     func(x []arg) result { return rf(math.Round(float64(x[0].I) / 4)) },
}

var (
	minInt64 = big.NewInt(math.MinInt64)
	maxInt64 = big.NewInt(math.MaxInt64)
)

func inRange(x *big.Int) bool { return x.Cmp(minInt64) >= 0 && x.Cmp(maxInt64) <= 0 }

// fold64 is "integer arithmetic over all the arguments": the LEFT fold ((a op b) op c) ... in exact integers.
// It is defined when every operand and every intermediate of that left fold is an int64 and no divisor is
// zero; then the int64 result is the documented value whatever order an implementation evaluates in.
func fold64(fn string, x []arg) result {
	vals := make([]*big.Int, 0, len(x))
	for _, a := range x {
		v, ok := new(big.Int).SetString(a.N, 10)
		if !ok || !inRange(v) {
			return result{T: "undef"}
		}
		vals = append(vals, v)
	}
	if len(vals) == 0 {
		return result{T: "undef"}
	}
	acc := new(big.Int).Set(vals[0])
	switch fn {
	case "incr":
		acc.Add(acc, big.NewInt(1))
	case "decr":
		acc.Sub(acc, big.NewInt(1))
	default:
		for _, v := range vals[1:] {
			switch fn {
			case "add":
				acc.Add(acc, v)
			case "sub":
				acc.Sub(acc, v)
			case "mul":
				acc.Mul(acc, v)
			case "div":
				if v.Sign() == 0 {
					return result{T: "undef"}
				}
				acc.Quo(acc, v) // truncated, like Go's /
			case "mod":
				if v.Sign() == 0 {
					return result{T: "undef"}
				}
				acc.Rem(acc, v) // truncated, like Go's %
			case "min":
				if v.Cmp(acc) < 0 {
					acc.Set(v)
				}
			default:
				return result{T: "none"}
			}
			if !inRange(acc) {
				return result{T: "undef"}
			}
		}
	}
	if !inRange(acc) {
		return result{T: "undef"}
	}
	return result{T: "i", I: int(acc.Int64())}
}

func apply(c kase) (r result) {
	defer func() {
		if p := recover(); p != nil {
			r = result{T: "err", E: fmt.Sprint(p)}
		}
		r.ID = c.ID
	}()
	for _, a := range c.Args {
		if a.T == "n" {
			return fold64(c.Fn, c.Args)
		}
	}
	f, ok := namesakes[c.Fn]
	if !ok {
		return result{T: "none"}
	}
	x := c.Args
	if c.Rot && len(x) > 0 {
		x = append([]arg{x[len(x)-1]}, x[:len(x)-1]...)
	}
	return f(x)
}

func main() {
	if len(os.Args) >= 2 && os.Args[1] == "keys" {
		keys := make([]string, 0, len(template_funcs.FuncMap))
		for k := range template_funcs.FuncMap {
			keys = append(keys, k)
		}
		sort.Strings(keys)
		_ = json.NewEncoder(os.Stdout).Encode(keys)
		return
	}
	if len(os.Args) != 4 || os.Args[1] != "namesake" {
		fmt.Fprintln(os.Stderr, "usage: funclib keys | funclib namesake in.json out.json")
		os.Exit(2)
	}
	raw, err := os.ReadFile(os.Args[2])
	if err != nil {
		fmt.Fprintln(os.Stderr, err)
		os.Exit(2)
	}
	var cases []kase
	if err := json.Unmarshal(raw, &cases); err != nil {
		fmt.Fprintln(os.Stderr, err)
		os.Exit(2)
	}
	out := make([]result, 0, len(cases))
	for _, c := range cases {
		out = append(out, apply(c))
	}
	b, err := json.Marshal(out)
	if err != nil {
		fmt.Fprintln(os.Stderr, err)
		os.Exit(2)
	}
	if err := os.WriteFile(os.Args[3], b, 0o644); err != nil {
		fmt.Fprintln(os.Stderr, err)
		os.Exit(2)
	}
}
