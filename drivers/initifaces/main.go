// Command initifaces is the independent oracle of check C18 for "all interfaces of the named package":
// it loads a package with go/packages + go/types (nothing of mockery's own discovery code) and classifies
// every package-level type name.
//
//	required  a type declared with an interface literal whose type set is a method set (types.Interface.IsMethodSet):
//	          plain, empty, generic, embedding-only (local, imported, instantiated generic), methods + embedding
//	optional  interfaces the statement leaves open: aliases of interfaces, defined types whose right-hand side is
//	          another named interface, constraint interfaces (type sets that are not method sets)
//	(everything else must not be mocked)
//
// usage: initifaces <dir> <package pattern>     -> one JSON object on stdout
//
//	initifaces <dir> <pattern> <pattern> ...  -> one JSON object, package path -> that object
package main

import (
	"encoding/json"
	"fmt"
	"go/ast"
	"go/types"
	"os"
	"path/filepath"
	"sort"

	"golang.org/x/tools/go/packages"
)

func main() {
	if len(os.Args) < 3 {
		fmt.Fprintln(os.Stderr, "usage: initifaces <dir> <pattern> [<pattern> ...]")
		os.Exit(2)
	}
	cfg := &packages.Config{Dir: os.Args[1], Mode: packages.NeedName | packages.NeedTypes | packages.NeedSyntax | packages.NeedTypesInfo | packages.NeedFiles | packages.NeedImports | packages.NeedDeps}
	pats := os.Args[2:]
	pkgs, err := packages.Load(cfg, pats...)
	if err != nil || len(pkgs) != len(pats) {
		fmt.Fprintln(os.Stderr, "load failed:", err, len(pkgs))
		os.Exit(2)
	}
	for _, p := range pkgs {
		if len(p.Errors) > 0 {
			fmt.Fprintln(os.Stderr, "load failed:", p.PkgPath, p.Errors)
			os.Exit(2)
		}
	}
	if len(pats) == 1 {
		b, _ := json.Marshal(classify(pkgs[0]))
		fmt.Println(string(b))
		return
	}
	// several packages: one object, package path -> classification (GoFiles / IgnoredFiles: base names, what the
	// toolchain compiles into the package on this host and what it leaves out)
	all := map[string]map[string][]string{}
	for _, p := range pkgs {
		all[p.PkgPath] = classify(p)
	}
	b, _ := json.Marshal(all)
	fmt.Println(string(b))
}

func classify(pkg *packages.Package) map[string][]string {
	literal := map[string]bool{}
	for _, f := range pkg.Syntax {
		for _, d := range f.Decls {
			gd, ok := d.(*ast.GenDecl)
			if !ok {
				continue
			}
			for _, s := range gd.Specs {
				if ts, ok := s.(*ast.TypeSpec); ok {
					if _, isLit := ts.Type.(*ast.InterfaceType); isLit && !ts.Assign.IsValid() {
						literal[ts.Name.Name] = true
					}
				}
			}
		}
	}
	out := map[string][]string{"required": {}, "optional": {}, "other": {}, "gofiles": {}, "ignored": {}}
	scope := pkg.Types.Scope()
	for _, name := range scope.Names() {
		tn, ok := scope.Lookup(name).(*types.TypeName)
		if !ok {
			continue
		}
		it, isIface := tn.Type().Underlying().(*types.Interface)
		switch {
		case !isIface:
			out["other"] = append(out["other"], name)
		case tn.IsAlias() || !literal[name] || !it.IsMethodSet():
			out["optional"] = append(out["optional"], name)
		default:
			out["required"] = append(out["required"], name)
		}
	}
	for _, f := range pkg.GoFiles {
		out["gofiles"] = append(out["gofiles"], filepath.Base(f))
	}
	for _, f := range pkg.IgnoredFiles {
		out["ignored"] = append(out["ignored"], filepath.Base(f))
	}
	for _, v := range out {
		sort.Strings(v)
	}
	out["package"] = []string{pkg.PkgPath}
	return out
}
