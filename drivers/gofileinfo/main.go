// Command gofileinfo projects generated Go files onto the footprint the Codegen/DataModel specifications talk
// about (C01, C02, C14).  Pure go/parser + go/ast: it never type-checks (the Go toolchain does that separately).
//
// usage: gofileinfo <list.json> <out.ndjson>
//   list.json: ["path/to/file.go", ...]
//   out: one JSON object per file:
//     {"file":..., "ok":bool, "err":..., "pkg":..., "imports":[{"name":alias-or-"", "path":...}],
//      "types":{name:count}, "typeparams":{typeName:[{"name":..,"constraint":..}]},
//      "funcs":[{"recv":"MockI","name":"M","params":[..],"results":[..],"variadic":bool}],
//      "qualifiers":[identifiers used as X in X.Sel that are not declared in the file's function scopes],
//      "exprs": for type-expression strings given via "exprs" requests: idents + qualifiers}
//
// A second mode analyses type-expression strings (C14: "does a parameter name capture a qualifier or a type
// name used in the same signature"):  gofileinfo -exprs <in.json> <out.json>
//   in: {"exprs": ["io.Reader", "map[string]T", ...], "names": ["a", "type", ...]}
//   out: {"exprs": {expr: {"ok":bool, "idents":[...], "quals":[...]}}, "names": {name: is a usable Go identifier}}
package main

import (
	"bufio"
	"encoding/json"
	"fmt"
	"go/ast"
	"go/parser"
	"go/printer"
	"go/token"
	"os"
	"sort"
	"strings"
)

type imp struct {
	Name string `json:"name"`
	Path string `json:"path"`
}

type fn struct {
	Recv     string   `json:"recv"`
	Name     string   `json:"name"`
	Params   []string `json:"params"`
	Results  []string `json:"results"`
	Variadic bool     `json:"variadic"`
}

type tparam struct {
	Name       string `json:"name"`
	Constraint string `json:"constraint"`
}

type info struct {
	File       string              `json:"file"`
	OK         bool                `json:"ok"`
	Err        string              `json:"err,omitempty"`
	Pkg        string              `json:"pkg"`
	Imports    []imp               `json:"imports"`
	Types      map[string]int      `json:"types"`
	TypeParams map[string][]tparam `json:"typeparams"`
	Funcs      []fn                `json:"funcs"`
	Qualifiers []string            `json:"qualifiers"`
	BuildTags  []string            `json:"buildtags"`
	Head       []string            `json:"head"`
}

func exprString(fset *token.FileSet, e ast.Expr) string {
	var sb strings.Builder
	_ = printer.Fprint(&sb, fset, e)
	return sb.String()
}

func recvName(e ast.Expr) string {
	for {
		switch t := e.(type) {
		case *ast.StarExpr:
			e = t.X
		case *ast.ParenExpr:
			e = t.X
		case *ast.IndexExpr:
			e = t.X
		case *ast.IndexListExpr:
			e = t.X
		case *ast.Ident:
			return t.Name
		default:
			return "?"
		}
	}
}

func fieldNames(fl *ast.FieldList) []string {
	out := []string{}
	if fl == nil {
		return out
	}
	for _, f := range fl.List {
		if len(f.Names) == 0 {
			out = append(out, "")
			continue
		}
		for _, n := range f.Names {
			out = append(out, n.Name)
		}
	}
	return out
}

func analyse(path string) info {
	in := info{File: path, Types: map[string]int{}, TypeParams: map[string][]tparam{}, Imports: []imp{}, Funcs: []fn{}, Qualifiers: []string{}}
	fset := token.NewFileSet()
	src, err := os.ReadFile(path)
	if err != nil {
		in.Err = err.Error()
		return in
	}
	lines := strings.Split(string(src), "\n")
	for i, ln := range lines {
		if strings.HasPrefix(ln, "package ") {
			break
		}
		if i < 40 {
			in.Head = append(in.Head, ln)
		}
		if strings.HasPrefix(ln, "//go:build ") {
			in.BuildTags = append(in.BuildTags, strings.TrimPrefix(ln, "//go:build "))
		}
	}
	f, err := parser.ParseFile(fset, path, src, parser.ParseComments|parser.SkipObjectResolution)
	if err != nil {
		in.Err = err.Error()
		return in
	}
	in.OK = true
	in.Pkg = f.Name.Name
	impNames := map[string]bool{}
	for _, s := range f.Imports {
		p := strings.Trim(s.Path.Value, "\"`")
		n := ""
		if s.Name != nil {
			n = s.Name.Name
		}
		in.Imports = append(in.Imports, imp{Name: n, Path: p})
		if n != "" {
			impNames[n] = true
		}
	}
	quals := map[string]bool{}
	for _, d := range f.Decls {
		switch d := d.(type) {
		case *ast.GenDecl:
			if d.Tok != token.TYPE {
				continue
			}
			for _, sp := range d.Specs {
				ts := sp.(*ast.TypeSpec)
				in.Types[ts.Name.Name]++
				if ts.TypeParams != nil {
					tps := []tparam{}
					for _, fl := range ts.TypeParams.List {
						for _, n := range fl.Names {
							tps = append(tps, tparam{Name: n.Name, Constraint: exprString(fset, fl.Type)})
						}
					}
					in.TypeParams[ts.Name.Name] = tps
				}
			}
		case *ast.FuncDecl:
			x := fn{Name: d.Name.Name, Params: fieldNames(d.Type.Params), Results: fieldNames(d.Type.Results)}
			if d.Recv != nil && len(d.Recv.List) > 0 {
				x.Recv = recvName(d.Recv.List[0].Type)
			}
			if d.Type.Params != nil && len(d.Type.Params.List) > 0 {
				if _, ok := d.Type.Params.List[len(d.Type.Params.List)-1].Type.(*ast.Ellipsis); ok {
					x.Variadic = true
				}
			}
			in.Funcs = append(in.Funcs, x)
		}
	}
	ast.Inspect(f, func(n ast.Node) bool {
		if se, ok := n.(*ast.SelectorExpr); ok {
			if id, ok := se.X.(*ast.Ident); ok {
				quals[id.Name] = true
			}
		}
		return true
	})
	for q := range quals {
		in.Qualifiers = append(in.Qualifiers, q)
	}
	sort.Strings(in.Qualifiers)
	return in
}

type exprInfo struct {
	OK     bool     `json:"ok"`
	Idents []string `json:"idents"`
	Quals  []string `json:"quals"`
}

// identifiers a type expression resolves in the enclosing scope: bare identifiers (not field/method/parameter
// names inside the expression, not selectors' Sel) and package qualifiers.
func analyseExpr(s string) exprInfo {
	s = strings.TrimSpace(s)
	if strings.HasPrefix(s, "...") {
		s = "[]" + s[3:]
	}
	e, err := parser.ParseExpr("(func(" + "_ " + s + "){})")
	if err != nil {
		return exprInfo{}
	}
	idents := map[string]bool{}
	quals := map[string]bool{}
	var walkType func(e ast.Expr)
	walkFields := func(fl *ast.FieldList) {
		if fl == nil {
			return
		}
		for _, f := range fl.List {
			walkType(f.Type)
		}
	}
	walkType = func(e ast.Expr) {
		switch t := e.(type) {
		case nil:
		case *ast.Ident:
			idents[t.Name] = true
		case *ast.SelectorExpr:
			if id, ok := t.X.(*ast.Ident); ok {
				quals[id.Name] = true
			}
		case *ast.StarExpr:
			walkType(t.X)
		case *ast.ParenExpr:
			walkType(t.X)
		case *ast.ArrayType:
			walkType(t.Elt)
		case *ast.Ellipsis:
			walkType(t.Elt)
		case *ast.MapType:
			walkType(t.Key)
			walkType(t.Value)
		case *ast.ChanType:
			walkType(t.Value)
		case *ast.FuncType:
			walkFields(t.Params)
			walkFields(t.Results)
		case *ast.StructType:
			walkFields(t.Fields)
		case *ast.InterfaceType:
			if t.Methods != nil {
				for _, f := range t.Methods.List {
					walkType(f.Type)
				}
			}
		case *ast.IndexExpr:
			walkType(t.X)
			walkType(t.Index)
		case *ast.IndexListExpr:
			walkType(t.X)
			for _, i := range t.Indices {
				walkType(i)
			}
		case *ast.UnaryExpr:
			walkType(t.X)
		case *ast.BinaryExpr:
			walkType(t.X)
			walkType(t.Y)
		}
	}
	fl := e.(*ast.ParenExpr).X.(*ast.FuncLit)
	walkType(fl.Type.Params.List[0].Type)
	out := exprInfo{OK: true, Idents: []string{}, Quals: []string{}}
	for k := range idents {
		out.Idents = append(out.Idents, k)
	}
	for k := range quals {
		out.Quals = append(out.Quals, k)
	}
	sort.Strings(out.Idents)
	sort.Strings(out.Quals)
	return out
}

func main() {
	if len(os.Args) == 4 && os.Args[1] == "-exprs" {
		b, err := os.ReadFile(os.Args[2])
		if err != nil {
			panic(err)
		}
		var in struct {
			Exprs []string `json:"exprs"`
			Names []string `json:"names"`
		}
		if err := json.Unmarshal(b, &in); err != nil {
			panic(err)
		}
		out := struct {
			Exprs map[string]exprInfo `json:"exprs"`
			Names map[string]bool     `json:"names"`
		}{map[string]exprInfo{}, map[string]bool{}}
		for _, s := range in.Exprs {
			out.Exprs[s] = analyseExpr(s)
		}
		for _, n := range in.Names {
			out.Names[n] = token.IsIdentifier(n) && n != "_"
		}
		ob, _ := json.Marshal(out)
		if err := os.WriteFile(os.Args[3], ob, 0o644); err != nil {
			panic(err)
		}
		return
	}
	if len(os.Args) != 3 {
		fmt.Fprintln(os.Stderr, "usage: gofileinfo <list.json> <out.ndjson> | gofileinfo -exprs <in.json> <out.json>")
		os.Exit(2)
	}
	b, err := os.ReadFile(os.Args[1])
	if err != nil {
		panic(err)
	}
	var files []string
	if err := json.Unmarshal(b, &files); err != nil {
		panic(err)
	}
	f, err := os.Create(os.Args[2])
	if err != nil {
		panic(err)
	}
	w := bufio.NewWriter(f)
	enc := json.NewEncoder(w)
	for _, p := range files {
		if err := enc.Encode(analyse(p)); err != nil {
			panic(err)
		}
	}
	w.Flush()
	f.Close()
}
