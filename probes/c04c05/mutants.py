#!/usr/bin/env python3
"""dev-only: apply one named mutant to a scratch copy of /repo and run a check against it."""
import subprocess, sys, os, shutil
T = "internal/mock_matryer.templ"
M = "template/method.go"
REC = """	mock.lock{{.Name}}.Lock()
	mock.calls.{{.Name}} = append(mock.calls.{{.Name}}, callInfo)
	mock.lock{{.Name}}.Unlock()
{{- if .Returns}}"""
MUT = {
 "append_after_forward": [(T, REC, """	defer func() {
	mock.lock{{.Name}}.Lock()
	mock.calls.{{.Name}} = append(mock.calls.{{.Name}}, callInfo)
	mock.lock{{.Name}}.Unlock()
	}()
{{- if .Returns}}""")],
 "swap_same_typed_args": [(M, """	params := make([]string, len(paramsSlice))
	for i, p := range paramsSlice {
		params[i] = p.CallName(ellipsis)
	}""", """	params := make([]string, len(paramsSlice))
	for i, p := range paramsSlice {
		params[i] = p.CallName(ellipsis)
	}
	if len(params) == 3 && paramsSlice[1].TypeString() == paramsSlice[2].TypeString() && !paramsSlice[2].Variadic {
		params[1], params[2] = params[2], params[1]
	}""")],
 "record_fields_transposed": [(T, """		{{- range .Params}}
		{{.Name | exported}}: {{.Name}},
		{{- end}}
	}
	mock.lock""", """		{{- range $pi, $p := .Params}}
		{{.Name | exported}}: {{ if and (eq (len $.Params) 99) false }}{{end}}{{.Name}},
		{{- end}}
	}
	mock.lock""")],
 "record_fields_transposed2": [(T, """		{{- range .Params}}
		{{.Name | exported}}: {{.Name}},
		{{- end}}
	}
	mock.lock""", """		{{- $ps := .Params}}
		{{- range $pi, $p := .Params}}
		{{$p.Name | exported}}: {{ if and (eq (len $ps) 3) (eq $pi 1) (eq (index $ps 1).TypeString (index $ps 2).TypeString) }}{{(index $ps 2).Name}}{{ else if and (eq (len $ps) 3) (eq $pi 2) (eq (index $ps 1).TypeString (index $ps 2).TypeString) }}{{(index $ps 1).Name}}{{else}}{{$p.Name}}{{end}},
		{{- end}}
	}
	mock.lock""")],
 "lock_held_during_forward": [(T, REC, """	mock.lock{{.Name}}.Lock()
	defer mock.lock{{.Name}}.Unlock()
	mock.calls.{{.Name}} = append(mock.calls.{{.Name}}, callInfo)
{{- if .Returns}}""")],
 "resetcalls_skips_middle": [(T, """	{{- range .Methods}}
	mock.lock{{.Name}}.Lock()
	mock.calls.{{.Name}} = nil
	mock.lock{{.Name}}.Unlock()
	{{end -}}""", """	{{- range $mi, $mm := .Methods}}
	{{- if ne $mi 1}}
	mock.lock{{.Name}}.Lock()
	mock.calls.{{.Name}} = nil
	mock.lock{{.Name}}.Unlock()
	{{- end}}
	{{end -}}""")],
 "resetm_also_resets_neighbour": [(T, """func (mock *{{$mock.StructName}}{{ $mock.TypeInstantiation }}) Reset{{.Name}}Calls() {
	mock.lock{{.Name}}.Lock()
	mock.calls.{{.Name}} = nil
	mock.lock{{.Name}}.Unlock()""", """func (mock *{{$mock.StructName}}{{ $mock.TypeInstantiation }}) Reset{{.Name}}Calls() {
	mock.lock{{.Name}}.Lock()
	mock.calls.{{.Name}} = nil
	mock.lock{{.Name}}.Unlock()
	{{- if eq .Name (index $mock.Methods 0).Name}}
	mock.calls.{{(index $mock.Methods 1).Name}} = nil
	{{- end}}""")],
 "stub_chan_result_made": [(T, """		{{- range .Returns}}
			{{.Name}} {{.TypeString}}
		{{- end}}
		)
		return {{.ReturnArgNameList}}""", """		{{- range .Returns}}
			{{.Name}} {{.TypeString}}{{if hasPrefix "chan " .TypeString}} = make({{.TypeString}}){{end}}
		{{- end}}
		)
		return {{.ReturnArgNameList}}""")],
 "resetcalls_skips_last": [(T, """func (mock *{{$mock.StructName}}{{ $mock.TypeInstantiation }}) ResetCalls() {
	{{- range .Methods}}""", """func (mock *{{$mock.StructName}}{{ $mock.TypeInstantiation }}) ResetCalls() {
	{{- range (slice .Methods 0 (len .Methods | add -1))}}""")],
 "stub_drops_record": [(T, """	callInfo := struct {""", """{{- if (index $mock.TemplateData "stub-impl") }}
	if mock.{{.Name}}Func == nil {
		{{- if .Returns}}
		var (
		{{- range .Returns}}
			{{.Name}} {{.TypeString}}
		{{- end}}
		)
		return {{.ReturnArgNameList}}
		{{- else}}
		return
		{{- end}}
	}
{{- end}}
	callInfo := struct {""")],
 "stub_noreturn_check_dropped": [(T, """{{- else}}
	{{- if (index $mock.TemplateData "stub-impl") }}
	if mock.{{.Name}}Func == nil {
		return
	}
	{{- end}}""", """{{- else}}""")],
 "panic_msg_not_naming_func": [(T, """panic("{{$mock.StructName}}.{{.Name}}Func: method is nil but""", """panic("{{$mock.StructName}}.{{.Name}}: function is nil but""")],
 "nil_check_removed": [(T, """{{- if not (index $mock.TemplateData "stub-impl") }}
	if mock.{{.Name}}Func == nil {
		panic(""", """{{- if false }}
	if mock.{{.Name}}Func == nil {
		panic(""")],
 "resetm_resets_all": [(T, """	mock.lock{{.Name}}.Lock()
	mock.calls.{{.Name}} = nil
	mock.lock{{.Name}}.Unlock()
}
{{end}}
{{end -}}""", """	mock.lock{{.Name}}.Lock()
	mock.calls.{{.Name}} = nil
	mock.lock{{.Name}}.Unlock()
	{{- range $mock.Methods}}
	mock.calls.{{.Name}} = nil
	{{- end}}
}
{{end}}
{{end -}}""")],
 "variadic_any_without_ellipsis": [("template/param_data.go", """	if ellipsis && p.Variadic {""", """	if ellipsis && p.Variadic && p.TypeString() != "[]interface{}" {""")],
 "calls_returns_all_but_first_when_3": [(T, """	calls = mock.calls.{{.Name}}
	mock.lock{{.Name}}.RUnlock()""", """	calls = mock.calls.{{.Name}}
	if len(calls) == 3 {
		calls = calls[1:]
	}
	mock.lock{{.Name}}.RUnlock()""")],
 "double_forward_noreturn": [(T, """	mock.{{.Name}}Func({{.ArgCallList}})
{{- end}}
}""", """	mock.{{.Name}}Func({{.ArgCallList}})
	mock.{{.Name}}Func({{.ArgCallList}})
{{- end}}
}""")],
 "reset_keeps_capacity_bug": [(T, """	mock.lock{{.Name}}.Lock()
	mock.calls.{{.Name}} = nil
	mock.lock{{.Name}}.Unlock()
}
{{end}}
{{end -}}""", """	mock.lock{{.Name}}.Lock()
	if len(mock.calls.{{.Name}}) > 1 {
		mock.calls.{{.Name}} = mock.calls.{{.Name}}[:1]
	} else {
		mock.calls.{{.Name}} = nil
	}
	mock.lock{{.Name}}.Unlock()
}
{{end}}
{{end -}}""")],
 # ---- C05
 "c5_lock_removed_call": [(T, REC, """	mock.calls.{{.Name}} = append(mock.calls.{{.Name}}, callInfo)
{{- if .Returns}}""")],
 "c5_rlock_in_recording": [(T, REC, """	mock.lock{{.Name}}.RLock()
	mock.calls.{{.Name}} = append(mock.calls.{{.Name}}, callInfo)
	mock.lock{{.Name}}.RUnlock()
{{- if .Returns}}""")],
 "c5_unlock_before_append": [(T, REC, """	mock.lock{{.Name}}.Lock()
	mock.lock{{.Name}}.Unlock()
	mock.calls.{{.Name}} = append(mock.calls.{{.Name}}, callInfo)
{{- if .Returns}}""")],
 "c5_resetm_without_lock": [(T, """func (mock *{{$mock.StructName}}{{ $mock.TypeInstantiation }}) Reset{{.Name}}Calls() {
	mock.lock{{.Name}}.Lock()
	mock.calls.{{.Name}} = nil
	mock.lock{{.Name}}.Unlock()""", """func (mock *{{$mock.StructName}}{{ $mock.TypeInstantiation }}) Reset{{.Name}}Calls() {
	mock.calls.{{.Name}} = nil""")],
 "c5_resetall_without_lock": [(T, """	{{- range .Methods}}
	mock.lock{{.Name}}.Lock()
	mock.calls.{{.Name}} = nil
	mock.lock{{.Name}}.Unlock()
	{{end -}}""", """	{{- range .Methods}}
	mock.calls.{{.Name}} = nil
	{{end -}}""")],
 "c5_calls_without_rlock": [(T, """	mock.lock{{.Name}}.RLock()
	calls = mock.calls.{{.Name}}
	mock.lock{{.Name}}.RUnlock()""", """	calls = mock.calls.{{.Name}}""")],
 "c5_calls_wrong_mutex": [(T, """	mock.lock{{.Name}}.RLock()
	calls = mock.calls.{{.Name}}
	mock.lock{{.Name}}.RUnlock()""", """	mock.lock{{(index $mock.Methods 0).Name}}.RLock()
	calls = mock.calls.{{.Name}}
	mock.lock{{(index $mock.Methods 0).Name}}.RUnlock()""")],
 "c5_testify_pkg_counter": [("internal/mock_testify.templ", """{{/* CREATE CONSTRUCTOR */}}""", """var mockCallCount int

{{/* CREATE CONSTRUCTOR */}}"""), ("internal/mock_testify.templ", """	{{- $calledString := "" }}""", """	mockCallCount++
	{{- $calledString := "" }}""")],
 "c5_testify_struct_scratch": [("internal/mock_testify.templ", """	mock.Mock
}

type {{.StructName}}_Expecter""", """	mock.Mock
	lastMethod string
}

type {{.StructName}}_Expecter"""), ("internal/mock_testify.templ", """	{{- $calledString := "" }}""", """	_mock.lastMethod = "{{$method.Name}}"
	{{- $calledString := "" }}""")],
 "c5_resetall_early_unlock_last": [(T, """	{{- range .Methods}}
	mock.lock{{.Name}}.Lock()
	mock.calls.{{.Name}} = nil
	mock.lock{{.Name}}.Unlock()
	{{end -}}""", """	{{- range $mi, $mm := .Methods}}
	mock.lock{{.Name}}.Lock()
	{{- if eq $mi 1}}
	mock.lock{{.Name}}.Unlock()
	mock.calls.{{.Name}} = nil
	{{- else}}
	mock.calls.{{.Name}} = nil
	mock.lock{{.Name}}.Unlock()
	{{- end}}
	{{end -}}""")],
 "c5_reset_truncates": [(T, """	mock.lock{{.Name}}.Lock()
	mock.calls.{{.Name}} = nil
	mock.lock{{.Name}}.Unlock()
}
{{end}}
{{end -}}""", """	mock.lock{{.Name}}.Lock()
	mock.calls.{{.Name}} = mock.calls.{{.Name}}[:0]
	mock.lock{{.Name}}.Unlock()
}
{{end}}
{{end -}}""")],
 "c5_trylock_drops": [(T, REC, """	if mock.lock{{.Name}}.TryLock() {
	mock.calls.{{.Name}} = append(mock.calls.{{.Name}}, callInfo)
	mock.lock{{.Name}}.Unlock()
	}
{{- if .Returns}}""")],
 "c5_testify_run_shared_scratch": [("internal/mock_testify.templ", """{{/* CREATE CONSTRUCTOR */}}""", """var lastRunArgs mock.Arguments

{{/* CREATE CONSTRUCTOR */}}"""), ("internal/mock_testify.templ", """	_c.Call.Run(func(args mock.Arguments) {""", """	_c.Call.Run(func(args mock.Arguments) {
		lastRunArgs = args""")],
 "c5_testify_ctor_registry": [("internal/mock_testify.templ", """{{/* CREATE CONSTRUCTOR */}}""", """var liveMocks []interface{}

{{/* CREATE CONSTRUCTOR */}}"""), ("internal/mock_testify.templ", """	mock.Mock.Test(t)
""", """	mock.Mock.Test(t)
	liveMocks = append(liveMocks, mock)
""")],
 # legitimate for C05 (must PASS C05)
 "c5ok_defer_unlock": [(T, REC, """	func() {
	mock.lock{{.Name}}.Lock()
	defer mock.lock{{.Name}}.Unlock()
	mock.calls.{{.Name}} = append(mock.calls.{{.Name}}, callInfo)
	}()
{{- if .Returns}}""")],
 "c5ok_calls_copy": [(T, """	mock.lock{{.Name}}.RLock()
	calls = mock.calls.{{.Name}}
	mock.lock{{.Name}}.RUnlock()""", """	mock.lock{{.Name}}.RLock()
	calls = append(calls, mock.calls.{{.Name}}...)
	mock.lock{{.Name}}.RUnlock()""")],
 "c5ok_write_lock_in_calls": [(T, """	mock.lock{{.Name}}.RLock()
	calls = mock.calls.{{.Name}}
	mock.lock{{.Name}}.RUnlock()""", """	mock.lock{{.Name}}.Lock()
	calls = mock.calls.{{.Name}}
	mock.lock{{.Name}}.Unlock()""")],
 # legitimate refactors: must PASS
 "refactor_rename_fields": [(T, "{{.Name | exported}}", "P{{.Name | exported}}")],
 "refactor_record_on_nil_panic": [(T, """{{- if not (index $mock.TemplateData "stub-impl") }}
	if mock.{{.Name}}Func == nil {
		panic("{{$mock.StructName}}.{{.Name}}Func: method is nil but {{$mock.Name}}.{{.Name}} was just called")
	}
{{- end}}
	callInfo := struct {""", """	callInfo := struct {"""), (T, """	mock.lock{{.Name}}.Unlock()
{{- if .Returns}}""", """	mock.lock{{.Name}}.Unlock()
{{- if not (index $mock.TemplateData "stub-impl") }}
	if mock.{{.Name}}Func == nil {
		panic("nil {{.Name}}Func on {{$mock.StructName}}")
	}
{{- end}}
{{- if .Returns}}""")],
}
def main():
    name, prop = sys.argv[1], sys.argv[2]
    tier = sys.argv[3] if len(sys.argv) > 3 else "quick"
    d = "/tmp/c04c05-mut/" + name.replace(":", "_")
    shutil.rmtree(d, ignore_errors=True)
    subprocess.run(["rsync", "-a", "/repo/", d + "/"], check=True)
    if name.startswith("revert:"):
        sha = name.split(":")[1]
        diff = subprocess.run(["git", "-C", d, "show", sha], capture_output=True, text=True, check=True).stdout
        r = subprocess.run(["git", "-C", d, "apply", "-R", "--exclude=*_test.go"], input=diff, capture_output=True, text=True)
        if r.returncode != 0:
            print("REVERT DOES NOT APPLY", r.stderr[-300:]); sys.exit(9)
    elif name != "none":
        for f, old, new in MUT[name]:
            p = os.path.join(d, f)
            s = open(p).read()
            if s.count(old) < 1:
                print("MUTANT DOES NOT APPLY", name, f); sys.exit(9)
            s = s.replace(old, new)
            open(p, "w").write(s)
    env = dict(os.environ, VERIF_REPO=d)
    r = subprocess.run(["bin/check", prop, tier] + sys.argv[4:], cwd="/verif", env=env, capture_output=True, text=True)
    out = (r.stdout + r.stderr)
    lines = [l for l in out.splitlines() if l.startswith(("VIOLATION", "  sig", "C0", "KNOWN"))]
    print("=== %s: exit %d" % (name, r.returncode))
    for l in lines[:3] + lines[-2:]:
        print("   ", l[:330])
    shutil.rmtree(d, ignore_errors=True)
main()
