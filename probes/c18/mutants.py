#!/usr/bin/env python3
"""Self-test for C18/C19: apply small source mutations to a scratch copy of /repo and run the check.
usage: probes/c18/mutants.py C18|C19 [name ...]      (never touches /repo)"""
import os, re, shutil, subprocess, sys, tempfile

INIT = "internal/cmd/init.go"
MIG = "internal/cmd/migrate.go"
CONF = "config/config.go"

def sub(path, old, new, count=1):
    def f(root):
        p = os.path.join(root, path)
        s = open(p).read()
        if old not in s:
            raise SystemExit(f"mutant pattern not found in {path}: {old[:60]}")
        open(p, "w").write(s.replace(old, new, count))
    return f

def multi(*fs):
    def f(root):
        for g in fs:
            g(root)
    return f

M18 = {
    "identity": (lambda root: None, 0),
    "otrunc": (sub(INIT, "os.O_RDWR | os.O_CREATE | os.O_EXCL", "os.O_RDWR | os.O_CREATE | os.O_TRUNC"), 1),
    "noexcl": (sub(INIT, "os.O_RDWR | os.O_CREATE | os.O_EXCL", "os.O_RDWR | os.O_CREATE"), 1),
    "overwrite-empty": (sub(INIT, "\toutFile := pathlib.NewPath(filename)\n",
                            "\toutFile := pathlib.NewPath(filename)\n\tif st, serr := os.Stat(filename); serr == nil && st.Size() == 0 {\n\t\t_ = os.Remove(filename)\n\t}\n"), 1),
    "exit0-on-failure": (sub(INIT, 'log.Err(err).Msg("failed to open file")\n\t\tos.Exit(1)', 'log.Err(err).Msg("failed to open file")\n\t\tos.Exit(0)'), 1),
    "unquoted": (multi(sub(INIT, "\trootConf.Packages = map[string]*config.PackageConfig{\n\t\tmoduleName: {\n\t\t\tConfig: &config.Config{\n\t\t\t\tAll: addr(true),\n\t\t\t},\n\t\t\tInterfaces: map[string]*config.InterfaceConfig{},\n\t\t},\n\t}\n",
                           "\trootConf.Packages = nil\n"),
                       sub(INIT, "\tif err := encoder.Encode(rootConf); err != nil {\n\t\tlog.Err(err).Msg(\"failed to encode\")\n\t\tos.Exit(1)\n\t}\n",
                           "\tif err := encoder.Encode(&rootConf.Config); err != nil {\n\t\tlog.Err(err).Msg(\"failed to encode\")\n\t\tos.Exit(1)\n\t}\n\tencoder.Close()\n\tfmt.Fprintf(f, \"packages:\\n  %s:\\n    config:\\n      all: true\\n\", moduleName)\n")), 1),
    "trimspace": (multi(sub(INIT, "\tmoduleName := args[0]\n", "\tmoduleName := strings.TrimSpace(args[0])\n"),
                        sub(INIT, '\t"os"\n', '\t"os"\n\t"strings"\n')), 1),
    "basename": (multi(sub(INIT, "\toutFile := pathlib.NewPath(filename)\n", "\toutFile := pathlib.NewPath(filepath.Base(filename))\n"),
                       sub(INIT, '\t"os"\n', '\t"os"\n\t"path/filepath"\n')), 1),
    "all-false-when-dotless": (multi(sub(INIT, "All: addr(true),", "All: addr(strings.Contains(moduleName, \".\")),"),
                                     sub(INIT, '\t"os"\n', '\t"os"\n\t"strings"\n')), 1),
    "own-default": (sub(INIT, "\trootConf.Packages = map", "\tif len(moduleName) > 20 {\n\t\trootConf.Formatter = addr(\"gofmt\")\n\t}\n\trootConf.Packages = map"), 1),
    "loader-default-diverges": (sub(CONF, "\tk, err := NewDefaultKoanf(ctx)\n\tif err != nil {\n\t\treturn nil, nil, err\n\t}\n\tvar rootConfig",
                                    "\tk, err := NewDefaultKoanf(ctx)\n\tif err != nil {\n\t\treturn nil, nil, err\n\t}\n\t_ = k.Set(\"force-file-write\", true)\n\tvar rootConfig"), 0),
    # ---- hardening round (self-directed)
    "loglevel-flag-leaks": (sub(INIT, "\trootConf.Packages = map", "\tif lv, lerr := params.GetString(\"log-level\"); lerr == nil && lv != \"\" {\n\t\trootConf.LogLevel = &lv\n\t}\n\trootConf.Packages = map"), 1),
    "find-config-cwd-only": (sub("internal/config/config.go", "\t\tcurrentPath = currentPath.Parent()\n", "\t\tbreak\n"), 1),
    "pipe-opened-for-writing": (sub(INIT, "\tf, err := outFile.OpenFile(os.O_RDWR | os.O_CREATE | os.O_EXCL)\n",
                                    "\tflags := os.O_RDWR | os.O_CREATE | os.O_EXCL\n\tif st, serr := os.Lstat(filename); serr == nil && st.Mode()&os.ModeNamedPipe != 0 {\n\t\tflags = os.O_WRONLY\n\t}\n\tf, err := outFile.OpenFile(flags)\n"), 1),
    "args-checked-after-create": (multi(sub(INIT, "\t\tArgs:  cobra.ExactArgs(1),\n", "\t\tArgs:  cobra.ArbitraryArgs,\n"),
                                        sub(INIT, "\tmoduleName := args[0]\n", "\tmoduleName := \"\"\n\tif len(args) > 0 {\n\t\tmoduleName = args[0]\n\t}\n"),
                                        sub(INIT, "\tdefer f.Close()\n", "\tdefer f.Close()\n\tif len(args) != 1 {\n\t\tlog.Error().Msg(\"init takes exactly one package\")\n\t\tos.Exit(1)\n\t}\n")), 1),
    "schema-word-package-dropped": (sub(INIT, "\trootConf.Packages = map", "\tif moduleName == \"packages\" || moduleName == \"config\" {\n\t\tmoduleName = \"./\" + moduleName\n\t}\n\trootConf.Packages = map"), 1),
    "env-leaks-into-written-defaults": (sub(INIT, "\trootConf.Packages = map", "\tif v := os.Getenv(\"MOCKERY_LOG_LEVEL\"); v != \"\" {\n\t\trootConf.LogLevel = &v\n\t}\n\trootConf.Packages = map"), 1),
    # explicit Lstat check followed by a non-exclusive create: sequentially equivalent, but two concurrent
    # inits both succeed (check-then-act race) -- caught only by the concurrent histories
    "racy-lstat-check": (sub(INIT, "\tf, err := outFile.OpenFile(os.O_RDWR | os.O_CREATE | os.O_EXCL)\n",
                                "\tif _, serr := os.Lstat(filename); serr == nil {\n\t\tlog.Error().Msg(\"config file already exists\")\n\t\tos.Exit(1)\n\t}\n\tf, err := outFile.OpenFile(os.O_RDWR | os.O_CREATE | os.O_TRUNC)\n"), 1),
    # legitimate refactor: a friendlier message from an Lstat check, the exclusive create kept -- must NOT be flagged
    "refactor-lstat-message-keep-excl": (sub(INIT, "\tf, err := outFile.OpenFile(os.O_RDWR | os.O_CREATE | os.O_EXCL)\n",
                                "\tif _, serr := os.Lstat(filename); serr == nil {\n\t\tlog.Error().Msg(\"config file already exists\")\n\t\tos.Exit(1)\n\t}\n\tf, err := outFile.OpenFile(os.O_RDWR | os.O_CREATE | os.O_EXCL)\n"), 0),
    "refactor-mkdirall": (multi(sub(INIT, "\tf, err := outFile.OpenFile(os.O_RDWR | os.O_CREATE | os.O_EXCL)\n",
                                    "\t_ = os.MkdirAll(filepath.Dir(filename), 0o755)\n\tf, err := outFile.OpenFile(os.O_RDWR | os.O_CREATE | os.O_EXCL)\n"),
                                sub(INIT, '\t"os"\n', '\t"os"\n\t"path/filepath"\n')), 0),
}

M19 = {
    "identity": (lambda root: None, 0),
    "drop-include-regex": (sub(MIG, "\tv3.IncludeInterfaceRegex = v2Config.IncludeRegex\n", ""), 1),
    "drop-false-unroll": (sub(MIG, "\tif v2Config.UnrollVariadic != nil {", "\tif v2Config.UnrollVariadic != nil && *v2Config.UnrollVariadic {"), 1),
    "entries-into-iface-config": (sub(MIG, "migrateConfig(ifaceCtx, tbl, &v2SubConfig, &v3SubConfig)", "migrateConfig(ifaceCtx, tbl, &v2SubConfig, &v3InterfaceConfig.Config)"), 1),
    "only-first-entry": (sub(MIG, "\t\t\t\tmigrateConfig(ifaceCtx, tbl, &v2SubConfig, &v3SubConfig)\n", "\t\t\t\tmigrateConfig(ifaceCtx, tbl, &v2SubConfig, &v3SubConfig)\n\t\t\t\tbreak\n"), 1),
    "rewrite-input": (sub(MIG, "\tvar v3 config.RootConfig\n", "\tif b, rerr := confPath.ReadFile(); rerr == nil {\n\t\t_ = confPath.WriteFile(append(b, []byte(\"\\n# migrated\\n\")...))\n\t}\n\tvar v3 config.RootConfig\n"), 1),
    "crosswire-pkgname": (sub(MIG, "\tv3.PkgName = v2Config.Outpkg\n", "\tv3.PkgName = v2Config.MockName\n"), 1),
    "shared-entry-pointer": (multi(sub(MIG, "\t\t\tfor _, v2SubConfig := range interfaceConfig.Configs {\n\t\t\t\tv3SubConfig := &config.Config{}\n",
                                       "\t\t\tv3SubConfig := &config.Config{}\n\t\t\tfor _, v2SubConfig := range interfaceConfig.Configs {\n")), 1),
    "no-trunc": (sub(MIG, "os.O_CREATE | os.O_RDWR | os.O_TRUNC", "os.O_CREATE | os.O_RDWR"), 1),
    "nil-deref-null-config": (sub(MIG, "\t\t\tmigrateConfig(ifaceCtx, tbl, interfaceConfig.Config, &v3InterfaceConfig.Config)\n",
                                  "\t\t\tif interfaceConfig.Config.All != nil {\n\t\t\t\tifaceLog.Debug().Msg(\"all set\")\n\t\t\t}\n\t\t\tmigrateConfig(ifaceCtx, tbl, interfaceConfig.Config, &v3InterfaceConfig.Config)\n"), 1),
    "template-only-with-packages": (sub(MIG, "\tv3Config.Template = addr(\"testify\")\n", "\tif len(v2.Packages) > 0 {\n\t\tv3Config.Template = addr(\"testify\")\n\t}\n"), 1),
    "trim-dir": (multi(sub(MIG, "\tv3.Dir = v2Config.Dir\n", "\tif v2Config.Dir != nil {\n\t\tv3.Dir = addr(strings.TrimSpace(*v2Config.Dir))\n\t}\n")), 1),
    "exclude-first-only": (sub(MIG, "\tv3.ExcludeSubpkgRegex = v2Config.Exclude\n", "\tif len(v2Config.Exclude) > 0 {\n\t\tv3.ExcludeSubpkgRegex = v2Config.Exclude[:1]\n\t}\n"), 1),
    "invented-value": (sub(MIG, "\tv3.Config = *v3Config\n", "\tv3Config.ForceFileWrite = addr(true)\n\tv3.Config = *v3Config\n"), 1),
    "iface-tags-dropped-when-pkg-sets-them": (multi(
        sub(MIG, "func migrateConfig(\n", "var seenMockBuildTags int\n\nfunc migrateConfig(\n"),
        sub(MIG, "\tif v2Config.MockBuildTags != nil {\n", "\tif v2Config.MockBuildTags != nil {\n\t\tseenMockBuildTags++\n\t}\n\tif v2Config.MockBuildTags != nil && seenMockBuildTags < 3 {\n")), 1),
    "recursive-only-at-package-level": (sub(MIG, "\tv3.Recursive = v2Config.Recursive\n", "\tif v2Config.Recursive != nil && (*v2Config.Recursive || v2Config.All != nil) {\n\t\tv3.Recursive = v2Config.Recursive\n\t}\n"), 1),
    # lenient decoding is not forbidden by the statement (only "never crashes on a decodable v2 file")
    "legit-accepts-unknown-keys": (sub(MIG, "\tdecoder.KnownFields(true)\n", "\tdecoder.KnownFields(false)\n"), 0),
    "lowercase-iface-names": (sub(MIG, "v3PkgConfig.Interfaces[interfaceName] = &v3InterfaceConfig", "v3PkgConfig.Interfaces[strings.TrimSpace(interfaceName)] = &v3InterfaceConfig"), 1),
    # ---- hardening round (self-directed)
    "reject-aliases": (multi(sub(MIG, "\tdecoder := yaml.NewDecoder(f)\n", "\tif raw, rerr := confPath.ReadFile(); rerr == nil {\n\t\tvar probe yaml.Node\n\t\tif yaml.Unmarshal(raw, &probe) == nil && hasAlias(&probe) {\n\t\t\treturn fmt.Errorf(\"YAML aliases are not supported\")\n\t\t}\n\t}\n\tdecoder := yaml.NewDecoder(f)\n"),
                             sub(MIG, "type V2RootConfig struct {", "func hasAlias(n *yaml.Node) bool {\n\tif n.Kind == yaml.AliasNode {\n\t\treturn true\n\t}\n\tfor _, c := range n.Content {\n\t\tif hasAlias(c) {\n\t\t\treturn true\n\t\t}\n\t}\n\treturn false\n}\n\ntype V2RootConfig struct {")), 1),
    "yaml11-booleans-refused": (multi(sub(MIG, "\tdecoder := yaml.NewDecoder(f)\n", "\tif raw, rerr := confPath.ReadFile(); rerr == nil {\n\t\tvar probe yaml.Node\n\t\tif yaml.Unmarshal(raw, &probe) == nil && hasOldBool(&probe) {\n\t\t\treturn fmt.Errorf(\"ambiguous boolean, write true or false\")\n\t\t}\n\t}\n\tdecoder := yaml.NewDecoder(f)\n"),
                             sub(MIG, "type V2RootConfig struct {", "func hasOldBool(n *yaml.Node) bool {\n\tif n.Kind == yaml.ScalarNode && n.Style == 0 {\n\t\tswitch strings.ToLower(n.Value) {\n\t\tcase \"yes\", \"no\", \"on\", \"off\":\n\t\t\treturn true\n\t\t}\n\t}\n\tfor _, c := range n.Content {\n\t\tif hasOldBool(c) {\n\t\t\treturn true\n\t\t}\n\t}\n\treturn false\n}\n\ntype V2RootConfig struct {")), 1),
    "numeric-mockname-dropped": (multi(sub(MIG, "\tv3.StructName = v2Config.MockName\n", "\tif v2Config.MockName != nil {\n\t\tif _, perr := strconv.ParseFloat(*v2Config.MockName, 64); perr != nil {\n\t\t\tv3.StructName = v2Config.MockName\n\t\t}\n\t}\n"),
                                       sub(MIG, '\t"reflect"\n', '\t"reflect"\n\t"strconv"\n')), 1),
    "outfile-same-as-input-refused": (sub(MIG, "\toutFile := pathlib.NewPath(v3ConfPath)\n", "\toutFile := pathlib.NewPath(v3ConfPath)\n\tif outFile.String() == confPath.String() {\n\t\treturn fmt.Errorf(\"--outfile names the v2 config itself\")\n\t}\n"), 0),
    "clean-dir": (multi(sub(MIG, "\tv3.Dir = v2Config.Dir\n", "\tif v2Config.Dir != nil {\n\t\tv3.Dir = addr(filepath.Clean(*v2Config.Dir))\n\t}\n"),
                        sub(MIG, '\t"os"\n', '\t"os"\n\t"path/filepath"\n')), 1),
    "lowercase-outpkg": (sub(MIG, "\tv3.PkgName = v2Config.Outpkg\n", "\tif v2Config.Outpkg != nil {\n\t\tv3.PkgName = addr(strings.ToLower(*v2Config.Outpkg))\n\t}\n"), 1),
    "outfile-next-to-config": (sub(MIG, "\toutFile := pathlib.NewPath(v3ConfPath)\n", "\toutFile := pathlib.NewPath(v3ConfPath)\n\tif !outFile.IsAbsolute() {\n\t\toutFile = confPath.Parent().Join(v3ConfPath)\n\t}\n"), 1),
    # legitimate changes: must NOT be flagged
    "legit-drop-with-expecter": (sub(MIG, "\t\tv3.TemplateData[\"with-expecter\"] = *v2Config.WithExpecter\n", ""), 0),
    "legit-carry-filename": (sub(MIG, "\tv3.Dir = v2Config.Dir\n", "\tv3.Dir = v2Config.Dir\n\tv3.FileName = v2Config.FileName\n"), 0),
    "legit-empty-config-sections": (sub(MIG, "\t\tv3PkgConfig := &config.PackageConfig{}\n", "\t\tv3PkgConfig := &config.PackageConfig{Config: &config.Config{}}\n"), 0),
}

def main():
    prop = sys.argv[1]
    table = M18 if prop == "C18" else M19
    names = sys.argv[2:] or list(table)
    tier = os.environ.get("MUT_TIER", "quick")
    res = {}
    for n in names:
        fn, want = table[n]
        d = tempfile.mkdtemp(prefix=f"mut-{prop}-{n}-")
        try:
            subprocess.run(["rsync", "-a", "--exclude", ".git", "/repo/", d + "/"], check=True)
            fn(d)
            b = subprocess.run(["go", "build", "-o", "/dev/null", "."], cwd=d, capture_output=True, text=True,
                               env=dict(os.environ, GOPROXY="off", GOFLAGS=""))
            if b.returncode != 0:
                res[n] = "DOES NOT COMPILE: " + b.stderr[-300:]
                print(n, res[n], flush=True)
                continue
            p = subprocess.run(["bin/check", prop, tier, "--seed", os.environ.get("MUT_SEED", "1")], cwd="/verif",
                               env=dict(os.environ, VERIF_REPO=d), capture_output=True, text=True)
            sigs = [l.strip()[:230] for l in p.stdout.splitlines() if l.strip().startswith("sig:")][:3]
            ok = (p.returncode == 1) == (want == 1) and p.returncode in (0, 1)
            res[n] = f"exit={p.returncode} want={want} {'OK' if ok else 'MISSED/WRONG'}"
            print(n, res[n], flush=True)
            for s_ in sigs:
                print("    ", s_, flush=True)
            if p.returncode == 2:
                print("    ", p.stderr[-400:], flush=True)
        finally:
            shutil.rmtree(d, ignore_errors=True)
    bad = [n for n, v in res.items() if "OK" not in v]
    print("SUMMARY", prop, f"{len(res) - len(bad)}/{len(res)} as expected", "bad:", bad)

if __name__ == "__main__":
    main()
