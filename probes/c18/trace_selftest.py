#!/usr/bin/env python3
"""Binding self-test for C18: a real op log is accepted by InitCmdTrace.tla; each single-field corruption
(and a dropped event) is rejected."""
import copy, os, sys
sys.path.insert(0, "/verif/lib"); sys.path.insert(0, "/verif/checks")
import vlib, c18

ctx = vlib.Ctx("C18", "quick", 1)
run = c18.Runner(ctx)
(ctx.scratch / "worlds").mkdir()
case = {"world": "m_true", "cfg": "default", "start": "absent",
        "ops": [{"op": "init", "pkg": "root"}, {"op": "load", "pkg": "root"}, {"op": "run", "pkg": "root"},
                {"op": "init", "pkg": "sub"}, {"op": "load", "pkg": "root"}]}
evs, obs = c18.replay_case(ctx, run, 0, case)
ok, r = ctx.validate_trace("InitCmdTraceMC", "InitCmdTrace.cfg", evs)
print("real op log accepted:", ok, r.consumed)
assert ok

def variant(name, f):
    e = copy.deepcopy(evs)
    e2 = f(e)
    e = e2 if isinstance(e2, list) else e
    ok, r = ctx.validate_trace("InitCmdTraceMC", "InitCmdTrace.cfg", e)
    print(f"{name:45s} accepted={ok} consumed={r.consumed}")
    assert not ok, name

def setf(i, k, v):
    def f(e):
        e[i][k] = v
    return f

variant("init exit 0 -> 1", setf(1, "exit", 1))
variant("init after == before (nothing created)", lambda e: (e[1].update(after=e[1]["before"], created=False)))
variant("load keys altered", setf(2, "keys", ["True"]))
variant("independent reader keys altered", setf(2, "fkeys", [True and "true "]))
variant("all: false", setf(2, "all", "false"))
variant("stated formatter differs", lambda e: e[2]["top"].update(formatter='"gofmt"'))
variant("stated key missing", lambda e: e[2]["top"].pop("filename"))
variant("undocumented extra top-level value", lambda e: e[2]["top"].update({"build-tags": '"x"'}))
variant("effective default differs", lambda e: e[2]["eff"].update({"force-file-write": "true"}))
variant("run mocked one interface less", lambda e: e[3].update(mocked=e[3]["mocked"][:-1]))
variant("run failed", setf(3, "exit", 1))
variant("second init succeeded", setf(4, "exit", 0))
variant("second init changed the file", lambda e: (e[4].update(after="file:0000000000000000"), e[5].update(before="file:0000000000000000", after="file:0000000000000000")))
variant("first init event dropped", lambda e: e[:1] + e[2:])
# concurrent inits: a real race log is accepted; two winners / a survivor that is not the winner's are rejected
revs, rob = c18.race_case(ctx, run, 1, 5, 0)
ok, r = ctx.validate_trace("InitCmdTraceMC", "InitCmdTrace.cfg", revs)
print("real race log accepted:", ok, rob["exits"])
assert ok
for name, f in (("two winners", lambda e: e[1].update(oks=2, winner="-")),
                ("no winner", lambda e: e[1].update(oks=0, winner="-")),
                ("survivor is not the winner's file", lambda e: e[2].update(keys=["example.com/w/someone-else"], fkeys=["example.com/w/someone-else"]))):
    e = copy.deepcopy(revs); f(e)
    ok, r = ctx.validate_trace("InitCmdTraceMC", "InitCmdTrace.cfg", e)
    print(f"{name:45s} accepted={ok}")
    assert not ok, name
print("all corruptions rejected")
ctx.cleanup()
