#!/usr/bin/env python3
"""Binding self-test for C19: the op log of a real migrate + showconfig is accepted by MigrateTrace.tla;
each single-field corruption (and a dropped event) is rejected."""
import copy, json, sys
sys.path.insert(0, "/verif/lib"); sys.path.insert(0, "/verif/checks")
import vlib, c19

ctx = vlib.Ctx("C19", "quick", 1)
run = c19.Runner(ctx)
(ctx.scratch / "cases").mkdir()
Q = json.dumps
v2 = {"top": {"all": "true", "mockname": Q("M@top"), "with-expecter": "true", "quiet": "false"},
      "pkgA": {"dir": Q("d@pkgA"), "unroll-variadic": "false"},
      "ifaceI": {"exclude": Q(["x", "y: z"])}, "e1": {"mockname": Q("One")}, "e2": {"mockname": Q("Two"), "mock-build-tags": Q("a || b")},
      "ifaceJ": {}, "pkgB": {"recursive": "true"}}
case = {"fam": "single", "shape": "full", "vi": 1, "nm": {"id": "-", "pos": "pkg"}, "bad": "none", "v2": v2, "ok": True,
        "lay": {"cwd": "sibling", "cfg": "rel", "out": "samebase", "stale": True}, "outloc": "cwd:<input base name>"}
evs, ob = c19.replay_case(ctx, run, 0, case, style="yaml")
print(ob["argv"], "cwd", ob["cwd"], "changed", ob["migrate"]["changed"])
print(ob["v3_text"])

def check(e):
    ok, r = ctx.validate_trace("MigrateTrace", "MigrateTrace.cfg", e)
    return ok, r.consumed

ok, cons = check(evs)
print("real op log accepted:", ok, cons)
assert ok and len(evs) == 3

def variant(name, f):
    e = copy.deepcopy(evs)
    e2 = f(e)
    e = e2 if isinstance(e2, list) else e
    ok, cons = check(e)
    print(f"{name:55s} accepted={ok}")
    assert not ok, name

variant("migrate exit 1", lambda e: e[1].update(exit=1))
variant("migrate panicked", lambda e: e[1].update(panic=True))
variant("input hash changed", lambda e: e[1].update(in_after="deadbeef"))
variant("nothing written", lambda e: e[1].update(wrote=False))
variant("written next to the v2 file instead", lambda e: e[1].update(changed=["other:legacy/.mockery.yaml.v3"]))
variant("input overwritten as well", lambda e: e[1].update(changed=["input"] + e[1]["changed"]))
variant("a second file touched", lambda e: e[1].update(changed=e[1]["changed"] + ["other:proj/x"]))
variant("structname at top has another value", lambda e: e[1]["v3"]["top"].update(structname=Q("X")))
variant("structname missing at e2", lambda e: e[1]["v3"]["e2"].pop("structname") and None)
variant("unroll-variadic moved from pkgA to top", lambda e: (e[1]["v3"]["top"].update({"template-data.unroll-variadic": e[1]["v3"]["pkgA"].pop("template-data.unroll-variadic")})))
variant("second entry lost", lambda e: e[1]["v3"].pop("e2") and None)
variant("interface renamed", lambda e: e[1]["v3"].update({"?iface:'iface'": e[1]["v3"].pop("ifaceI")}))
variant("invented value at pkgB", lambda e: e[1]["v3"]["pkgB"].update({"force-file-write": "true"}))
variant("template choice missing", lambda e: e[1]["v3"]["top"].pop("template") and None)
variant("loader rejected the file", lambda e: e[2].update(exit=1))
variant("loaded value differs", lambda e: e[2]["eff"]["e1"].update(structname=Q("Two")))
variant("loaded package missing", lambda e: e[2]["eff"].pop("pkgB") and None)
variant("v2 had one more mapped setting than v3 shows", lambda e: e[0]["v2"]["ifaceJ"].update({"log-level": Q("debug")}))
print("all corruptions rejected")
ctx.cleanup()
