#!/usr/bin/env python3
"""development aid: validate recorded hook traces (ndjson files, one run each) with lib/runtrace.py
usage: probes/root/devtrace.py <trace.ndjson>:<exit status> [...]   [--selftest]"""
import json, os, sys
sys.path.insert(0, os.path.join(os.path.dirname(os.path.abspath(__file__)), "..", "..", "lib"))
import vlib, runtrace


class R:
    def __init__(self, trace, code):
        self.trace, self.code, self.timed_out = trace, code, False


def main():
    ctx = vlib.Ctx("ROOT", "quick", 1)
    runs = []
    st = False
    for a in sys.argv[1:]:
        if a == "--selftest":
            st = True
            continue
        p, c = a.rsplit(":", 1)
        runs.append(R([json.loads(x) for x in open(p) if x.strip()], int(c)))
    rej = runtrace.validate_runs(ctx, runs)
    print("validated", rej.validated, "states", rej.tlc_states, "drift", rej.drift)
    for r in rej:
        print("REJECT run", r["index"], "at", r["at"], r["why"], r["props"], r["event"])
    if st:
        for k, v in runtrace.selftest(ctx, runs[0]).items():
            print("  corrupt", k, "->", v)


main()
