#!/bin/sh
# development aid: run TLC on a root-spec module in a scratch copy of /verif/spec
# usage: [TMO=seconds] [TRACE_FILE=x.ndjson] probes/root/devtlc.sh <Module> <cfg> [workers] [extra tlc args...]
set -u
mod="$1"; cfg="$2"; w="${3:-8}"
[ $# -ge 3 ] && shift 3 || shift 2
d=$(mktemp -d /tmp/rtlc-XXXXXX)
cp /verif/spec/*.tla "$d"/
cp /verif/spec/cfg/"$cfg" "$d"/
[ -n "${TRACE_FILE:-}" ] && cp "$TRACE_FILE" "$d"/trace.ndjson
cd "$d" || exit 2
JAVA_TOOL_OPTIONS="-Xss64m" timeout "${TMO:-600}" java -XX:+UseParallelGC -cp /opt/veriftools/tla/tla2tools.jar:/opt/veriftools/tla/CommunityModules-deps.jar tlc2.TLC \
  -workers "$w" -metadir "$d/meta" -config "$cfg" "$@" "$mod.tla" > "$d/raw.txt" 2>&1
echo "tlc exit: $?   output: $d/raw.txt"
grep -v "^Parsing\|^Semantic\|^Linting\|^Picked up" "$d/raw.txt" | grep -v '^<<"CASE"' | tail -${TAIL:-60}
rm -rf "$d/meta"
