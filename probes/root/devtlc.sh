#!/bin/sh
# development aid: run TLC on a root-spec module in a scratch copy of /verif/spec
# usage: probes/root/devtlc.sh <Module> <cfg> [workers] [extra tlc args...]
set -u
mod="$1"; cfg="$2"; w="${3:-8}"
[ $# -ge 3 ] && shift 3 || shift 2
d=$(mktemp -d /tmp/root-tlc-XXXXXX)
cp /verif/spec/*.tla "$d"/
cp /verif/spec/cfg/"$cfg" "$d"/
[ -n "${TRACE_FILE:-}" ] && cp "$TRACE_FILE" "$d"/trace.ndjson
cd "$d" || exit 2
JAVA_TOOL_OPTIONS="-Xss64m" tlc -workers "$w" -metadir "$d/meta" -config "$cfg" "$@" "$mod.tla" 2>&1 \
  | grep -v "^Parsing\|^Semantic\|^Linting\|^Picked up" > "$d/out.txt"
echo "output: $d/out.txt"
grep -v '^<<"CASE"' "$d/out.txt" | tail -${TAIL:-60}
rm -rf "$d/meta"
