#!/usr/bin/env python3
"""Calibration aid (development, not a registered check): run OTHER property checks in-process with their run functions
wrapped, collect the hook trace of every `mockery` run they make, and validate all of them with lib/runtrace.py.
Nothing of those checks is edited; their verdicts are ignored here.  Every real trace must be accepted.

usage: probes/root/calibrate_others.py c09 c10 c07 ...   [--tier quick]"""
import importlib
import json
import os
import sys
import threading
import time

HERE = os.path.dirname(os.path.abspath(__file__))
sys.path.insert(0, os.path.join(HERE, "..", "..", "lib"))
sys.path.insert(0, os.path.join(HERE, "..", "..", "checks"))
import pipetrace  # noqa: E402
import runtrace  # noqa: E402
import vlib  # noqa: E402

captured = []
lock = threading.Lock()


def wrap(fn):
    def inner(*a, **kw):
        r = fn(*a, **kw)
        if getattr(r, "trace", None):
            with lock:
                captured.append(r)
        return r
    return inner


def main():
    ids = [a for a in sys.argv[1:] if not a.startswith("--")]
    tier = "quick"
    if "--tier" in sys.argv:
        tier = sys.argv[sys.argv.index("--tier") + 1]
    # every check builds one vlib.RunResult per run of the binary, whichever helper it uses
    orig_init = vlib.RunResult.__init__

    def init(self, *a, **kw):
        orig_init(self, *a, **kw)
        if self.trace:
            with lock:
                captured.append(self)
    vlib.RunResult.__init__ = init
    total = {}
    for cid in ids:
        n0 = len(captured)
        t0 = time.time()
        ctx = vlib.Ctx(cid.upper(), tier, 1)
        ctx.replay = None
        try:
            mod = importlib.import_module(cid)
            for name in dir(mod):                       # modules that did `from pipetrace import run`
                if getattr(mod, name, None) is getattr(pipetrace, "_orig_run", object()):
                    pass
            mod.run(ctx)
        except BaseException as e:  # noqa: BLE001
            print(f"{cid}: stopped with {type(e).__name__}: {str(e)[:200]}")
        total[cid] = len(captured) - n0
        print(f"{cid}: {total[cid]} runs captured in {time.time() - t0:.0f}s", flush=True)
    ctx = vlib.Ctx("ROOT", "quick", 1)
    rej = runtrace.validate_runs(ctx, captured)
    print("validated", rej.validated, "tlc states", rej.tlc_states)
    dr = {}
    for d in rej.drift:
        for w in d["why"]:
            dr[w] = dr.get(w, 0) + 1
    print("drift", dr)
    seen = {}
    for x in rej:
        k = tuple(x["why"])
        seen[k] = seen.get(k, 0) + 1
        if seen[k] <= 2:
            print("REJECT", x["why"], x["props"], "at", x["at"], x["event"])
            for e in x["events"][max(1, x["at"] - 12): x["at"] + 1]:
                print("    ", json.dumps({k2: v for k2, v in e.items() if k2 not in ("run", "psegs", "ssegs", "fsegs", "dsegs", "fnsegs")}))
    print("rejections by clause set:", {", ".join(k): v for k, v in seen.items()})


main()
