#!/usr/bin/env python3
"""Mutation self-test for the ROOT check (development aid, not a registered check; never touches /repo).

usage: python3 probes/root/mut.py <mutant[,mutant...]|all> [seed]

Needs a scratch copy of the repository:   rsync -a /repo/ /tmp/root-mut/
For every named mutant: restore the copy from /repo, apply the mutant (string edits), run
`VERIF_REPO=/tmp/root-mut bin/check ROOT quick --seed N` with the evidence redirected, print the exit status and the
violation kinds.  `none` is the unchanged tree and must exit 0.
"""
import json
import os
import subprocess
import sys
import time

MUT = os.environ.get("ROOT_MUT_DIR", "/tmp/root-mut")
M = MUT + "/internal/cmd/mockery.go"
S = MUT + "/internal/cmd/showconfig.go"
C = MUT + "/config/config.go"
L = MUT + "/internal/logging/logging.go"


def sub(path, old, new, count=1):
    s = open(path).read()
    assert old in s, (path, old)
    open(path, "w").write(s.replace(old, new, count))


MUTANTS = {}


def mutant(fn):
    MUTANTS[fn.__name__] = fn
    return fn


@mutant
def none():
    pass


@mutant
def collect_keyed_by_filename_only():
    # the collection map is keyed by the file NAME: same-named files of different directories fall into one collection
    sub(M, "_, ok := mockFileToInterfaces[filePath.String()]", "_, ok := mockFileToInterfaces[filePath.Name()]")
    sub(M, "mockFileToInterfaces[filePath.String()] = NewInterfaceCollection(", "mockFileToInterfaces[filePath.Name()] = NewInterfaceCollection(")
    sub(M, "if err := mockFileToInterfaces[filePath.String()].Append(", "if err := mockFileToInterfaces[filePath.Name()].Append(")
    sub(M, "\tif collectionFilepath != interfaceFilepath {", "\tif false && collectionFilepath != interfaceFilepath {")
    sub(M, "\tif i.srcPkgPath != iface.Pkg.PkgPath {", "\tif false && i.srcPkgPath != iface.Pkg.PkgPath {")
    sub(M, "\tfor outFilePath, interfacesInFile := range mockFileToInterfaces {",
        "\tfor _, interfacesInFile := range mockFileToInterfaces {\n\t\toutFilePath := interfacesInFile.outFilePath.String()")


@mutant
def struct_from_interface_level():
    # an entry of `configs` takes its struct name from the interface-level config
    sub(C, "\t\t\tmergeConfigs(ctx, *c.Config, subCfg)\n", "\t\t\tmergeConfigs(ctx, *c.Config, subCfg)\n\t\t\tsubCfg.StructName = c.Config.StructName\n")


@mutant
def write_uncollected_file():
    # a stamp file next to every mock file: a write for a path nothing was collected for
    sub(M, "\t\tverifhook.Emit(\"Write\", \"file\", outFilePath, \"bytes\", len(templateBytes))\n",
        "\t\tverifhook.Emit(\"Write\", \"file\", outFilePath, \"bytes\", len(templateBytes))\n"
        "\t\t_ = outFile.Parent().Join(\".mockery-stamp\").WriteFile([]byte(\"generated\\n\"))\n")


@mutant
def select_ignores_exclude():
    sub(C, "\tif excludedByRegex {\n\t\tlog.Debug().Msg(\"interface matches exclude-interface-regex\")\n\t\treturn false, nil\n\t}",
        "\tif excludedByRegex {\n\t\tlog.Debug().Msg(\"interface matches exclude-interface-regex\")\n\t}")


@mutant
def inject_from_root_instead_of_parent():
    sub(C, "\t\t\tmergeConfigs(pkgCtx, *parentPkgConfig.Config, subPkgConfig.Config)", "\t\t\tmergeConfigs(pkgCtx, c.Config, subPkgConfig.Config)")


@mutant
def recursive_shallowest_first():
    # the repaired defect D1 again: nested recursive packages expanded shallowest first
    sub(C, "\t\t\treturn len(recursivePackages[i]) > len(recursivePackages[j])", "\t\t\treturn len(recursivePackages[i]) < len(recursivePackages[j])")


@mutant
def second_init_drops_discovered_packages():
    # Run() forgets the discovered packages before it initializes again (they are found again: same result, other path)
    sub(M, "\tif err := r.Config.Initialize(ctx); err != nil {\n\t\treturn err\n\t}\n",
        "\tfor k, p := range r.Config.Packages {\n\t\tif p != nil && len(p.Interfaces) == 0 && p.Config != nil && p.Config.Recursive != nil && *p.Config.Recursive {\n"
        "\t\t\tif _, top := r.Config.Packages[k[:strings.LastIndex(k, \"/\")]]; top {\n\t\t\t\tdelete(r.Config.Packages, k)\n\t\t\t}\n\t\t}\n\t}\n"
        "\tif err := r.Config.Initialize(ctx); err != nil {\n\t\treturn err\n\t}\n")


@mutant
def exit0_with_unwritten_file():
    # an existing file without force-file-write is skipped silently
    sub(M, "\t\t\tfileLog.Error().Bool(\"force-file-write\", *interfacesInFile.config.ForceFileWrite).Msg(\"output file exists, can't write mocks\")\n\t\t\treturn fmt.Errorf(\"outfile exists\")",
        "\t\t\tfileLog.Error().Bool(\"force-file-write\", *interfacesInFile.config.ForceFileWrite).Msg(\"output file exists, can't write mocks\")\n\t\t\tcontinue")


@mutant
def showconfig_hides_discovered_packages():
    sub(S, "\t\t\tk := koanf.New(\"|\")\n",
        "\t\t\tfor name, p := range conf.Packages {\n\t\t\t\tif p != nil && len(p.Interfaces) == 0 {\n\t\t\t\t\tdelete(conf.Packages, name)\n\t\t\t\t}\n\t\t\t}\n\t\t\tk := koanf.New(\"|\")\n")


@mutant
def debug_level_leaves_a_log_file():
    sub(M, "\tlog.Info().Str(\"config-file\", r.Config.ConfigFileUsed().String()).Msgf(\"Starting mockery\")\n",
        "\tlog.Info().Str(\"config-file\", r.Config.ConfigFileUsed().String()).Msgf(\"Starting mockery\")\n"
        "\tif *r.Config.LogLevel == \"debug\" {\n\t\t_ = os.WriteFile(\"mockery-debug.log\", []byte(\"debug\\n\"), 0o644)\n\t}\n")


@mutant
def unknown_flags_ignored():
    sub(M, "\t\tShort: \"Generate mock objects for your Go interfaces\",\n",
        "\t\tShort: \"Generate mock objects for your Go interfaces\",\n\t\tFParseErrWhitelist: cobra.FParseErrWhitelist{UnknownFlags: true},\n")
    sub(M, "\t\t\tif err := pFlags.Parse(args); err != nil {", "\t\t\tpFlags.ParseErrorsWhitelist.UnknownFlags = true\n\t\t\tif err := pFlags.Parse(args); err != nil {")


@mutant
def env_overrides_config_file():
    # MOCKERY_* loaded AFTER the config file
    s = open(C).read()
    a = s.index("\tif err := k.Load(\n\t\tenv.ProviderWithValue(")
    b = s.index("\tif err := k.Load(file.Provider(configFile.String()), koanfYAML.Parser()); err != nil {")
    c = s.index("\tif flags != nil {\n\t\tif err := k.Load(posflag.Provider(flags, \".\", k), nil); err != nil {")
    envblock, fileblock = s[a:b], s[b:c]
    open(C, "w").write(s[:a] + fileblock + envblock + s[c:])


@mutant
def output_path_not_cleaned():
    sub(C, "\treturn pathlib.NewPath(*c.Dir).Join(*c.FileName).Clean()", "\treturn pathlib.NewPath(*c.Dir + \"/\" + *c.FileName)")
    sub(M, "\t\t\tfilePath := ifaceConfig.FilePath().Clean()", "\t\t\tfilePath := ifaceConfig.FilePath()")


@mutant
def missing_interfaces_not_fatal():
    sub(M, "\tif foundMissing {\n\t\tverifhook.Emit(\"Exit\", \"code\", 1, \"err\", \"interface not found in source\")\n\t\tos.Exit(1)\n\t}\n", "\t_ = foundMissing\n")


@mutant
def revert_container_rule():
    # b2c99c5 undone: a recursive package without Go files of its own is loaded again (and fails the run)
    sub(C, "\t\tif _, isContainer := c.containers[key]; isContainer {\n\t\t\tcontinue\n\t\t}\n", "")


@mutant
def container_without_recursion_too():
    # every configured package without Go files is skipped at load, recursive or not (a missing package goes unnoticed)
    sub(C, "\t\tif _, isContainer := c.containers[key]; isContainer {\n\t\t\tcontinue\n\t\t}\n",
        "\t\tif _, isContainer := c.containers[key]; isContainer || strings.HasSuffix(key, \"/w/a\") && len(c.Packages) > 1 {\n\t\t\tcontinue\n\t\t}\n")


def restore():
    subprocess.run(["rsync", "-a", "--delete", "--exclude", ".git", "/repo/", MUT + "/"], check=True)


def main():
    names = sys.argv[1].split(",") if len(sys.argv) > 1 else ["all"]
    if names == ["all"]:
        names = list(MUTANTS)
    seed = sys.argv[2] if len(sys.argv) > 2 else "1"
    evid = "/tmp/root-mut-evidence"
    verif = os.path.dirname(os.path.dirname(os.path.dirname(os.path.abspath(__file__))))
    summary = []
    for n in names:
        restore()
        MUTANTS[n]()
        b = subprocess.run(["go", "build", "-tags", "verif", "-o", "/dev/null", "."], cwd=MUT, capture_output=True, text=True,
                           env=dict(os.environ, GOPROXY="off", GOFLAGS=""))
        if b.returncode != 0:
            print(f"== {n}: DOES NOT COMPILE\n{b.stderr[-600:]}")
            summary.append((n, "nocompile", []))
            continue
        subprocess.run(["git", "-C", MUT, "status", "--short"], capture_output=True)
        t = time.time()
        env = dict(os.environ, VERIF_REPO=MUT, VERIF_EVIDENCE_DIR=evid)
        p = subprocess.run(["bin/check", "ROOT", "quick", "--seed", seed], cwd=verif, env=env, capture_output=True, text=True)
        kinds = {}
        for ln in p.stdout.splitlines():
            if ln.strip().startswith("sig:"):
                sig = json.loads(ln.split("sig:", 1)[1])
                k = sig.get("kind") + (":" + sig["why"] if "why" in sig else "")
                kinds[k] = kinds.get(k, 0) + 1
        print(f"== {n}: exit {p.returncode} in {time.time() - t:.0f}s  {kinds}")
        if p.returncode == 2:
            print((p.stderr or p.stdout)[-800:])
        summary.append((n, p.returncode, sorted(kinds)))
    restore()
    print("\nSUMMARY")
    for n, code, kinds in summary:
        print(f"  {n:45s} exit={code}  {', '.join(kinds)[:200]}")


main()
