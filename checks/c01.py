#!/usr/bin/env python3
"""C01 -- every file mockery writes is valid Go in its destination package.

1. TLC enumerates the program space (spec/Sig.tla + Codegen.tla + CodegenMC.tla: type shapes x adversarial
   identifiers x colliding packages x embeddings x generics) and runs the code-shaped allocator model over every
   program x template x in/out-of-package; the footprint invariants (ImportsBijective, EveryReferencedPackageImported,
   NoSelfImportWhenInPackage, DeclaredEqualsUsed, ParamNamesDistinctValidUncaptured) are checked on every final state.
   It exports, per program, the contract's expectation (in-guarantee => exit 0 and type-checks) and the predicted
   imports / parameter names / issue tags.  spec/CodegenCfg.tla enumerates template x options x formatter x
   placement x go.mod spelling with the contract's in-package flag.
2. A stratified, pairwise-covering sample of program x configuration is materialised (one package per case), run
   through the mockery binary built from the working tree, and the Go toolchain (go build + go vet over the scratch
   modules) decides the property on every written file.  Predicted-vs-measured footprint differences are drift.

COVERAGE TABLE (statement clause / quantifier dimension -> where it is explored -> what is still a point or absent)
  type shapes          Shape: 15 constructors x 37 leaves exhaustively at depth 1, curated + (thorough) full depth 2, -simulate depth 3 / 4
                       methods (CodegenSim.tla); aliases incl. ones whose target the destination cannot name.  ABSENT: cgo types,
                       type-parameterised methods' receivers (not Go), struct embedding of pointers, >1 method in anonymous interfaces.
  identifiers          Ident: 125 names x 8 positions (params, variadic, results, pairs), case clashes, GENERATED names (Unnamed, GenPre:
                       21 named types whose de-capitalised name is predeclared), blank `_` params AND results.  POINT: non-ASCII = 3 names.
  packages             Pkgs: ordered pairs/triples of 10 packages whose names collide, x 6 names of the package under test; path shapes:
                       name != last element (q/v2), dots+dash+version suffix (gopkg.in/go-dash.v3), internal/; packages OUTSIDE the module
                       (Ext: stdlib io / fmt configured directly).  ABSENT: other modules (module cache), vendor/, `main` as source, cgo.
  source file          import spelling alias / natural / dot-import (per program), several interfaces per package, function-local decls
                       (C02 discovery).  ABSENT: several source FILES per package, build-tagged files, _test.go sources.
  interfaces           Embed: local/foreign/stdlib/instantiated/overlapping/depth 3 + universe `error` / `any`; Generic: 9 single + 22
                       multi-element constraints (orders, nested named, plain foreign terms, tilde composites), recursive constraint,
                       result-only type parameters, 1-2 type parameters, named instantiations; Multi: 5-7 interfaces in ONE file.
                       ABSENT: generated helper TYPE names colliding across interfaces (A + B_C vs A_B + C), structname colliding with a
                       source type in-package (both arguably the user's naming), > 2 type parameters.
  templates x options  both templates x every documented option, each written at package level, interface level (flip-all) or mixed
                       within one file (flip-first / flip-rest) -- CodegenCfg.tla, 13,200 configurations, pairwise-covered.
                       POINT: boilerplate-file / mock-build-tags only as on/off (C17 owns their content).
  variadic forwarding  Variadic family: 34 element types + 21 type-parameter programs = every class of Sig.tla VariadicElemClass (any,
                       interface{}, alias of any local/foreign, DEFINED empty interface local/foreign, non-empty interfaces, type
                       parameter under any / comparable / core type / union / named / literal / renamed-empty constraints, basic, named,
                       alias, ptr, slice, array, map, chan, func, struct, instantiated) x 0/1/2 parameters before the variadic, each
                       executed with testify + EFFECTIVE unroll-variadic true (written at package or interface level), testify
                       without it (false / unset) and matryer; guards on class x position.  Quick: placement seeded; thorough: x in/out.
  formatters           goimports / gofmt / noop in the pairwise cover (80% without import repair).
  placements           same package (non-test / _test file), external _test package, sub directory (other name / same name).
                       ABSENT: output dir spelled with `..` or symlinks (aa6ab7f class), two output files with different pkgnames in one
                       directory (the toolchain rejects the directory: outside "type-checks together with the package it is written into").
  go.mod spellings     plain / quoted / tab / comment / block.  ABSENT: nested modules, go.work, replace directives.
  history              second generation over the existing output, half of it with the OTHER template into the same file; two more
                       regenerations of same-named-package cases with byte comparison.  ABSENT: stale/broken previous output, concurrent runs.
"""
import concurrent.futures
import json
import os
import sys

sys.path.insert(0, os.path.join(os.path.dirname(__file__), "..", "lib"))
from vlib import MachineryError, main  # noqa: E402
import codegen_worlds as cw  # noqa: E402

IMPORTANT = ("tpllocal", "predeclared", "pkgname", "localtype", "caseclash", "tparam-lower")


def slots_for(ctx, tier):
    def f(prog):
        flip = ctx.rng.random() < 0.5
        if prog.get("extpkg"):
            return [("testify", False), ("matryer", False), ("matryer", False)]
        if tier == "thorough":
            return [("testify", True), ("testify", False), ("matryer", True), ("matryer", False), ("testify", None), ("matryer", None)]
        if prog["fam"] == "multi":        # 5-7 interfaces per file: two slots, the placement flips with the seed
            return [("testify", flip), ("matryer", not flip), ("matryer", flip)]
        if prog["fam"] in ("pkgs", "generic", "mname", "local", "unnamed") or prog["idclass"] in ("typename", "caseclash"):
            return [("testify", True), ("testify", False), ("matryer", True), ("matryer", False)]
        return [("testify", flip), ("matryer", not flip)]
    return f


def variadic_pairs(ctx, sp, vpids, tier, prefer):
    """The Variadic family (CodegenMC.tla) x template x EFFECTIVE unroll-variadic (CodegenCfg.tla predkey.unroll: the value
    may be written at package level, at interface level, or overridden) x in/out of package.  Every program is executed with
    testify + unroll-variadic effectively TRUE (the non-default branch, which forwards the variadic slice), with testify without it
    and with matryer; the placement is seeded in the quick tier, the thorough tier runs the full product."""
    rng = ctx.rng
    by = {}
    for c in sp.cfgs:
        g = c["cfg"]
        unroll = bool(c["expect"]["predkey"]["unroll"]) if g["tmpl"] == "testify" else False
        by.setdefault((g["tmpl"], unroll, bool(c["expect"]["inpkg"])), []).append(c)
    full = [("testify", True, True), ("testify", True, False), ("testify", False, True), ("testify", False, False),
            ("matryer", False, True), ("matryer", False, False)]
    out = []
    for pid in vpids:
        prog = sp.progs[pid]["prog"]
        if tier == "thorough":
            slots = full
        else:
            slots = [("testify", True, rng.random() < 0.5), ("testify", False, rng.random() < 0.5), ("matryer", False, rng.random() < 0.5)]
        for key in slots:
            pool = rng.sample(by[key], min(40, len(by[key])))
            pool = [c for c in pool if prefer(c, rng, prog)] or pool
            out.append((pid, rng.choice(pool)))
    return out


def run_world(ctx, gm, world, cases, traces):
    entries = {cw.ekey(cs): (cs.cid, cw.mockery_entry(cs)) for cs in cases}
    res = cw.run_chunks_traced(ctx, world, entries, "m", traces, chunk=60, par=4)
    for cs in cases:
        cs.mockery = res.get(cs.cid, (None, {"why": "no result"}))
    return gm


T = cw.T


def run(ctx):
    tier = ctx.tier
    T(ctx, "start")
    sp = cw.load_space(ctx, tier)
    T(ctx, "space loaded")
    ctx.mockery()  # build early: a broken tree is a machinery error before anything else
    pids = cw.select_programs(ctx, sp, tier)
    # matryer out-of-package: two thirds with skip-ensure, otherwise the known ensure-line defect (N1) is the first
    # error of nearly every such case and hides everything else
    # generic interfaces in-package: always WITH the ensure line, whose type arguments are synthesised from the constraints
    def prefer(c, rng, prog):
        cfg = c["cfg"]
        if cfg["tmpl"] == "matryer" and prog["fam"] == "generic" and c["expect"]["inpkg"]:
            return not c["expect"]["predkey"]["skipensure"]
        if cfg["tmpl"] == "matryer" and prog["fam"] == "variadic":
            # the ensure line is the generic family's subject; here its known defect (N15) would be the first error and hide the methods
            return bool(c["expect"]["predkey"]["skipensure"])
        if cfg["tmpl"] == "matryer" and not c["expect"]["inpkg"]:
            return cfg["skipensure"] == (rng.random() < 0.67)
        return True
    vpids = [p for p in pids if sp.progs[p]["prog"]["fam"] == "variadic"]
    pairs, ncov = cw.assign_configs(ctx, sp, [p for p in pids if p not in set(vpids)], slots_for(ctx, tier), prefer)
    pairs += variadic_pairs(ctx, sp, vpids, tier, prefer)
    replay = cw.replay_pairs(ctx, sp)
    if replay:
        pairs, pids = replay, [replay[0][0]]
    T(ctx, "selected %d programs, %d cases" % (len(pids), len(pairs)))
    worlds = cw.build_worlds(ctx, sp, pairs)
    T(ctx, "worlds built")
    allcases = [cs for (_, cases) in worlds.values() for cs in cases]

    # ---------------------------------------------------------------- vacuity guards on what will be executed
    fams = {cs.prog["fam"] for cs in allcases} if not replay else set()
    if replay:
        return run_cases(ctx, sp, worlds, allcases, pids, 0, 0, 0)
    need = {"shape", "ident", "pkgs", "embed", "generic", "mname", "local", "unnamed", "multi", "ext", "variadic"}
    if not need <= fams:
        raise MachineryError("vacuous: families never executed: %s" % (need - fams))
    for dim, vals in (("fmt", {"goimports", "gofmt", "noop"}), ("place", set(cw.PLACEMENTS)), ("gomod", set(cw.GOMOD_SPELLINGS)),
                      ("tmpl", {"testify", "matryer"})):
        got = {cs.cfg[dim] for cs in allcases}
        if got != vals:
            raise MachineryError("vacuous: %s values never executed: %s" % (dim, vals - got))
    # variadic element classes (Sig.tla VariadicElemClass, exported with the program) x forwarding branch of the templates
    def va_classes(pred):
        return {(v["class"], v["before"]) for cs in allcases if pred(cs) for v in sp.progs[cs.pid].get("variadics", [])}
    enumerated = {(v["class"], v["before"]) for x in sp.progs.values() if x["prog"]["fam"] == "variadic" for v in x["variadics"]}
    must = {"any", "empty-iface-lit", "alias-of-any", "defined-empty-iface", "nonempty-iface", "tparam-any", "tparam-comparable",
            "tparam-union", "tparam-named", "tparam-iface", "basic", "named", "slice", "ptr", "func", "inst", "map", "chan", "struct"}
    if not must <= {c_ for c_, _ in enumerated} or {b_ for _, b_ in enumerated} != {0, 1, 2}:
        raise MachineryError("vacuous: variadic element classes / positions missing from the enumerated space: %s" %
                             sorted(must - {c_ for c_, _ in enumerated}))
    unrolled = va_classes(lambda cs: cs.cfg["tmpl"] == "testify" and cs.cexpect["predkey"]["unroll"])
    if not enumerated <= unrolled:
        raise MachineryError("vacuous: variadic element class x position never executed with testify and an effective "
                             "unroll-variadic: %s" % sorted(enumerated - unrolled)[:6])
    for what, pred in (("testify without unroll-variadic", lambda cs: cs.cfg["tmpl"] == "testify" and not cs.cexpect["predkey"]["unroll"]),
                       ("matryer", lambda cs: cs.cfg["tmpl"] == "matryer")):
        got = {c_ for c_, _ in va_classes(pred)}
        if not must <= got:
            raise MachineryError("vacuous: variadic element classes never executed with %s: %s" % (what, sorted(must - got)))
    ctx.cov["variadic_class_x_position_unrolled"] = len(unrolled)
    ctx.cov["variadic_cases"] = sum(1 for cs in allcases if cs.prog["fam"] == "variadic")
    ctx.cov["variadic_unroll_spellings"] = sorted({cs.cfg["unroll"] + "/" + cs.cfg["ovr"] for cs in allcases
                                                   if cs.prog["fam"] == "variadic" and cs.cfg["tmpl"] == "testify"})
    aliased = sum(1 for cs in allcases for p, q in cs.pred["imports"].items() if p != "SRC" and q != cw.PKGS[p][1])
    renamed = sum(1 for cs in allcases for m in cs.pred["methods"] for a, b in zip(m["origps"] + m["origrs"], m["ps"] + m["rs"]) if a not in ("", "_") and a != b)
    if aliased == 0 or renamed == 0:
        raise MachineryError("vacuous: no executed case with an aliased import (%d) / a renamed parameter (%d)" % (aliased, renamed))
    return run_cases(ctx, sp, worlds, allcases, pids, ncov, aliased, renamed)


def run_cases(ctx, sp, worlds, allcases, pids, ncov, aliased, renamed):
    # ---------------------------------------------------------------- precondition: the sources are type-correct
    def pre(item):
        gm, (world, cases) = item
        errs, _ = cw.typecheck(ctx, world, "sources " + gm, mode="build")
        return gm, errs
    with concurrent.futures.ThreadPoolExecutor(max_workers=5) as ex:
        for gm, errs in ex.map(pre, worlds.items()):
            if errs:
                raise MachineryError("concretised source packages do not type-check (harness bug, not a verdict), e.g. %s" %
                                     json.dumps(dict(list(errs.items())[:3])))

    T(ctx, "sources type-check")
    # ---------------------------------------------------------------- run the real binary, then the toolchain
    traces = []
    with concurrent.futures.ThreadPoolExecutor(max_workers=5) as ex:
        list(ex.map(lambda it: run_world(ctx, it[0], it[1][0], it[1][1], traces), worlds.items()))

    T(ctx, "mockery done")

    def post(item):
        gm, (world, cases) = item
        errs, _ = cw.typecheck(ctx, world, "generated " + gm)
        return gm, errs
    with concurrent.futures.ThreadPoolExecutor(max_workers=5) as ex:
        errs_by = dict(ex.map(post, worlds.items()))
    files = [cs.world / cs.outdir / cs.outfile for cs in allcases if cs.mockery[0]]
    T(ctx, "toolchain done")
    infos = cw.fileinfo(ctx, files)
    T(ctx, "fileinfo done")

    # ---------------------------------------------------------------- verdicts
    n_eval = n_out = n_pred_repro = n_pred_not = n_unpred = n_drift_imp = n_drift_names = n_not_eval = 0
    for cs in allcases:
        exp = cs.pred["expect"]
        ok_m, det = cs.mockery
        if ok_m is None:
            n_not_eval += 1          # its chunk already produced more failing files than the re-run budget
            continue
        err = "" if not ok_m else cw.case_error(errs_by[cs.cfg["gomod"]], cs)
        f = cs.world / cs.outdir / cs.outfile
        info = infos.get(str(f)) if ok_m else None
        if ok_m and (info is None or not info["ok"]) and not err:
            err = "written file does not parse: " + (info or {}).get("err", "?")
        failed = (not ok_m) or bool(err)
        tags = cw.predicted_tags(cs)
        if not exp["guarantee"]:
            n_out += 1
            continue
        n_eval += 1
        if tags and failed:
            n_pred_repro += 1
        elif tags and not failed:
            n_pred_not += 1
            ctx.note("drift: model predicted %s for %s [%s inpkg=%s] but the output type-checks" %
                     (sorted(tags), cs.pid, cs.cfg["tmpl"], cs.cexpect["inpkg"]))
        elif failed:
            n_unpred += 1
        if failed:
            sig = cw.failure_sig(cs, ok_m, det, err)
            detail = {"case": cs.brief(), "expect": exp, "observed": {"mockery_ok": ok_m, "mockery": det, "first_type_error": err},
                      "source": cw.source_text(cs),
                      "generated": f.read_text(errors="replace")[:6000] if f.exists() else None, "predicted_issue_tags": sorted(tags)}
            ctx.violation(sig, detail)
            continue
        # drift only: predicted vs measured footprint (exact for noop/gofmt, which do not touch imports)
        if cs.cfg["fmt"] != "goimports":
            pi = cw.predicted_imports(cs)
            mi = cw.measured_imports(info)
            mi2 = {p: (q if q is not None else pi.get(p)) for p, q in mi.items()}
            if mi2 != pi:
                n_drift_imp += 1
                ctx.note("drift: imports of %s predicted %s measured %s" % (cs.pid, pi, mi))
        drift = None
        for ifc in cs.pred["ifaces"]:          # every interface mocked into the file
            got = {fn["name"]: fn for fn in info["funcs"] if fn["recv"] == cw.mock_name(ifc["n"])}
            for m in ifc["methods"]:
                g = got.get(cw.conc_ident(m["n"]))
                if g is None or g["params"] != [cw.conc_ident(x) for x in m["ps"]]:
                    drift = "drift: parameter names of %s %s.%s predicted %s measured %s" % (cs.pid, ifc["n"], m["n"], m["ps"], g and g["params"])
        if drift:
            n_drift_names += 1
            ctx.note(drift)

    if os.environ.get("VERIF_DEBUG_DUMP"):
        with open(os.environ["VERIF_DEBUG_DUMP"], "w") as fh:
            json.dump([{"sig": s_, "err": d_["observed"]["first_type_error"] or d_["observed"]["mockery"], "pid": d_["case"]["pid"]}
                       for s_, d_ in ctx.violations] +
                      [{"known": k, "n": v["n"], "example": v["ex"]} for k, v in ctx.known_hits.items()], fh, indent=1, default=str)
    # ---------------------------------------------------------------- history: generate AGAIN over the existing output
    # A second run sees its own previous output (in-package mocks are part of the loaded source package, the output file
    # exists): it must succeed and the result must still type-check (C01); differing bytes are recorded as a note (C06's).
    # All cases where ONE type expression first mentions two same-named packages (Codegen.tla `samename`: alias assignment
    # must follow the traversal order, never a map order) are included and regenerated twice.
    import hashlib
    okcases = [cs for cs in allcases if cs.mockery[0] and cs.pred["expect"]["guarantee"] and not cw.case_error(errs_by[cs.cfg["gomod"]], cs)]
    same = [cs for cs in okcases if cs.pred.get("samename")]
    same = ctx.rng.sample(same, min(30, len(same)))
    others = [cs for cs in okcases if cs not in same]
    others_sample = ctx.rng.sample(others, min(len(others), 90 if ctx.tier == "quick" else 1500))
    again = same + others_sample
    n_nondet = n_rerun_fail = 0

    def digest(cs):
        return hashlib.sha256((cs.world / cs.outdir / cs.outfile).read_bytes()).hexdigest()
    first = {cs.cid: digest(cs) for cs in again}
    differs = set()
    # every other one of the sampled cases is regenerated with the OTHER built-in template into the same file (a different,
    # usually shorter or longer, content replaces the old one) -- only where the model predicts no issue for that template either
    import copy
    cfg_index = {}
    for c_ in sp.cfgs:
        g = c_["cfg"]
        if g["ovr"] == "none" and not g["boilerplate"] and not g["buildtags"]:
            cfg_index.setdefault((g["tmpl"], g["place"], g["gomod"], g["fmt"]), c_)
    flipped = {}
    for i, cs in enumerate(others_sample):
        if i % 2:
            continue
        other = "matryer" if cs.cfg["tmpl"] == "testify" else "testify"
        c2 = cfg_index.get((other, cs.cfg["place"], cs.cfg["gomod"], cs.cfg["fmt"]))
        if c2 is None:
            continue
        ens2 = other == "matryer" and not c2["expect"]["predkey"]["skipensure"]
        p2 = sp.pred(cs.pid, other, c2["expect"]["inpkg"], ens2)
        if not p2["expect"]["guarantee"] or p2["modelissues"] or any(e_["tags"] for e_ in p2["issues"]):
            continue
        cs2 = copy.copy(cs)
        cs2.cfg, cs2.cexpect, cs2.pred, cs2.extra = c2["cfg"], c2["expect"], p2, {"ens": ens2}
        flipped[cs.cid] = cs2
    for rnd, group in enumerate((again, same)):
        byworld = {}
        for cs in group:
            byworld.setdefault(cs.world, {})[cw.ekey(cs)] = (cs.cid, cw.mockery_entry(flipped.get(cs.cid, cs) if rnd == 0 else cs))
        for world, entries in byworld.items():
            res2 = cw.run_chunks(ctx, world, entries, "r%d" % rnd, chunk=40, par=4)
            for cs in group:
                if cs.world == world and res2.get(cs.cid, (True, None))[0] is False:
                    n_rerun_fail += 1
                    ctx.violation(dict(cw.failure_sig(cs, False, res2[cs.cid][1], ""), kind="rerun-failed"),
                                  {"case": cs.brief(), "source": cw.source_text(cs), "second_run": res2[cs.cid][1]})
        differs |= {cs.cid for cs in group if cs.cid not in flipped and (cs.world / cs.outdir / cs.outfile).exists() and digest(cs) != first[cs.cid]}
    errs2 = {}
    for gm, (world, cases) in worlds.items():
        pats = sorted({"./" + cs.dir + "/..." for cs in again if cs.world == world})
        if pats:
            errs2[gm], _ = cw.typecheck(ctx, world, "second generation " + gm, patterns=pats)
    for cs in again:
        e2 = cw.case_error(errs2.get(cs.cfg["gomod"], {}), cs)
        if e2:
            n_rerun_fail += 1
            ctx.violation(dict(cw.failure_sig(flipped.get(cs.cid, cs), True, None, e2), kind="rerun-typecheck", regenerated_with_other_template=cs.cid in flipped),
                          {"case": cs.brief(), "source": cw.source_text(cs), "first_type_error_after_second_generation": e2})
    n_nondet = len(differs)
    for cs in again:
        if cs.cid in differs:
            ctx.note("nondeterministic output (same input, different bytes on regeneration): %s [%s %s]%s"
                     % (cs.pid, cs.cfg["tmpl"], cs.cfg["place"], " -- one type mentions two same-named packages" if cs in same else ""))
    T(ctx, "second generation of %d cases (%d same-name)" % (len(again), len(same)))
    if n_not_eval and not ctx.violations:
        raise MachineryError("%d cases were not evaluated (too many failing files per chunk) and no violation explains it" % n_not_eval)
    if n_not_eval:
        ctx.note("%d cases not evaluated: their chunk exceeded the failing-file budget (violations reported)" % n_not_eval)
    # ---------------------------------------------------------------- code -> spec: hook traces against CodegenTrace.tla
    T(ctx, "verdicts done")
    n_ok, rejected = cw.validate_run_traces(ctx, traces)
    ctx.cov["traces_validated_against_impl"] += n_ok + len(rejected)
    for rj in rejected:
        ctx.violation({"kind": "trace-rejected", "event": rj["at"].get("ev"), "stage": rj["at"].get("stage", ""), "template": "", "errclass": ""},
                      {"rejected_at": rj["at"], "run_events": rj["run_events"], "spec": "spec/CodegenTrace.tla"})
    T(ctx, "traces validated")
    # ---------------------------------------------------------------- evidence
    ctx.cov["evaluations"] = n_eval
    ctx.cov["distinct_nontrivial"] = len({(cs.pid, json.dumps(cs.cfg, sort_keys=True)) for cs in allcases if cs.pred["expect"]["guarantee"]})
    ctx.cov["rule"] = ("one evaluation = one (program, configuration) run through the real binary whose written file was type-checked "
                       "by the Go toolchain; non-trivial = distinct (program, configuration) inside the guarantee")
    ctx.cov.update({"programs_enumerated": len(sp.progs), "model_chains": len(sp.preds), "configurations_enumerated": len(sp.cfgs),
                    "programs_executed": len(set(pids)), "cases_executed": len(allcases),
                    "cases_with_several_interfaces_in_one_file": sum(1 for cs in allcases if len(cs.pred["ifaces"]) > 1), "cases_not_evaluated": n_not_eval, "outside_guarantee": n_out,
                    "config_pairs_covered": ncov, "tlc": sp.tlc,
                    "predicted_issue_reproduced": n_pred_repro, "predicted_issue_not_reproduced": n_pred_not,
                    "failed_without_prediction": n_unpred, "import_drift": n_drift_imp, "name_drift": n_drift_names,
                    "cases_generated_twice": len(again), "samename_cases_regenerated": len(same), "nondeterministic_outputs": n_nondet,
                    "second_generation_failures": n_rerun_fail, "regenerated_with_other_template": len(flipped),
                    "executed_with_aliased_import": aliased, "executed_with_renamed_parameter": renamed,
                    "concretisation": cw.concretisation_table()})
    good = [cs for cs in allcases if cs.mockery[0] and cs.pred["expect"]["guarantee"]]
    for cs in ctx.rng.sample(good, min(4, len(good))):
        ctx.sample({"program": cs.pid, "cfg": cs.cfg, "source": cw.source_text(cs)[:700],
                    "predicted_imports": cs.pred["imports"], "predicted_params": [m["ps"] for m in cs.pred["methods"]],
                    "result": "exit 0, type-checks"})
    ctx.assumptions += ["program space bounded as in spec/CodegenMC.tla (type depth <= 2, <= 4 methods, identifier alphabet listed there)",
                        "the quick tier executes a seeded stratified sample of the enumerated programs; every stratum at least once",
                        "the Go toolchain (go build + go vet's type checker) is the oracle for type-correctness"]
    return {"level": "model_checking", "exhaustive": False}


if __name__ == "__main__":
    main("C01", run)
