#!/usr/bin/env python3
"""C04 -- matryer-style mocks forward calls and record them faithfully.

1. TLC checks the code-shaped model of the generated mock (spec/MatryerMock.tla, transcribed statement by
   statement from internal/mock_matryer.templ) against the contract (spec/MatryerMockContract.tla: the clauses
   of C04 as predicates over one step) exhaustively over all histories up to the bound, for all 28 signature
   shapes x stub-impl x with-resets x initial MFunc values.
2. Every transition TLC generates is exported with a representative history; each event carries the reply,
   the forwarded calls and the MCalls() contents the model expects.  The real mockery binary (built from the
   working tree) generates mocks for the classes (shape x parameter-name set x type set, table computed by TLC)
   x 8 option sets in ONE run; drivers/matryerdrv replays every history on the fresh mocks by reflection
   (positional, never by field name) and compares step by step with the exported expectation.
3. The recorded op logs (a rotating sample of the matching replays, and EVERY mismatching one) are validated
   by TLC against spec/MatryerMockTrace.tla = the contract.  Verdict = contract rejection of a real op log.
   Mismatch with the code-shaped model that the contract accepts = drift note.

COVERAGE TABLE (statement clause / quantifier dimension -> what explores it -> what is still a single point or absent)
  methods & signatures   28 shapes (arity 0-3 x variadic x results 0-3) for method A; B fixed `B(x int) int`; a third method
                         X(p int) sorting between A and B that the histories never call (frame: only ResetCalls may empty it).
                         Single point: B's and X's signatures; > 3 methods; methods whose names collide with generated members
                         (ACalls/ResetCalls/lockA as METHOD names) do not compile -> C01.
  parameter names        10 sets (plain, unnamed, `_`, `_` mixed with generated-name look-alikes, initialisms, case pair,
                         non-ASCII, template locals, callInfo, mock); method names: exported, unexported, initialism-like,
                         case twins (in-package mocks through generated method-expression shims).  Absent: keywords-as-names.
  argument/result values 6 type sets: ints (same-typed: transpositions compile), mixed, rich (*V, []int, interface{}, named
                         results, map result), refs (named slice, map, pointer: identity through MFunc writes), vals (struct,
                         array, interface-with-methods by value; func/chan/array results -> zero values under stub-impl),
                         tparam (generic interface C[T any] instantiated with int).  Single point: one instantiation type;
                         no chan/func PARAMETERS; no constraint other than any (D13 territory, C01).
  where methods come from direct or through an embedded interface (class dimension `embed`).  Absent: embedding from another package.
  options                skip-ensure x stub-impl x with-resets, each in its own file AND (one class per shape) all four
                         skip/stub combinations of ONE interface in ONE file via `configs:`, both orders.
  option placement       table PLACEMENTS (TLC): each switch written at any subset of root / package / interface / configs-entry
                         level with true or false; effective value = most specific writing level (EffSwitch, TLA+).  quick: all 33
                         placements of stub-impl over <= 2 levels (every level pair, inner false under outer true and vice versa),
                         the other two switches seed-rotated; thorough: all 81 placements of each switch.  One class per world.
  MFunc                  nil, table function F1 (also writes through reference-like args), F2 (thorough), re-entrant FR (calls A
                         again and reads BCalls() inside), panicking FP; initial value and later assignment.  Absent: MFunc that
                         calls a DIFFERENT mocked method; MFunc replaced while running.
  histories              all sequences <= 3 (quick) / 4 (thorough) ops for every shape, <= 5 / 6 for a seed-rotated subset, over
                         call(2 tags, variadic lengths 0/1/2) / setfunc / ResetACalls / ResetBCalls / ResetCalls; `stale` flag keeps
                         read -> reset -> call(other args) -> re-inspect in the explored set; <= 3-4 records per log.
  observations           reply or recovered panic (message must contain the ACTUAL field name), every MFunc invocation's view,
                         MCalls() of A, B, X after every op by position, nil-ness of MFunc fields, a second mock instance,
                         every earlier MCalls() result re-inspected (retained slices), caller's own argument objects afterwards.
  left open on purpose   whether the nil-MFunc panic is recorded; reply of a panicking MFunc; field names; records aliasing vs
                         copying reference-like arguments; absence of reset methods without with-resets.
"""
import json
import os
import re
import subprocess
import sys
import time

sys.path.insert(0, os.path.join(os.path.dirname(__file__), "..", "lib"))
import vlib  # noqa: E402
from vlib import MachineryError, main  # noqa: E402

MOD = "example.com/w"

# ------------------------------------------------------------------ concretisation tables (total, injective)
NAMES = {
    "plain": ["a", "b", "c"],
    "unnamed": ["", "", ""],
    "blank": ["_", "_", "_"],
    "blankmix": ["_", "n", "n1"],        # the name generated for "_" (n for an int) collides with the named ones
    "initialism": ["id", "url", "http"],
    "casepair": ["a", "A", "b"],
    "nonascii": ["é", "ñx", "世"],
    "locals": ["calls", "lockA", "sync"],
    "callinfo": ["callInfo", "b", "c"],
    "mock": ["mock", "b", "c"],
}
TYPES = {  # parameter types (cycled), variadic element type, result declarations (cycled)
    "ints": (["int", "int", "int"], "int", ["int", "int", "int"]),
    "mixed": (["int", "string", "float64"], "string", ["string", "int", "error"]),
    "rich": (["*V", "[]int", "interface{}"], "interface{}", ["err error", "out *V", "m map[string]int"]),
    "refs": (["S", "map[string]int", "*V"], "int", ["int", "int", "int"]),      # named slice, map, pointer
    "vals": (["V", "[2]int", "Namer"], "V", ["func() int", "chan int", "[2]int"]),  # struct/array/interface by value; func/chan results
    "tparam": (["T", "T", "T"], "T", ["T", "T", "T"]),                          # generic interface C[T any], instantiated with int
}
PRELUDE = "type V struct{ N int }\n\ntype S []int\n\ntype Namer interface{ Name() int }\n\n"


def tinst(cls, decl=False):
    if cls.get("types") != "tparam":
        return ""
    return "[T any]" if decl else "[int]"
MNAMES = {  # abstract methods (A, B) -> method names of the concrete interface
    # (A, B, X): X is a third method, X(p int), whose name sorts between A and B; the histories never call it
    "AB": ("A", "B", "Ab"),
    "lower": ("flush", "ping", "gather"),
    "initialism": ("id", "url", "key"),
    "twins": ("close", "Close", "cmid"),
}
OPT_PKGS = [(k, bool(k & 1), bool(k & 2), bool(k & 4)) for k in range(8)]  # (k, skip-ensure, stub-impl, with-resets)


def shape_key(s):
    return "%d/%s/%d" % (s["ar"], "true" if s["var"] else "false", s["nres"])


def iface_src(cid, cls):
    s = cls["shape"]
    names = NAMES[cls["names"]]
    ptypes, vtype, rdecls = TYPES[cls["types"]]
    ps = []
    for i in range(s["ar"]):
        variadic = s["var"] and i == s["ar"] - 1
        t = ("..." + vtype) if variadic else ptypes[i]
        ps.append((names[i] + " " + t).strip())
    rs = rdecls[:s["nres"]]
    res = "" if not rs else (" " + rs[0] if len(rs) == 1 and " " not in rs[0] else " (" + ", ".join(rs) + ")")
    ma, mb, mx = MNAMES[cls.get("mnames", "AB")]
    if cls.get("embed"):
        # A comes from an embedded interface (the method set is the same; the template gets it from the embedded type)
        return ("type %sBase%s interface {\n\t%s(%s)%s\n}\n\ntype %s%s interface {\n\t%sBase%s\n\t%s(p int)\n\t%s(x int) int\n}\n"
                % (cid, tinst(cls, True), ma, ", ".join(ps), res, cid, tinst(cls, True), cid, "[T]" if tinst(cls) else "", mx, mb))
    return "type %s%s interface {\n\t%s(%s)%s\n\t%s(p int)\n\t%s(x int) int\n}\n" % (cid, tinst(cls, True), ma, ", ".join(ps), res, mx, mb)


def choose_classes(ctx, classes, per_shape):
    """classes: table exported by TLC.  Returns {shape_key: [class,...]} -- a seed-rotated subset that keeps
    one all-int class per shape (same-typed parameters: a transposition still compiles) and covers every
    name set and type set on some shape with >= 2 parameters."""
    inpkg = [c for c in classes if c["mnames"] != "AB" and not c["fragile"]]
    classes = [c for c in classes if c["mnames"] == "AB"]
    by_shape = {}
    for c in classes:
        by_shape.setdefault(shape_key(c["shape"]), []).append(c)
    chosen = {}
    for sk in sorted(by_shape):
        lst = sorted(by_shape[sk], key=lambda c: (c["names"], c["types"]))
        if per_shape is None or per_shape >= len(lst):
            chosen[sk] = lst
            continue
        ctx.rng.shuffle(lst)
        ints = [c for c in lst if c["types"] == "ints" and not c["fragile"]]
        rest = [c for c in lst if c["types"] != "ints" and not c["fragile"]]
        refs = [c for c in rest if c["types"] == "refs"]
        if refs and (per_shape >= 3 or ctx.rng.random() < 0.5):    # thorough: always a refs class; quick: every other shape
            rest = refs[:1] + [c for c in rest if c is not refs[0]]
        extra = per_shape - 1
        if per_shape == 2 and ctx.rng.random() < 0.5:
            extra = 0                      # quick: a second class on every other shape only (seed-rotated)
        pick = ints[:1] + rest[:max(0, extra)]
        chosen[sk] = pick
    if per_shape is not None:
        # every name set and every type set at least once on a WIDEST shape (3 parameters, 3 results: every parameter and
        # result position of the set is exercised), for both parameter styles (fixed / variadic) for the type sets
        wide3 = sorted(sk for sk in by_shape if sk.startswith("3/") and sk.endswith("/3"))
        for dim in ("names", "types"):
            have = {c[dim] for sk, l in chosen.items() for c in l if sk in wide3}
            for val in sorted({c[dim] for c in classes} - have):
                sk = ctx.rng.choice(wide3)
                cand = [x for x in sorted(by_shape[sk], key=lambda c: (c["names"], c["types"])) if x[dim] == val]
                if cand:
                    c = ctx.rng.choice(cand)
                    if c not in chosen[sk]:
                        chosen[sk].append(c)
    # in-package mocks of interfaces with unexported / initialism-like / case-twin method names
    n_in = None if per_shape is None else (12 if per_shape >= 3 else 2)
    for mn in sorted({c["mnames"] for c in inpkg}):
        lst = sorted([c for c in inpkg if c["mnames"] == mn], key=lambda c: (shape_key(c["shape"]), c["names"], c["types"]))
        ctx.rng.shuffle(lst)
        seen_shapes = set()
        for c in lst:
            sk = shape_key(c["shape"])
            if sk in seen_shapes:
                continue
            if n_in is not None and len(seen_shapes) >= n_in:
                break
            seen_shapes.add(sk)
            chosen.setdefault(sk, []).append(c)
    return chosen


# ------------------------------------------------------------------ world: generate with the real binary, compile
def build_world(ctx, chosen):
    """-> (world dir, {class id: class}, skipped {class id: reason}, driver binary)"""
    ids = {}
    n = 0
    for sk in sorted(chosen):
        for c in chosen[sk]:
            n += 1
            ids["C%03d" % n] = c
    src = "package src\n\n" + PRELUDE + "".join(iface_src(cid, c) for cid, c in ids.items())
    # with-resets is read from the FILE-level template data (= the package-level config, mock_matryer.templ:151,160),
    # so the source package exists twice: src (with-resets false) and srcr (with-resets true); one mockery run.
    w = ctx.new_world({"src/src.go": src, "srcr/src.go": src.replace("package src", "package srcr", 1)}, module=MOD, gomod="module %s\n\ngo 1.23\n" % MOD, name="c04world")
    drvsrc = (vlib.VERIF / "drivers" / "matryerdrv" / "main.go").read_text()
    (w / "drv").mkdir()
    (w / "drv" / "main.go").write_text(drvsrc)
    skipped = {}
    live = dict(ids)
    for attempt in range(4):
        t0 = time.time()
        generate(ctx, w, live)
        if os.environ.get("C04_VERBOSE"):
            print("  [c04] mockery generated %d mocks in %.1fs" % (len(live) * 8, time.time() - t0), file=sys.stderr)
        write_registry(w, live)
        code, out, err = ctx.go(w, "build", "-gcflags=-e", "-o", str(w / "drvbin"), "./drv", timeout=900)
        if code == 0:
            return w, live, skipped, w / "drvbin"
        bad = {}
        for m in re.finditer(r"^(out/[oxy]\d/mocks\.go|out/pw\d+/mocks\.go|in/i\d/mocks_gen\.go|in/i\d/shim\.go):(\d+):\d+: (.*)$", err, re.M):
            cid = class_at(w / m.group(1), int(m.group(2)))
            if cid:
                bad.setdefault(cid, m.group(3))
        if not bad:
            raise MachineryError("building the replay driver against the generated mocks failed:\n" + err[-2500:])
        for cid, why in bad.items():
            skipped[cid] = why
            live.pop(cid, None)
    raise MachineryError("generated mocks still do not compile after excluding " + ", ".join(sorted(skipped)))


def class_at(path, line):
    lines = path.read_text().splitlines()
    for i in range(min(line, len(lines)) - 1, -1, -1):
        m = re.search(r"\bMoq(C\d{3})(?:_\d)?\b", lines[i])
        if m:
            return m.group(1)
    return None


def in_package(c):
    return c.get("mnames", "AB") != "AB"


# ONE interface mocked several times into ONE file through an interface-level `configs:` list whose entries differ in
# template-data: per (with-resets value r) a file out/x<r> with the four skip-ensure x stub-impl combinations in this
# order, and a file out/y<r> with the same entries in the opposite order.  Mock j = skip + 2*stub is struct Moq<cid>_<j>.
MULTI_ORDER = [(0, False, False), (1, True, False), (2, False, True), (3, True, True)]


MULTI_SHAPES = None      # set by run(): None = every shape (thorough), else a seed-rotated set of shape keys (quick)


def multi_classes(live):
    """one class per shape (the first exported-method class of the shape) is mocked in the multi-mock files"""
    seen, out = set(), []
    for cid, c in live.items():
        sk = shape_key(c["shape"])
        if not in_package(c) and sk not in seen and (MULTI_SHAPES is None or sk in MULTI_SHAPES):
            seen.add(sk)
            out.append(cid)
    return out


# Option PLACEMENT across configuration levels (table PLACEMENTS computed by TLC, MatryerMockMC!PlaceTable): a placed world is
# one source package pl/w<i> with one interface, mocked once into out/pw<i>; each of the three switches is written at the
# levels its table row says (root template-data / package config / interface config / configs entry), possibly with an
# explicit false under an outer true.  The histories replayed on the mock are those of the option set the rows' `eff` give.
PLACE_KEYS = (("skip-ensure", "skip"), ("stub-impl", "stub"), ("with-resets", "resets"))
PLACE_LEVELS = ("root", "pkg", "iface", "entry")
PLACED_WORLDS = []       # set by run(): [{"skip-ensure": row, "stub-impl": row, "with-resets": row}, ...]
PLACED_SEED = 0


def choose_placements(ctx, table, thorough):
    rows = sorted(table, key=lambda r: r["lv"])
    worlds = []
    order = ["unset", "true", "false"]
    for fi, (focus, _) in enumerate(PLACE_KEYS):
        if not thorough and focus != "stub-impl":
            continue              # quick: the switch with run-time behaviour is the focus; the other two vary along (seed-rotated)
        for r in rows:
            if not thorough and r["nset"] > 2:
                continue          # quick: every placement that writes the focus switch at <= 2 levels (33 of 81)
            wd = {focus: r}
            for oi, (other, _) in enumerate(PLACE_KEYS):
                if other == focus:
                    continue
                cand = rows
                if not thorough:  # quick: few distinct root-level triples (one mockery run per triple)
                    want = order[(order.index(r["lv"][0]) + 1 + oi) % 3]
                    cand = [x for x in rows if x["lv"][0] == want]
                wd[other] = ctx.rng.choice(cand)
            worlds.append(wd)
    return worlds


def placed(live):
    """-> [(package name, world, class id)]: which class each placed world mocks (rotated by the seed)"""
    cids = [cid for cid, c in live.items() if not in_package(c)]
    if not cids:
        return []
    return [("pw%d" % i, wd, cids[(i * 7 + PLACED_SEED) % len(cids)]) for i, wd in enumerate(PLACED_WORLDS)]


def placed_eff(wd):
    return {short: wd[key]["eff"] for key, short in PLACE_KEYS}


def level_data(wd, li):
    """template-data written at level li of a placed world (None: the key template-data is absent there)"""
    td = {key: wd[key]["lv"][li] == "true" for key, _ in PLACE_KEYS if wd[key]["lv"][li] != "unset"}
    return td or None


def generate_placed(ctx, w, live):
    import shutil
    from concurrent.futures import ThreadPoolExecutor
    shutil.rmtree(w / "pl", ignore_errors=True)
    groups = {}
    for pkg, wd, cid in placed(live):
        c = live[cid]
        d = w / "pl" / pkg[1:]
        d.mkdir(parents=True)
        (d / "src.go").write_text("package %s\n\n%s%s" % (pkg[1:], PRELUDE, iface_src(cid, c)))
        entry = {"dir": str(w / "out" / pkg), "filename": "mocks.go", "pkgname": pkg, "structname": "Moq" + cid}
        iface, pconf = {}, {}
        for li, holder in ((1, pconf), (2, iface), (3, entry)):
            td = level_data(wd, li)
            if td is not None:
                holder["template-data"] = td
        ic = {"configs": [entry]}
        if iface:
            ic["config"] = iface
        pc = {"interfaces": {cid: ic}}
        if pconf:
            pc["config"] = pconf
        root = level_data(wd, 0)
        groups.setdefault(json.dumps(root, sort_keys=True), (root, {}))[1]["%s/pl/%s" % (MOD, pkg[1:])] = pc
    jobs = []
    for gi, gk in enumerate(sorted(groups)):
        root, pk = groups[gk]
        conf = {"template": "matryer", "packages": pk}
        if root is not None:
            conf["template-data"] = root
        fn = w / (".mockery.placed%d.yml" % gi)
        fn.write_text(json.dumps(conf))
        jobs.append(fn)

    def one(fn):
        return fn, ctx.run_mockery(w, args=["--config", str(fn)], timeout=600, trace=False)
    with ThreadPoolExecutor(max_workers=4) as ex:
        for fn, res in ex.map(one, jobs):
            if res.code != 0:
                raise MachineryError("mockery failed to generate the placed matryer mocks (%s, exit %s):\n%s\n%s"
                                     % (fn.name, res.code, fn.read_text()[:1500], (res.err + res.out)[-2000:]))
    for pkg, wd, cid in placed(live):
        if not (w / "out" / pkg / "mocks.go").exists():
            raise MachineryError("mockery exit 0 but out/%s/mocks.go was not written" % pkg)
    return len(jobs)


def generate(ctx, w, live):
    import shutil
    shutil.rmtree(w / "out", ignore_errors=True)
    shutil.rmtree(w / "in", ignore_errors=True)
    pk = {}
    for pkg, want in (("src", False), ("srcr", True)):
        ifaces = {}
        for cid, c in live.items():
            if in_package(c):
                continue
            ifaces[cid] = {"configs": [
                {"dir": str(w / "out" / ("o%d" % k)), "filename": "mocks.go", "pkgname": "o%d" % k,
                 "structname": "Moq" + cid,
                 "template-data": {"skip-ensure": skip, "stub-impl": stub, "with-resets": resets}}
                for k, skip, stub, resets in OPT_PKGS if resets == want]}
        r = 1 if want else 0
        for cid in multi_classes(live):
            for d, order in (("x%d" % r, MULTI_ORDER), ("y%d" % r, MULTI_ORDER[::-1])):
                ifaces[cid]["configs"] += [
                    {"dir": str(w / "out" / d), "filename": "mocks.go", "pkgname": d, "structname": "Moq%s_%d" % (cid, j),
                     "template-data": {"skip-ensure": skip, "stub-impl": stub, "with-resets": want}}
                    for j, skip, stub in order]
        pk[MOD + "/" + pkg] = {"config": {"template-data": {"with-resets": True}} if want else {}, "interfaces": ifaces}
    # in-package mocks (interfaces with unexported method names): one source package per option set, the mock file
    # and a generated shim (method expressions: the only way to reach unexported methods from the driver) next to it
    inp = {cid: c for cid, c in live.items() if in_package(c)}
    shims = {}
    if inp:
        isrc = "".join(iface_src(cid, c) for cid, c in inp.items())
        for k, skip, stub, resets in OPT_PKGS:
            d = w / "in" / ("i%d" % k)
            d.mkdir(parents=True)
            (d / "src.go").write_text("package i%d\n\n%s%s" % (k, PRELUDE, isrc))
            td = {"skip-ensure": skip, "stub-impl": stub}
            if resets:
                td["with-resets"] = True
            pk["%s/in/i%d" % (MOD, k)] = {
                "config": {"dir": str(d), "filename": "mocks_gen.go", "pkgname": "i%d" % k, "template-data": td},
                "interfaces": {cid: {"config": {"structname": "Moq" + cid}} for cid in inp}}
            sh = ["package i%d\n\n// generated by checks/c04.py: access to the (possibly unexported) methods of the in-package mocks\n"
                  "var Shims = map[string]map[string]interface{}{\n" % k]
            for cid, c in inp.items():
                ma, mb, mx = MNAMES[c["mnames"]]
                ty = "Moq%s%s" % (cid, tinst(c))
                ent = ['"new": func() interface{} { return &%s{} }' % ty,
                       '"A": (*%s).%s' % (ty, ma), '"B": (*%s).%s' % (ty, mb), '"X": (*%s).%s' % (ty, mx),
                       '"ACalls": (*%s).%sCalls' % (ty, ma), '"BCalls": (*%s).%sCalls' % (ty, mb), '"XCalls": (*%s).%sCalls' % (ty, mx)]
                if resets:
                    ent += ['"ResetACalls": (*%s).Reset%sCalls' % (ty, ma), '"ResetBCalls": (*%s).Reset%sCalls' % (ty, mb),
                            '"ResetCalls": (*%s).ResetCalls' % ty]
                sh.append('\t"%s": {%s},\n' % (cid, ", ".join(ent)))
            sh.append("}\n")
            shims[d / "shim.go"] = "".join(sh)     # written after the run: mockery type-checks the source package
    conf = {"template": "matryer", "packages": pk}
    (w / ".mockery.yml").write_text(json.dumps(conf))
    res = ctx.run_mockery(w, timeout=600, trace=False)
    if res.code != 0:
        if res.panicked:
            raise MachineryError("mockery panicked while generating the matryer mocks (C09's business):\n" + (res.err + res.out)[-1500:])
        raise MachineryError("mockery failed to generate the matryer mocks (exit %s):\n%s" % (res.code, (res.err + res.out)[-2000:]))
    for pth, txt in shims.items():
        pth.write_text(txt)
    for k, *_ in OPT_PKGS:
        if not (w / "out" / ("o%d" % k) / "mocks.go").exists():
            raise MachineryError("mockery exit 0 but out/o%d/mocks.go was not written" % k)
        if inp and not (w / "in" / ("i%d" % k) / "mocks_gen.go").exists():
            raise MachineryError("mockery exit 0 but in/i%d/mocks_gen.go was not written" % k)
    generate_placed(ctx, w, live)


def write_registry(w, live):
    inp = any(in_package(c) for c in live.values())
    imp = "".join('\to%d "%s/out/o%d"\n' % (k, MOD, k) for k, *_ in OPT_PKGS)
    imp += "".join('\t%s "%s/out/%s"\n' % (d, MOD, d) for d in ("x0", "x1", "y0", "y1"))
    if inp:
        imp += "".join('\ti%d "%s/in/i%d"\n' % (k, MOD, k) for k, *_ in OPT_PKGS)
    imp += "".join('\t%s "%s/out/%s"\n' % (pkg, MOD, pkg) for pkg, _, _ in placed(live))
    ent = []
    for pkg, _, cid in placed(live):
        ent.append('\t"%s/%s": {mk: func() interface{} { return &%s.Moq%s%s{} }, names: [3]string{"A", "B", "Ab"}},\n'
                   % (pkg, cid, pkg, cid, tinst(live[cid])))
    for cid, c in live.items():
        ma, mb, mx = MNAMES[c.get("mnames", "AB")]
        for k, *_ in OPT_PKGS:
            if in_package(c):
                ent.append('\t"o%d/%s": {mk: i%d.Shims["%s"]["new"].(func() interface{}), names: [3]string{"%s", "%s", "%s"}, shim: i%d.Shims["%s"]},\n'
                           % (k, cid, k, cid, ma, mb, mx, k, cid))
            else:
                ent.append('\t"o%d/%s": {mk: func() interface{} { return &o%d.Moq%s%s{} }, names: [3]string{"%s", "%s", "%s"}},\n'
                           % (k, cid, k, cid, tinst(c), ma, mb, mx))
    for cid in multi_classes(live):
        for d in ("x0", "x1", "y0", "y1"):
            for j, _, _ in MULTI_ORDER:
                ent.append('\t"%s.%d/%s": {mk: func() interface{} { return &%s.Moq%s_%d%s{} }, names: [3]string{"A", "B", "Ab"}},\n'
                           % (d, j, cid, d, cid, j, tinst(live[cid])))
    (w / "drv" / "registry.go").write_text("package main\n\nimport (\n" + imp + ")\n\nvar registry = map[string]entry{\n" + "".join(ent) + "}\n")


# ------------------------------------------------------------------ TLC export (streamed: cases are not all parsed here)
def export_cases(ctx, text, path, stats):
    """CASE lines of a TLC run -> ndjson file for the driver; cheap vacuity statistics by substring."""
    pat = '<<"CASE", "'
    n = 0
    with open(path, "a") as f:
        for ln in text.splitlines():
            i = ln.find(pat)
            if i < 0:
                continue
            s = ln[i + len(pat):]
            j = s.rfind('">>')
            if j < 0:
                continue
            s = vlib.tla_unescape(s[:j])
            f.write(s + "\n")
            n += 1
            nops = s.count('"op":')
            stats["len"][nops] = stats["len"].get(nops, 0) + 1
            for k, needle in GUARDS.items():
                if needle in s:
                    stats[k] = stats.get(k, 0) + 1
            if '"resets":true' in s and RESET_THEN_CALL.search(s):
                stats["read_reset_call_reinspect"] = stats.get("read_reset_call_reinspect", 0) + 1
            if n % 997 == 1 and len(stats["sample"]) < 3:
                stats["sample"].append(json.loads(s))
    return n


# read -> reset -> call with another tag -> the retained pre-reset result is re-inspected (snaps non-empty)
RESET_THEN_CALL = re.compile(r'"op":"reset(?:m|all)".*?"op":"call"[^}]*?"args":\[\[2\d\d.*?"snaps":\[\{')

GUARDS = {  # situations the exported histories must contain (vacuity)
    "nil_panic": '"names":true',
    "stub_zero": '"stub":true',
    "reentrant": '"f":"FR"',
    "func_panics": '"f":"FP"',
    "reset_one": '"op":"resetm"',
    "reset_all": '"op":"resetall"',
    "setfunc": '"op":"setfunc"',
    "variadic": '"var":true',
    "two_records": '],[',
}


def mc_module(name, deep):
    shapes = ", ".join("[ar |-> %d, var |-> %s, nres |-> %d]" % (s["ar"], "TRUE" if s["var"] else "FALSE", s["nres"]) for s in deep)
    return ("---- MODULE %s ----\nEXTENDS MatryerMockMC\nRunDeep == {%s}\n"
            "RunOpts(st, rs) == {[stub |-> st, resets |-> rs]}\n"
            "Opts00 == RunOpts(FALSE, FALSE)\nOpts01 == RunOpts(FALSE, TRUE)\nOpts10 == RunOpts(TRUE, FALSE)\nOpts11 == RunOpts(TRUE, TRUE)\n"
            "====\n") % (name, shapes)


def export_cfg(base, opts, shallow, deep_all, only_shape=False):
    s = (vlib.SPEC / "cfg" / base).read_text()
    if only_shape:
        s = s.replace("Shapes <- MCShapes", "Shapes <- RunDeep").replace("DeepShapes <- MCShapes", "DeepShapes <- RunDeep")
    s = s.replace("Opts <- MCOpts", "Opts <- " + opts)
    if not deep_all:
        s = s.replace("DeepShapes <- MCShapes", "DeepShapes <- RunDeep")
        s = re.sub(r"ShallowHist = \d+", "ShallowHist = %d" % shallow, s)
    s = s.replace("CHECK_DEADLOCK FALSE", "CONSTRAINT Emit\nCHECK_DEADLOCK FALSE")
    s = re.sub(r"^PROPERTIES.*\n", "", s, flags=re.M)   # properties are checked by the full run (step 1)
    return s


# ------------------------------------------------------------------ trace validation
def validate(ctx, traces, label):
    """traces: list of {"replay":id,"key":..,"events":[...]}.  One TLC run judges all of them:
    MatryerMockTrace reports every rejected replay (REJECT <replay id> <event index>) and resumes at the next.
    Returns (n accepted, [rejected trace + where])."""
    if not traces:
        return 0, []
    evs = [e for t in traces for e in t["events"]]
    ok, r = ctx.validate_trace("MatryerMockTrace", "MatryerMockTrace.cfg", evs, timeout=1200)
    if r.consumed is None or r.consumed[0] != r.consumed[1]:
        raise MachineryError("trace validation did not consume the whole op log (%s): %s\n%s" % (label, r.consumed, r.tail()))
    by_id = {t["replay"]: t for t in traces}
    rejected = []
    for m in re.finditer(r'<<"REJECT", (\d+), (\d+), "(\w+)">>', r.text):
        t = by_id.get(int(m.group(1)))
        if t is None:
            raise MachineryError("REJECT names an unknown replay " + m.group(1))
        at = evs[int(m.group(2)) - 1]
        rejected.append({"trace": t, "at": at, "step": t["events"].index(at) - 1, "clause": m.group(3)})
    if ok != (not rejected):
        raise MachineryError("trace validation verdict and REJECT lines disagree (%s):\n%s" % (label, r.tail()))
    return len(traces) - len(rejected), rejected


def run_driver(ctx, drv, plan, cases_path, out_path, timeout):
    pj = out_path.parent / (out_path.name + ".plan.json")
    pj.write_text(json.dumps(plan))
    env = dict(os.environ)
    env["GOMAXPROCS"] = str(max(4, ctx.workers()))
    try:
        p = subprocess.run([str(drv), str(pj), str(cases_path), str(out_path)], capture_output=True, text=True,
                           timeout=timeout, env=env)
    except subprocess.TimeoutExpired:
        raise MachineryError("replay driver timed out")
    traces, summary, hang = [], None, None
    if out_path.exists():
        for ln in out_path.read_text().splitlines():
            o = json.loads(ln)
            if o["kind"] == "trace":
                traces.append(o)
            elif o["kind"] == "summary":
                summary = o
            elif o["kind"] == "hang":
                hang = o
    if p.returncode == 3 and hang:
        return traces, None, hang
    if p.returncode != 0 or summary is None:
        raise MachineryError("replay driver died (exit %s): %s" % (p.returncode, p.stderr[-1500:]))
    return traces, summary, None


def tlc_bg(ctx, tag, module, cfgtext, files, workers, timeout, coverage, res):
    """TLC in a background thread with its own scratch copy of the spec (vlib.Ctx.tlc is not re-entrant).
    res["r"] = TLCResult, or res["timeout"] = True."""
    import shutil
    import threading

    def job():
        d = ctx.scratch / ("tlcbg-" + tag)
        shutil.copytree(vlib.SPEC, d, ignore=shutil.ignore_patterns("states", "*.out", ".tlacache"))
        for rel, content in files.items():
            (d / rel).write_text(content)
        (d / "run.cfg").write_text(cfgtext)
        cmd = ["tlc", "-workers", str(workers), "-metadir", str(d / "meta"), "-config", "run.cfg"]
        if coverage:
            cmd += ["-coverage", "1"]
        cmd.append(module + ".tla")
        env = dict(os.environ)
        env["JAVA_TOOL_OPTIONS"] = (env.get("JAVA_TOOL_OPTIONS", "") + " -Xss64m").strip()
        t0 = time.time()
        try:
            p = subprocess.run(cmd, cwd=d, env=env, capture_output=True, text=True, timeout=timeout, errors="replace")
            res["r"] = vlib.TLCResult(module, "run.cfg", p.returncode, p.stdout + p.stderr, time.time() - t0, d)
        except subprocess.TimeoutExpired:
            subprocess.run(["pkill", "-f", str(d / "meta")], capture_output=True)
            res["timeout"] = True
        shutil.rmtree(d, ignore_errors=True)
    t = threading.Thread(target=job)
    t.start()
    return t


def tick(ctx, what):
    now = time.time()
    ctx.cov.setdefault("stage_seconds", {})[what] = round(now - getattr(ctx, "_tick", ctx.t0), 1)
    ctx._tick = now
    if os.environ.get("C04_VERBOSE"):
        print("  [c04] %-28s %.1fs" % (what, ctx.cov["stage_seconds"][what]), file=sys.stderr)


def run(ctx):
    thorough = ctx.thorough()
    base = "MatryerMock_thorough.cfg" if thorough else "MatryerMock_quick.cfg"
    # ------------------------------------------------------------ 1. model checking: code-shaped layer => contract
    # (runs in the background while the histories are exported and replayed; joined before the verdict)
    mc_res = {}
    mc_thread = tlc_bg(ctx, "modelcheck", "MatryerMockMC", (vlib.SPEC / "cfg" / base).read_text(), {}, min(6, ctx.workers()), 2400,
                       thorough, mc_res)
    r = ctx.tlc("MatryerMockMC", "MatryerMock_classes.cfg", workers=1, timeout=600, count=False,
                files={"cfg/MatryerMock_classes.cfg": (vlib.SPEC / "cfg" / base).read_text()
                       .replace("MaxHist = 5", "MaxHist = 0").replace("MaxHist = 6", "MaxHist = 0")
                       .replace("ShallowHist = 5", "ShallowHist = 0").replace("ShallowHist = 6", "ShallowHist = 0")})
    if not r.ok:
        raise MachineryError("TLC failed to print the class table:\n" + r.tail())
    tick(ctx, "class_table")

    # ------------------------------------------------------------ class table from TLC
    tabs = r.prints("CLASSES")
    if not tabs:
        raise MachineryError("TLC did not print the class table:\n" + r.tail())
    classes = tabs[0]
    shapes = sorted({shape_key(c["shape"]): c["shape"] for c in classes}.items())
    if len(shapes) != 28:
        raise MachineryError("class table: expected 28 shapes, got %d" % len(shapes))

    ptabs = r.prints("PLACEMENTS")
    if not ptabs or len(ptabs[0]) != 81:
        raise MachineryError("TLC did not print the option placement table (81 rows)")
    global PLACED_WORLDS, PLACED_SEED
    PLACED_SEED = ctx.seed
    PLACED_WORLDS = choose_placements(ctx, ptabs[0], thorough)

    # ------------------------------------------------------------ 2a. generate + compile the real mocks
    chosen = choose_classes(ctx, classes, None if thorough and os.environ.get("C04_ALL_CLASSES") else (3 if thorough else 2))
    only = None
    if getattr(ctx, "replay", None):
        # --replay <file>: re-run every exported history of the replay's shape on the replay's class (all 8 option sets)
        rp = json.loads(open(ctx.replay).read())
        only = (rp.get("detail") or {}).get("class")
        if not only or "shape" not in only:
            only = []          # e.g. a hang report: nothing to restrict to, run everything
        only = [c for c in classes if only and c["shape"] == only["shape"] and c["names"] == only["names"] and c["types"] == only["types"]
                and c["mnames"] == only.get("mnames", "AB")]
        if only:
            chosen = {shape_key(only[0]["shape"]): only}
        else:
            only = None
    all_shapes = list(shapes)
    global MULTI_SHAPES
    MULTI_SHAPES = None if thorough or only else set(ctx.rng.sample([sk for sk, _ in shapes], 8))
    deep = [s for _, s in shapes]
    if only:
        deep = [only[0]["shape"]]
    else:
        # every shape exhaustively to depth ShallowHist (quick 3, thorough 4); a seed-rotated subset to MaxHist (5 / 6).
        # The model check itself (step 1) always covers every shape to MaxHist.
        var_ = [s for s in deep if s["var"] and s["ar"] >= 2 and s["nres"] >= 1]
        fix_ = [s for s in deep if not s["var"] and s["ar"] >= 2 and s["nres"] >= 1]
        rest = [s for s in deep if s not in var_ and s not in fix_]
        ctx.rng.shuffle(var_), ctx.rng.shuffle(fix_), ctx.rng.shuffle(rest)
        if not thorough:     # the two widest shapes carry the per-name-set / per-type-set coverage classes: keep them shallow in quick
            var_ = [s for s in var_ if not (s["ar"] == 3 and s["nres"] == 3)]
            fix_ = [s for s in fix_ if not (s["ar"] == 3 and s["nres"] == 3)]
        deep = (var_[:3] + fix_[:4] + rest[:2]) if thorough else [var_[0], fix_[0]]
    mc = mc_module("MatryerMockRun", deep)
    chunks = ["Opts00", "Opts01", "Opts10", "Opts11"]
    exports = []
    for ci, opts in enumerate(chunks):      # the exports run in the background while the mocks are generated and built
        res = {}
        th = tlc_bg(ctx, "export%d" % ci, "MatryerMockRun", export_cfg(base, opts, 4 if thorough else 3, False, bool(only)),
                    {"MatryerMockRun.tla": mc}, 1, 2400, False, res)
        exports.append((th, res))
    t_gen = time.time()
    w, live, skipped, drv = build_world(ctx, chosen)
    t_gen = time.time() - t_gen
    tick(ctx, "generate_and_build")
    for cid, why in sorted(skipped.items()):
        c = [c for sk in sorted(chosen) for c in chosen[sk]][int(cid[1:]) - 1]
        ctx.note("class skipped, generated mock does not compile (C01's business): names=%s types=%s shape=%s: %s"
                 % (c["names"], c["types"], shape_key(c["shape"]), why))
    plan_classes = {}
    for cid, c in live.items():
        plan_classes.setdefault(shape_key(c["shape"]), []).append(cid)
    if only:
        shapes = [(sk, s) for sk, s in shapes if sk in plan_classes]
    for sk, _ in shapes:
        if not plan_classes.get(sk):
            raise MachineryError("no compilable class left for shape " + sk)
    live_names = {c["names"] for c in live.values()}
    for need in ("plain", "unnamed", "blank", "blankmix", "initialism", "nonascii", "locals"):
        if need not in live_names and not only:
            raise MachineryError("vacuous: no compilable class with parameter-name set %r" % need)
    live_m = {c.get("mnames", "AB") for c in live.values()}
    for need in MNAMES:
        if need not in live_m and not only:
            raise MachineryError("vacuous: no compilable class with method-name set %r" % need)
    plan_pkgs = {}
    for k, skip, stub, resets in OPT_PKGS:
        plan_pkgs.setdefault("%s/%s" % ("true" if stub else "false", "true" if resets else "false"), []).append("o%d" % k)

    multi_pkgs = []
    for d in ("x0", "x1", "y0", "y1"):
        for j, skip, stub in MULTI_ORDER:
            pp = "%s.%d" % (d, j)
            multi_pkgs.append(pp)
            plan_pkgs["%s/%s" % ("true" if stub else "false", "true" if d[1] == "1" else "false")].append(pp)

    placed_pkgs = []
    if True:
        for pkg, wd, cid in placed(live):
            eff = placed_eff(wd)            # computed by TLC (MatryerMockContract!EffSwitch), not here
            plan_pkgs["%s/%s" % ("true" if eff["stub"] else "false", "true" if eff["resets"] else "false")].append(pkg)
            placed_pkgs.append(pkg)
        # vacuity: for stub-impl every (outer level, inner level) pair with the inner level contradicting the outer one,
        # in both directions (the explicit false under a true is the one a "zero value = unset" merge gets wrong)
        flips = {tuple(f) for _, wd, _ in placed(live) for f in wd["stub-impl"]["flips"]}
        need = {(PLACE_LEVELS[i], PLACE_LEVELS[j], v) for i in range(4) for j in range(i + 1, 4) for v in ("true", "false")}
        if need - flips:
            raise MachineryError("vacuous: no placed mock overrides stub-impl for %s" % sorted(need - flips)[:4])
        if not any(f[2] == "false" for _, wd, _ in placed(live) for f in wd["with-resets"]["flips"] + wd["skip-ensure"]["flips"]):
            raise MachineryError("vacuous: no placed mock switches with-resets / skip-ensure off under an outer true")

    # ------------------------------------------------------------ 2b. export histories, replay them on the mocks
    stats = {"len": {}, "sample": []}
    d = ctx.mkdir("replay")
    totals = {"cases": 0, "replays": 0, "matched": 0, "mismatched": 0, "steps": 0, "mismatch_distinct": 0, "mismatch_kept": 0}
    per_key = {}
    all_traces = []
    hang = None
    n_sample_target = 6000 if thorough else 1000
    for ci, opts in enumerate(chunks):
        exports[ci][0].join()
        if exports[ci][1].get("timeout") or "r" not in exports[ci][1]:
            raise MachineryError("TLC export run timed out")
        ex = exports[ci][1].pop("r")
        if not ex.ok:
            raise MachineryError("TLC export run failed:\n" + ex.tail())
        tick(ctx, "tlc_export_%d" % ci)
        cases_path = d / ("cases%d.ndjson" % ci)
        n = export_cases(ctx, ex.text, cases_path, stats)
        tick(ctx, "write_cases_%d" % ci)
        ex.text = ""
        if n < (25 if only else 250):
            raise MachineryError("too few exported histories (%d): vacuous" % n)
        fan = sum(len(v) for v in plan_classes.values()) / 28.0 * 1.2
        every = max(1, int(n * fan / (n_sample_target / len(chunks))))
        plan = {"classes": plan_classes, "pkgs": plan_pkgs, "trace_every": every, "trace_offset": ctx.seed % every,
                "max_mismatch": 20000, "class_types": {cid: c["types"] for cid, c in live.items()},
                "class_refpos": {cid: c["refpos"] for cid, c in live.items()}, "light_pkgs": ["o%d" % k for k, skip, _, _ in OPT_PKGS if skip] + multi_pkgs, "light_max_ops": 2,
                "sparse_pkgs": multi_pkgs + placed_pkgs, "workers": ctx.workers(), "hang_seconds": 30}
        traces, summary, hang = run_driver(ctx, drv, plan, cases_path, d / ("out%d.ndjson" % ci), 3000)
        for t in traces:                       # replay ids are per driver run: make them unique across chunks
            t["replay"] += (ci + 1) * 10 ** 8
            for e in t["events"]:
                e["case"] = t["replay"]
        all_traces += traces
        tick(ctx, "replay_%d" % ci)
        if hang:
            break
        if summary["missing"]:
            raise MachineryError("driver registry lacks %s" % summary["missing"][:5])
        for k in totals:
            totals[k] += summary[k]
        for k, v in summary["per_key"].items():
            a = per_key.setdefault(k, [0, 0])
            a[0] += v[0]
            a[1] += v[1]
        if not os.environ.get("VERIF_KEEP"):
            cases_path.unlink()

    if hang:
        # a step that never returns is real behaviour the contract rejects (a call returns its function's results):
        # no replay step made progress for 30 s although every step is a handful of in-memory calls
        ctx.violation({"kind": "hang", "what": "a replayed operation never returned"},
                      {"driver_report": hang, "note": "replay stopped making progress for 30 s; see 'current' for the operations in flight"})
        mc_thread.join()
        return {"level": "model_checking", "exhaustive": False}

    mc_thread.join()
    if mc_res.get("timeout") or "r" not in mc_res:
        raise MachineryError("TLC timed out on the MatryerMock model check")
    mr = mc_res["r"]
    ctx.cov["states"] += mr.distinct
    ctx.cov["transitions"] += mr.generated
    if mr.violated:
        ctx.note("model-level: %s violated on MatryerMock.tla (prediction only; the replay decides)" % mr.violated)
    elif not mr.ok:
        raise MachineryError("TLC failed on MatryerMock:\n" + mr.tail())
    if thorough:
        z = mr.coverage_zero()
        if z:
            raise MachineryError("vacuous: spec actions never taken: %s" % z[:5])
    model_states, model_trans = mr.distinct, mr.generated
    tick(ctx, "model_check_join")

    # vacuity
    for k in GUARDS:
        if not stats.get(k) and not only:
            raise MachineryError("vacuous: no exported history contains %s" % k)
    if not stats.get("read_reset_call_reinspect") and not only:
        raise MachineryError("vacuous: no exported history of the shape read -> reset -> call (other arguments) -> re-inspect")
    maxlen = max(stats["len"])
    if maxlen < (6 if thorough else 5):
        raise MachineryError("vacuous: longest exported history has %d ops" % maxlen)
    for k, skip, stub, resets in OPT_PKGS:
        for cid in live:
            if per_key.get("o%d/%s" % (k, cid), [0, 0])[0] + per_key.get("o%d/%s" % (k, cid), [0, 0])[1] == 0:
                raise MachineryError("vacuous: no history was replayed on o%d/%s" % (k, cid))

    for cid in multi_classes(live):
        for pp in multi_pkgs:
            if sum(per_key.get("%s/%s" % (pp, cid), [0, 0])) == 0:
                raise MachineryError("vacuous: no history was replayed on the multi-mock file entry %s/%s" % (pp, cid))
    ctx.cov["multi_mock_file_entries"] = len(multi_pkgs) * len(multi_classes(live))
    if True:
        for pkg, wd, cid in placed(live):
            if sum(per_key.get("%s/%s" % (pkg, cid), [0, 0])) == 0:
                raise MachineryError("vacuous: no history was replayed on the placed mock %s/%s" % (pkg, cid))
        ctx.cov["placed_mocks"] = len(placed_pkgs)
        ctx.cov["placed_mocks_inner_false_under_outer_true"] = sum(
            1 for _, wd, _ in placed(live) if any(f[2] == "false" for key, _ in PLACE_KEYS for f in wd[key]["flips"]))

    # ------------------------------------------------------------ 3. TLC judges the recorded op logs (contract)
    for t in all_traces:
        for e in t["events"]:
            if str(e.get("reply", {}).get("kind", "")).startswith("broken:reference-position"):
                raise MachineryError("abstraction table RefPositions (MatryerMockContract.tla) disagrees with the generated "
                                     "parameter types for %s: %s" % (t["key"], e["reply"]["kind"]))
    matching = [t for t in all_traces if t["mismatch"] is None]
    mism = [t for t in all_traces if t["mismatch"] is not None]
    if not matching and not mism:
        raise MachineryError("driver recorded no op log")
    n_ok, rej = validate(ctx, matching, "sampled matching replays")
    for rj in rej:   # cannot happen unless Impl =/=> Contract within bounds or the driver's comparison is broken
        report(ctx, rj, live, "matching-replay-rejected")
    # first a slice of the mismatching replays: one rejection is a verdict; only if all of those are accepted (drift) the rest
    n_ok2, rej2 = validate(ctx, mism[:1500], "mismatching replays")
    if not rej2 and len(mism) > 1500:
        n_ok3, rej2 = validate(ctx, mism[1500:], "mismatching replays (rest)")
        n_ok2 += n_ok3
    elif rej2:
        mism = mism[:1500]
    for rj in rej2:
        report(ctx, rj, live, "contract-rejects")
    accepted_mismatch = len(mism) - len(rej2)
    if accepted_mismatch:
        ex0 = [t for t in mism if t not in [x["trace"] for x in rej2]][0]
        ctx.note("drift: %d replay(s) differ from the code-shaped model but satisfy the contract, e.g. %s step %s"
                 % (accepted_mismatch, ex0["key"], json.dumps(ex0["mismatch"], sort_keys=True)[:600]))
    if totals["mismatch_distinct"] > totals["mismatch_kept"] and not rej2:
        raise MachineryError("%d distinct mismatching behaviours but only %d op logs were kept and none was rejected: undecided"
                             % (totals["mismatch_distinct"], totals["mismatch_kept"]))
    if not ctx.violations and not ctx.known_hits:
        selftest_binding(ctx, matching)
    tick(ctx, "trace_validation")
    ctx.cov["traces_validated_against_impl"] += n_ok + n_ok2 + len(rej) + len(rej2)
    ctx.cov["evaluations"] += totals["replays"]
    ctx.cov["distinct_nontrivial"] = sum(v for k, v in stats["len"].items() if k >= 2)
    ctx.cov["rule"] = ("every transition TLC generated on MatryerMock.tla, exported with a representative history and replayed on "
                       "each chosen class (mocks generated with skip-ensure=true: histories of <= 2 operations only); "
                       "non-trivial = history of >= 2 operations")
    ctx.cov.update({"model_states": model_states, "model_transitions": model_trans, "histories_exported": totals["cases"],
                    "history_length_histogram": {str(k): v for k, v in sorted(stats["len"].items())},
                    "replays": totals["replays"], "replay_steps": totals["steps"], "replays_matching_model": totals["matched"],
                    "replays_differing_from_model": totals["mismatched"], "classes_generated": len(live),
                    "classes_skipped_not_compiling": len(skipped), "mocks_generated": len(live) * 8 + 16 * len(multi_classes(live)) + len(placed_pkgs),
                    "generate_and_build_s": round(t_gen, 1),
                    "deep_shapes": [shape_key(s) for s in deep],
                    "situations_in_exported_histories": {k: stats.get(k, 0) for k in list(GUARDS) + ["read_reset_call_reinspect"]}})
    rich = [t for t in matching if live[t["key"].split("/")[1]]["shape"]["ar"] >= 2 and len(t["events"]) >= 4
            and any(e["op"] == "call" and e["fwd"] for e in t["events"])]
    for t in (rich or matching)[:2]:
        cid = t["key"].split("/")[1]
        ctx.sample({"mock": t["key"], "class": live[cid], "interface": iface_src(cid, live[cid]), "op_log": t["events"][:5]})
    if stats["sample"]:
        ctx.sample({"exported_case": stats["sample"][0]})
    ctx.assumptions += [
        "TLC explores all histories up to MaxHist over the call alphabet of MatryerMock.tla (two tags on A, variadic lengths 0/1/2, one tag on B); small-scope",
        "matching replays are judged by the model check (code-shaped layer satisfies the contract on exactly these histories); a rotating sample of them and every mismatching replay is judged directly by TLC trace validation",
        "records and MFunc arguments are compared by position (reflection), never by field name",
        "classes whose generated mock does not compile are skipped (C01 decides those)",
    ]
    return {"level": "model_checking", "exhaustive": False}


def selftest_binding(ctx, matching):
    """The trace spec must be able to reject: (a) transpose two fields of one recorded record, (b) drop one
    call event (its record then appears from nowhere).  Both corrupted op logs must be REJECTED."""
    pick = None
    for t in matching:
        for i, e in enumerate(t["events"]):
            if e["op"] == "call" and len(e["args"]) >= 2 and e["args"][0] != e["args"][1] and e["logs"]["A"] \
                    and e["reply"]["kind"] == "ret" and i + 1 < len(t["events"]) \
                    and t["events"][i + 1]["op"] in ("call", "setfunc"):
                pick = (t, i)
                break
        if pick:
            break
    if not pick:
        raise MachineryError("self-test: no sampled op log with a recorded two-argument call")
    t, i = pick
    a = json.loads(json.dumps(t))
    rec = a["events"][i]["logs"]["A"][-1]
    rec[0], rec[1] = rec[1], rec[0]
    a["replay"] = 10 ** 9 + 1
    b = json.loads(json.dumps(t))
    del b["events"][i]
    b["replay"] = 10 ** 9 + 2
    c = json.loads(json.dumps(t))          # (c) the other mock instance loses its record during the history
    c["events"][i]["by"]["A"] = []
    c["replay"] = 10 ** 9 + 3
    for x in (a, b, c):
        for e in x["events"]:
            e["case"] = x["replay"]
    n_ok, rej = validate(ctx, [a, b, c], "self-test (corrupted op logs)")
    if len(rej) != 3 or rej[-1].get("clause") != "OtherInstanceUntouched":
        raise MachineryError("self-test: MatryerMockTrace accepted a corrupted op log (%d of 3 rejected: %s)"
                             % (len(rej), [r.get("clause") for r in rej]))
    ctx.cov["selftest_corrupted_oplogs_rejected"] = 3


def report(ctx, rj, live, kind):
    t = rj["trace"]
    seen = ctx.__dict__.setdefault("_c04_seen", {})
    cid = t["key"].split("/")[1]
    pkgpart = t["key"].split("/")[0]
    world = None
    if pkgpart.startswith("pw"):
        world = PLACED_WORLDS[int(pkgpart[2:])]
        eff = placed_eff(world)
        k = (1 if eff["skip"] else 0) | (2 if eff["stub"] else 0) | (4 if eff["resets"] else 0)
    elif pkgpart[0] == "o":
        k = int(pkgpart[1])
    else:                                   # multi-mock file entry "x<r>.<j>" / "y<r>.<j>", j = skip + 2*stub
        k = int(pkgpart.split(".")[1]) | (4 if pkgpart[1] == "1" else 0)
    c = live.get(cid, {})
    at = rj["at"]
    sig = {"kind": kind, "clause": rj.get("clause"), "op": at.get("op"), "names": c.get("names"), "types": c.get("types"),
           "method_names": c.get("mnames"),
           "layout": "placed" if world else "single" if pkgpart[0] == "o" and not in_package(c) else ("in-package" if pkgpart[0] == "o" else "multi-mock-file-" + pkgpart[0]),
           "variadic": c.get("shape", {}).get("var"), "stub": bool(k & 2), "resets": bool(k & 4),
           "reply": at.get("reply", {}).get("kind")}
    if world:      # which switch is written where (outermost level first); `overridden` = inner level contradicting an outer one
        sig["overridden"] = sorted("%s:%s>%s=%s" % (key, f[0], f[1], f[2]) for key, _ in PLACE_KEYS for f in world[key]["flips"])
    sk = json.dumps(sig, sort_keys=True)
    seen[sk] = seen.get(sk, 0) + 1
    if seen[sk] > 1 or len(seen) > 15:
        return
    ctx.violation(sig, {"mock": t["key"], "class": c, "interface": iface_src(cid, c) if c else None,
                        "options": {"skip-ensure": bool(k & 1), "stub-impl": bool(k & 2), "with-resets": bool(k & 4)},
                        "placement": ({key: dict(zip(PLACE_LEVELS, world[key]["lv"])) for key, _ in PLACE_KEYS} if world else None),
                        "rejected_step": rj["step"], "rejected_event": at, "op_log": t["events"],
                        "model_expected": t.get("mismatch"), "contract": "spec/MatryerMockContract.tla (StepOK)"})


if __name__ == "__main__":
    main("C04", run)
