#!/usr/bin/env python3
"""C20 -- release tagger: dry-run mutates nothing; only strictly newer versions are tagged.

1. TLC checks the code-shaped model of tools/cmd/tag.go (spec/Tagger.tla: gate / tag-full / tag-major /
   exit, plus the maintainer's Commit / Checkout / UserTag / Touch between invocations) against the
   contract (spec/TaggerContract.tla) over all repository histories up to MaxHist, and exports every
   generated invocation (RunExit transition) with a representative history and the contract's set of
   allowed outcomes.
2. spec -> code: every exported history is replayed in a scratch git repository (own bare `origin`,
   tracked or parent-directory mockery-tools.env, loose or packed refs) with the REAL `tools` binary built
   from the working tree; tags (name, object, kind, peeled commit), HEAD, branches, remote refs, work tree
   and status are observed with git before/after every step and the observed outcome of every invocation
   is compared with the allowed outcomes exported by TLA+.
3. code -> spec: the op log of every replay (actions, observations, exit class) is validated by TLC
   against spec/TaggerTrace.tla (the contract), concatenated with reset events.
4. Long random histories (TLC -simulate on the same model: every second step an invocation, VERSION bumps,
   commits, user tags in between) are replayed and validated the same way, so the tool also meets the tags
   it created itself.
Coverage table (statement clause / quantifier dimension -> where it is explored -> what is still thin):
  dry-run is the default, mutates nothing   Flags {absent,true,false} x 11 command-line spellings (bare, =1/=T/=0/=False, repeated
                                            flags, last one wins); every observation before/after      -> env-var / config-file
                                            ways of setting dry-run are not driven (the code reads none)
  only on a clean work tree                 Touch over the work-tree states of spec/TaggerWorktree.tla (HEAD / index / work-tree entry per
                                            path over a clean remainder; status and "clean iff git status prints nothing" COMPUTED in
                                            TLA+): content (unstaged, staged, staged+edited, staged+reverted, same size + old mtime),
                                            mode only (chmod +x / -x, staged, index-only via update-index --chmod, file replaced by a
                                            same-content file of another mode), deletion (unstaged, staged, rm --cached), rename (git mv /
                                            mv), untracked (file, in a new directory), staged new file, symlink retarget, type change
                                            (file->symlink unstaged/staged, symlink->file with the same blob), CLEAN states (ignored
                                            file / directory, rewritten or touched file, empty directory) and combinations; the real
                                            `git status` is the independent oracle for every state (class + gitclean, also judged by
                                            TaggerTrace.tla); every state meets a real invocation with a newer version whatever the
                                            budget; 4 states at any point of a history, the others as its first step
                                            -> submodules, linked worktrees, CRLF / filters, core.fileMode=false, intent-to-add,
                                            unmerged entries, global excludes and .git/info/exclude are absent
  strictly greater than every existing      NameTable x ReqTable: release / pre-release (alpha.2 < alpha.10 < rc.1 < release), build
  FULL semver tag of the same major         metadata, v-less, two-part, major-only, leading zero, other majors, non-version and
                                            hierarchical names; tags lightweight / annotated / on a tree object / sharing another
                                            tag's object (Alias); on HEAD, on ancestors, on the sibling branch `side`, HEAD attached
                                            or detached; "pivot" cases = every (request, single existing tag) relation TLC generates
                                            is always replayed                                      -> nested tags (tag of a tag),
                                            tags on blobs, more than ~3 tags at once only in simulated histories
  requested version                         tracked env file / parent directory / both (the one in "." wins) / missing / empty /
                                            invalid; Bump between invocations in simulated histories   -> quoting, CRLF, `export`
                                            and whitespace spellings inside the env file are not driven
  creates v<canonical> at HEAD, moves       contract Allowed(): exactly the two refs, commit = HEAD (attached main/side, detached),
  v<major>, changes nothing else            every other ref bit-identical, branches, origin (byte for byte), work tree, status,
                                            config, env files, packed-refs structure, `git fsck` connectivity after every invocation
                                            -> reflogs, hooks and unreachable objects are not observed; objects are packed only in
                                            the initial history (tags created later are loose)
  otherwise refs untouched, exit signals    exit classes ok / nothing (8) / error; stale, dirty, invalid => non-zero in both modes
                                            -> which of 8 / 1 is used is left open (the statement says "or")
  refs that are no tags                     Branch: refs/heads/<vN | vN.M.P> (also as the current branch) and refs/remotes/origin/<vN>
                                            next to, or instead of, the tag of the same short name   -> refs/notes, refs/stash,
                                            refs/<vN> directly under refs/ are absent
  histories                                 breadth-first to 3 (quick) / 4 (thorough) actions from a forked 3-commit history +
                                            simulated 6 / 10 step histories with 3 / 5 invocations each

The semver abstraction tables of the spec are recomputed with Masterminds/semver (drivers/tagger, built
inside the tools module of the snapshot); any disagreement is exit 2.
"""
import concurrent.futures as cf
import hashlib
import json
import os
import re
import shlex
import shutil
import subprocess
import sys
import time

sys.path.insert(0, os.path.join(os.path.dirname(__file__), "..", "lib"))
import vlib  # noqa: E402
from vlib import MachineryError, main  # noqa: E402

EXIT_CLASS = {0: "ok", 8: "nothing"}
STRICT_RE = re.compile(r"^v?(0|[1-9]\d*)\.(0|[1-9]\d*)\.(0|[1-9]\d*)(-[0-9A-Za-z-]+(\.[0-9A-Za-z-]+)*)?(\+[0-9A-Za-z-]+(\.[0-9A-Za-z-]+)*)?$")


# ---------------------------------------------------------------------------------------------- helpers
def git_env(home):
    env = {"PATH": os.environ.get("PATH", "/usr/bin:/bin"), "HOME": str(home), "GIT_CONFIG_GLOBAL": "/dev/null",
           "GIT_CONFIG_SYSTEM": "/dev/null", "GIT_CONFIG_NOSYSTEM": "1", "GIT_TERMINAL_PROMPT": "0", "LC_ALL": "C",
           "TZ": "UTC", "GIT_AUTHOR_NAME": "verif", "GIT_AUTHOR_EMAIL": "verif@example.com",
           "GIT_COMMITTER_NAME": "verif", "GIT_COMMITTER_EMAIL": "verif@example.com", "NO_COLOR": "1",
           "GIT_OPTIONAL_LOCKS": "0"}
    return env


def git(cwd, env, *args, ok=True):
    p = subprocess.run(["git", *args], cwd=cwd, env=env, capture_output=True, text=True, timeout=60)
    if ok and p.returncode != 0:
        raise MachineryError(f"git {' '.join(args)} failed in {cwd}: {p.stderr[-400:]}")
    return p.stdout


def build_semver_driver(ctx):
    """drivers/tagger is built inside the *tools* module of the snapshot (that module requires
    Masterminds/semver; ctx.build_driver builds in the root module, which does not)."""
    snap = ctx.snapshot()
    dst = snap / "tools" / "internal" / "verifdrv" / "tagger"
    shutil.copytree(vlib.VERIF / "drivers" / "tagger", dst, dirs_exist_ok=True)
    out = ctx.scratch / "bin-semver"
    r = subprocess.run(["go", "build", "-o", str(out), "./internal/verifdrv/tagger"], cwd=snap / "tools",
                       env=vlib.go_env(workspace=True), capture_output=True, text=True)
    if r.returncode != 0:
        raise MachineryError("building drivers/tagger inside the tools module failed:\n" + r.stderr[-1500:])
    return out


def check_tables(ctx, table):
    """The spec's NameTable / ReqTable / VLess against the real library.  Disagreement = exit 2."""
    drv = build_semver_driver(ctx)
    names, reqs = table["names"], table["reqs"]
    strings = sorted(set(names) | {r for r in reqs if r != "<missing>"})
    d = ctx.mkdir("semver")
    (d / "in.json").write_text(json.dumps({"strings": strings}))
    p = subprocess.run([str(drv), str(d / "in.json"), str(d / "out.json")], capture_output=True, text=True, timeout=60)
    if p.returncode != 0:
        raise MachineryError("semver driver failed: " + p.stderr[-400:])
    lib = json.loads((d / "out.json").read_text())
    info = lib["info"]
    less = {tuple(x) for x in lib["less"]}
    bad = []
    pre_rank = {}
    for n, t in names.items():
        i = info[n]
        if t["full"] != (i["strict"] and i["parsable"]) or t["full"] != bool(STRICT_RE.match(n)):
            bad.append(f"full({n})")
        if t["dots3"] != i["dots3"] or t["parsable"] != i["parsable"]:
            bad.append(f"dots3/parsable({n})")
        if i["parsable"]:
            if (t["maj"], t["min"], t["pat"]) != (i["maj"], i["min"], i["pat"]) or (t["pre"] == 0) != (i["pre"] == ""):
                bad.append(f"parts({n})")
            if pre_rank.setdefault(t["pre"], i["pre"]) != i["pre"]:
                bad.append(f"pre-rank({n})")
    for r, t in reqs.items():
        if r == "<missing>":
            if t["valid"]:
                bad.append("valid(<missing>)")
            continue
        i = info[r]
        if t["valid"] != (i["parsable"] and r != ""):
            bad.append(f"valid({r})")
        if t["valid"]:
            if (t["maj"], t["min"], t["pat"]) != (i["maj"], i["min"], i["pat"]) or (t["pre"] == 0) != (i["pre"] == ""):
                bad.append(f"parts(req {r})")
            if pre_rank.setdefault(t["pre"], i["pre"]) != i["pre"]:
                bad.append(f"pre-rank(req {r})")
            if t["fullname"] != "v" + i["str"] or t["majorname"] != "v" + str(i["maj"]):
                bad.append(f"names(req {r})")
            for nm in (t["fullname"], t["majorname"]):
                if nm not in names:
                    bad.append(f"name {nm} of request {r} not in NameTable")
    pn = [n for n in names if names[n]["parsable"]]
    tl = {tuple(x) for x in table["less"]}
    for a in pn:
        for b in pn:
            if ((a, b) in tl) != ((a, b) in less):
                bad.append(f"VLess({a},{b})")
    rl = {tuple(x) for x in table["reqless"]}
    rg = {tuple(x) for x in table["reqgreater"]}
    for r, t in reqs.items():
        if not t["valid"]:
            continue
        for b in pn:
            if ((r, b) in rl) != ((r, b) in less) or ((r, b) in rg) != ((b, r) in less):
                bad.append(f"VLess(req {r},{b})")
    if bad:
        raise MachineryError("spec/TaggerTables.tla disagrees with Masterminds/semver: " + ", ".join(bad[:12]))
    return len(pn) * len(pn) + 2 * len([r for r in reqs if reqs[r]["valid"]]) * len(pn) + len(names) + len(reqs)


# ---------------------------------------------------------------------------------------------- scratch repositories
class Templates:
    """One template (work tree `repo`, bare `origin.git`, env file) per (version, layout); copied per case."""

    def __init__(self, ctx):
        self.ctx = ctx
        self.root = ctx.mkdir("templates")
        self.home = ctx.mkdir("home")
        self.env = git_env(self.home)
        self.empty = ctx.mkdir("empty-template")
        self.made = {}

    def get(self, version, layout):
        key = (version, layout)
        if key in self.made:
            return self.made[key]
        d = self.root / f"t{len(self.made)}"
        repo = d / "repo"
        repo.mkdir(parents=True)
        e = self.env
        git(repo, e, "init", "-q", "-b", "main", f"--template={self.empty}", ".")
        git(repo, e, "config", "user.name", "verif")
        git(repo, e, "config", "user.email", "verif@example.com")
        git(repo, e, "config", "commit.gpgsign", "false")
        git(repo, e, "config", "tag.gpgsign", "false")
        (repo / "log.txt").write_text("content of log.txt\n")
        (repo / ".gitignore").write_text("*.log\n")
        # the tracked paths the work-tree states of spec/TaggerWorktree.tla are about (WtBase), once per generation
        # directory: the N-th Touch of a history works in g<N>/ (an earlier one may have been committed)
        if not WT["base"]:
            raise MachineryError("work-tree table (TABLE.wt / replay file) not loaded before the templates are made")
        sh = [c for g in range(GENERATIONS) for pth, ent in sorted(WT["base"].items())
              for c in sh_put(f"g{g}/{pth}", ent, "replace", None)]
        p = subprocess.run(["sh", "-c", "set -e\n" + "\n".join(sh)], cwd=repo, env=e, capture_output=True, text=True)
        if p.returncode != 0:
            raise MachineryError(f"template: cannot create the generation directories: {p.stderr[-300:]}")
        if version != "<missing>":
            # viper searches "." before "../" (root.go:31-32): in layout "both" the tracked file in the work tree is
            # the requested version and the one in the parent directory is a decoy that must never be read
            envfile = (d if layout == "parent" else repo) / "mockery-tools.env"
            envfile.write_text(f"VERSION={version}\n")
            if layout == "both":
                (d / "mockery-tools.env").write_text("VERSION=v9.9.9\n")
        git(repo, e, "add", "-A")
        git(repo, e, "commit", "-q", "-m", "c1")
        # history  1 <- 2 (main, HEAD)   and   1 <- 3 (side): tags may sit on commits that are no ancestors of HEAD
        git(repo, e, "checkout", "-q", "-b", "side")
        (repo / "side.txt").write_text("only on side\n")
        git(repo, e, "add", "-A")
        git(repo, e, "commit", "-q", "-m", "c3")
        git(repo, e, "checkout", "-q", "main")
        with open(repo / "log.txt", "a") as f:
            f.write("c2\n")
        git(repo, e, "add", "-A")
        git(repo, e, "commit", "-q", "-m", "c2")
        git(d, e, "init", "-q", "--bare", "-b", "main", f"--template={self.empty}", "origin.git")
        git(repo, e, "remote", "add", "origin", "../origin.git")
        git(repo, e, "push", "-q", "-u", "origin", "main")
        git(repo, e, "push", "-q", "-u", "origin", "side")
        for gd in (repo, d / "origin.git"):      # few files => cheap per-case copies; clones look like this too
            git(gd, e, "repack", "-a", "-d", "-q")
            git(gd, e, "prune-packed", "-q")
        c1 = {git(repo, e, "rev-parse", r).strip(): i for r, i in (("main~1", 1), ("main", 2), ("side", 3))}
        if len(c1) != 3:
            raise MachineryError("template repository: the three initial commits are not distinct")
        obs0 = Repo(d, e, c1, False).observe()     # identical in every copy of the template
        self.made[key] = (d, c1, obs0)
        return self.made[key]


class HarnessStepFailed(MachineryError):
    """one of the harness' own git commands failed (never a verdict)"""


class Repo:
    def __init__(self, root, env, c1, packed):
        self.root = root
        self.repo = root / "repo"
        self.env = env
        self.commits = dict(c1)  # sha -> index (1 <- 2 main, 1 <- 3 side)
        self.ids = {}           # tag object oid -> serial
        self.ntouch = 0         # Touch steps so far (selects the generation directory)
        self.packed = packed

    def g(self, *a, ok=True):
        return git(self.repo, self.env, *a, ok=ok)

    OBS_SH = """
git for-each-ref --format='%(refname)%09%(objectname)%09%(objecttype)%09%(*objectname)%09%(*objecttype)' || exit 91
echo @@C20SEP@@
if [ -f .git/packed-refs ]; then git show-ref --tags -d; fi
echo @@C20SEP@@
git status --porcelain=v2 --branch --ignored --untracked-files=all || exit 92
"""

    FSCK_SH = """echo @@C20SEP@@
git fsck --no-dangling --connectivity-only 2>&1
"""

    def observe(self, new_commit=False, pre=(), fsck=False):
        """Run the harness' own git commands `pre` (if any) and then observe the repository, all in ONE shell
        process (process creation dominates the cost of a replay)."""
        script = "".join(f"{c} || exit 90\n" for c in pre) + self.OBS_SH + (self.FSCK_SH if fsck else "")
        p = subprocess.run(["sh", "-c", script], cwd=self.repo, env=self.env, capture_output=True, text=True, timeout=120)
        if p.returncode == 90:
            raise HarnessStepFailed(f"harness git step failed in {self.repo}: {pre}: {p.stderr[-400:]}")
        if p.returncode != 0:
            raise MachineryError(f"git cannot read {self.repo} (exit {p.returncode}): {p.stderr[-400:]}")
        parts = p.stdout.split("@@C20SEP@@\n")
        if len(parts) != (4 if fsck else 3):
            raise MachineryError(f"unexpected observation output in {self.repo}: {p.stdout[-300:]}")
        refs, showref, st = parts[:3]
        tags, raw, others = {}, {}, []
        if fsck:
            # after every invocation: every ref must still resolve and nothing reachable may be missing
            # ("changes nothing else" includes not deleting objects other refs need)
            others += ["fsck: " + ln for ln in parts[3].splitlines()
                       if re.match(r"(error|fatal|missing|broken|bad|dangling ref|warning)", ln.strip())]
        for ln in refs.splitlines():
            name, oid, typ, poid, ptyp = (ln.split("\t") + ["", "", "", ""])[:5]
            if name.startswith("refs/tags/"):
                short = name[len("refs/tags/"):]
                if typ == "commit":
                    rec = {"c": self.commits.get(oid, 99), "k": "light", "id": 0}
                elif typ == "tag":
                    rec = {"c": self.commits.get(poid, 99) if ptyp == "commit" else 98, "k": "annotated",
                           "id": self.ids.setdefault(oid, len(self.ids) + 1)}
                elif typ == "tree":
                    rec = {"c": 0, "k": "tree", "id": 0}      # a version-named ref with no commit behind it
                else:
                    rec = {"c": 97, "k": typ, "id": 0}
                tags[short] = rec
                raw[short] = {"oid": oid, "type": typ, "peeled": poid or oid}
            else:
                others.append(ln)
        # git's own ref-store view (`git show-ref --tags -d` trusts the peeled values cached in packed-refs);
        # it can differ from what the objects say only when a packed-refs file exists
        if (self.repo / ".git" / "packed-refs").exists():
            for ln in showref.splitlines():
                oid, _, name = ln.partition(" ")
                short = name[len("refs/tags/"):]
                if short.endswith("^{}"):
                    raw.setdefault(short[:-3], {})["showref_peeled"] = oid
                else:
                    raw.setdefault(short, {})["showref"] = oid
            for short, rw in raw.items():
                sane = rw.get("showref") == rw.get("oid") and rw.get("showref_peeled", rw.get("oid")) == rw.get("peeled")
                tags.setdefault(short, {"c": 96, "k": "?", "id": 0})["sane"] = sane
            others += self.packed_anomalies()
        else:
            for short in tags:
                tags[short]["sane"] = True
        head_oid, head_sym, entries = "", "", []
        for ln in st.splitlines():
            if ln.startswith("# branch.oid "):
                head_oid = ln.split(" ", 2)[2]
            elif ln.startswith("# branch.head "):
                head_sym = ln.split(" ", 2)[2]
            elif ln.startswith("# "):
                others.append(ln)
            else:
                entries.append(ln)
        remote = vlib.tree_hash(self.root / "origin.git")      # the whole bare remote, byte for byte
        tree = vlib.tree_hash(self.repo, skip=(".git",))
        if new_commit and head_oid not in self.commits:
            self.commits[head_oid] = len(self.commits) + 1
        cfgh = vlib.sha((self.repo / ".git" / "config").read_bytes())
        envs = []
        for p in (self.repo / "mockery-tools.env", self.root / "mockery-tools.env"):
            envs.append(p.read_text() if p.exists() else None)
        extra = sorted(x for x in os.listdir(self.root) if x not in ("repo", "origin.git", "mockery-tools.env"))
        other_struct = {"refs": sorted(others), "head_sym": head_sym, "status": entries, "remote": remote,
                        "tree": tree, "config": cfgh, "env": envs, "siblings": extra}
        other = hashlib.sha256(json.dumps(other_struct, sort_keys=True).encode()).hexdigest()[:20]
        # git's own verdict (nothing but ignored paths listed), recorded independently of the class matching
        gitclean = all(x.startswith("! ") for x in entries)
        return {"tags": tags, "head": self.commits.get(head_oid, 99), "dirty": classify(entries), "gitclean": gitclean,
                "other": other, "_raw": raw, "_other": other_struct, "_head_oid": head_oid}


def _packed_anomalies(self):
    """Structural damage in .git/packed-refs: a peeled (`^`) line that does not follow the line of a tag object."""
    p = self.repo / ".git" / "packed-refs"
    out = []
    if not p.exists():
        return out
    prev = None
    for ln in p.read_text().splitlines():
        if ln.startswith("#"):
            prev = None
        elif ln.startswith("^"):
            if prev is None:
                out.append("packed-refs: orphan peeled line")
            elif prev[0] not in self.ids:
                out.append(f"packed-refs: peeled line after {prev[1]} which is not a tag object")
            prev = None
        else:
            oid, _, name = ln.partition(" ")
            prev = (oid, name)
    return out


Repo.packed_anomalies = _packed_anomalies


GENERATIONS = 4
# spec/TaggerWorktree.tla as exported by TLC (TABLE.wt, or the copy inside a replay file): base = tracked paths of every
# generation directory, classes = status set (as computed in TLA+) -> name of the observation class
WT = {"base": {}, "classes": {}, "table": None}


def load_wt(table):
    WT["table"] = table
    WT["base"] = dict(table["base"])
    WT["classes"] = {}
    for name, k in table["kinds"].items():
        key = frozenset((e["a"], e["c"], e["p"], e["o"]) for e in k["status"])
        if k["class"] == name:
            if key in WT["classes"]:
                raise MachineryError(f"work-tree table: classes {name} and {WT['classes'][key]} have the same status")
            WT["classes"][key] = name
    for name, k in table["kinds"].items():
        key = frozenset((e["a"], e["c"], e["p"], e["o"]) for e in k["status"])
        if WT["classes"].get(key) != k["class"]:
            raise MachineryError(f"work-tree table: class of {name} is inconsistent")


def status_set(entries):
    """`git status --porcelain=v2` lines -> the entry set in the vocabulary of TaggerWorktree.tla (staged column /
    work-tree column per path, exact renames, `?`, `!`); paths relative to their generation directory."""
    def norm(p):
        return re.sub(r"^g\d+/", "", p)
    out = set()
    for e in entries:
        if e[:2] in ("? ", "! "):
            out.add(("w", e[0], norm(e[2:]), ""))
        elif e.startswith("1 "):
            f = e.split(" ", 8)
            if f[1][0] != ".":
                out.add(("s", f[1][0], norm(f[8]), ""))
            if f[1][1] != ".":
                out.add(("w", f[1][1], norm(f[8]), ""))
        elif e.startswith("2 "):
            f = e.split(" ", 9)
            new, _, old = f[9].partition("\t")
            out.add(("s", f[1][0], norm(new), norm(old)))
            if f[1][1] != ".":
                out.add(("w", f[1][1], norm(new), ""))
        else:
            out.add(("?", e[:12], "", ""))
    return frozenset(out)


def classify(entries):
    """name of the work-tree class whose status, COMPUTED IN TLA+, is what git printed"""
    st = status_set(entries)
    c = WT["classes"].get(st)
    return c if c is not None else "unknown:" + "|".join(sorted(" ".join(x) for x in st))[:200]


def sh_put(path, e, how, old):
    """shell commands that make work-tree `path` the entry `e` of TaggerWorktree.tla (old = what is there now)"""
    q = shlex.quote(path)
    for x in (path, e["c"]):
        if not re.fullmatch(r"[A-Za-z0-9 ._,+#!/-]*", x):
            raise MachineryError(f"work-tree entry {x!r} outside the harness' safe alphabet")
    if how == "touch":
        return [f"touch -d '2001-01-01 00:00:00' {q}"]
    t = e["t"]
    if t == "none":
        return [f"rm -rf {q}"]
    if t == "dir":
        return [f"rm -rf {q}", f"mkdir -p {q}"]
    mk = f"mkdir -p {shlex.quote(os.path.dirname(path) or '.')}"
    if t == "link":
        return [f"rm -rf {q}", mk, f"ln -s {shlex.quote(e['c'])} {q}"]
    if t != "file":
        raise MachineryError(f"unknown entry type {t}")
    wr = f"printf '%s{chr(92) + 'n' if e['nl'] else ''}' {shlex.quote(e['c'])} > {q}"
    ch = f"chmod {'755' if e['x'] else '644'} {q}"
    if how == "keepmtime":
        if not old or old["t"] != "file" or len(old["c"]) != len(e["c"]) or old["nl"] != e["nl"]:
            raise MachineryError("keepmtime needs a regular file and content of the same size")
        return [f'S=$(stat -c %y {q}) && {wr} && touch -d "$S" {q}', ch]
    if how != "replace" and old and old["t"] == "file":       # same inode
        return ([wr] if (old["c"], old["nl"]) != (e["c"], e["nl"]) else []) + [ch]
    return [f"rm -rf {q}", mk, wr, ch]


def touch_commands(paths, gen):
    """The work-tree state of a Touch step (path records h / i / w exported by TLA+) as shell commands."""
    cmds = []
    for r in sorted(paths, key=lambda r: r["p"]):
        path = f"g{gen}/{r['p']}"
        q = shlex.quote(path)
        h, i, w, how = r["h"], r["i"], r["w"], r["how"]
        cur = h
        if i != h:
            if how == "plumbing":
                if h["t"] != "file" or dict(h, x=i["x"]) != i:
                    raise MachineryError(f"plumbing concretisation only for mode-only index changes: {r}")
                cmds.append(f"git update-index --chmod={'+x' if i['x'] else '-x'} -- {q}")
            elif i["t"] == "none":
                cmds.append(f"git rm -q --cached -- {q}")
            else:
                cmds += sh_put(path, i, "inplace", cur)
                cmds.append(f"git add -f -- {q}")
                cur = i
        if w != cur or how in ("replace", "touch"):
            cmds += sh_put(path, w, how, cur)
    return cmds


def pub(o):
    return {k: v for k, v in o.items() if not k.startswith("_")}


def model_tags(t):
    return {} if isinstance(t, list) else t


# ---------------------------------------------------------------------------------------------- replay of one case
def replay(case, ci, tmpl, tools, workdir, variant):
    """Returns dict(events, verdicts, drift, stats).  Raises MachineryError when the harness itself fails."""
    version = case["version"]
    layout, packed = variant
    src, c1, o = tmpl.get(version, layout)
    root = workdir / f"c{ci}"
    shutil.copytree(src, root, symlinks=True)
    r = Repo(root, tmpl.env, c1, packed)
    events, verdicts, drift = [], [], []
    events.append({"op": "reset", "case": ci, "version": version, "n": len(c1), "obs": pub(o)})
    synced = True
    stats = {"runs": 0, "tagged": 0, "refused_though_permitted": 0}
    log = []
    broken = False
    for si, op in enumerate(case["ops"]):
        if broken:
            break
        if op["op"] == "bump":
            version = op["version"]
        before = o
        kind = op["op"]
        pre = []          # the harness' own git commands of this step (run together with the observation)
        if kind == "commit":
            n = len(r.commits) + 1
            with open(r.repo / "log.txt", "a") as f:
                f.write(f"c{n}\n")
            pre += ["git add -A", f"git commit -q -m c{n}"]
            ev = {"op": "commit"}
        elif kind == "checkout":
            sha = [s for s, i in r.commits.items() if i == op["c"]]
            if not sha:
                raise MachineryError(f"case {ci}: checkout of unknown commit {op['c']}")
            tip = [ln.split("\t")[0][len("refs/heads/"):] for ln in o["_other"]["refs"]
                   if ln.startswith("refs/heads/") and ln.split("\t")[1] == sha[0]]
            tip = [t for t in tip if t in ("main", "side")]       # never a branch that is named like a tag (ambiguous)
            if tip and (ci + si) % 2 == 0:
                pre.append(f"git checkout -q {tip[0]}")          # HEAD attached to the branch whose tip it is
            else:
                pre.append(f"git checkout -q --detach {sha[0]}")
            ev = {"op": "checkout", "c": op["c"]}
        elif kind == "usertag":
            if not re.fullmatch(r"[A-Za-z0-9._+/-]+", op["name"]):
                raise MachineryError(f"tag name {op['name']!r} outside the harness' safe alphabet")
            if op["kind"] == "light":
                pre.append(f"git tag {op['name']}")
            elif op["kind"] == "tree":
                pre.append(f"git tag {op['name']} 'HEAD^{{tree}}'")
            else:
                pre.append(f"git tag -a -m 'user tag {op['name']}' {op['name']}")
            ev = {"op": "usertag", "name": op["name"], "kind": op["kind"]}
        elif kind == "alias":
            for nm in (op["name"], op["src"]):
                if not re.fullmatch(r"[A-Za-z0-9._+/-]+", nm):
                    raise MachineryError(f"tag name {nm!r} outside the harness' safe alphabet")
            pre.append(f"git tag {op['name']} refs/tags/{op['src']}")   # src is annotated: both refs share ONE tag object
            ev = {"op": "alias", "name": op["name"], "src": op["src"]}
        elif kind == "branch":
            if not re.fullmatch(r"[A-Za-z0-9._+-]+", op["name"]):
                raise MachineryError(f"branch name {op['name']!r} outside the harness' safe alphabet")
            # plumbing only: porcelain (`git branch`, `git checkout -b`) refuses or guesses once a short name is ambiguous
            pre.append({"branch": f"git update-ref refs/heads/{op['name']} HEAD",   # refs/heads/<tag name>
                        "current": f"git update-ref refs/heads/{op['name']} HEAD && git symbolic-ref HEAD refs/heads/{op['name']}",
                        "remote": f"git update-ref refs/remotes/origin/{op['name']} HEAD"}[op["where"]])
            ev = {"op": "branch", "name": op["name"], "where": op["where"]}
        elif kind == "touch":
            k = op["kind"]
            if r.ntouch >= GENERATIONS:
                raise MachineryError(f"case {ci}: more than {GENERATIONS} Touch steps in one history")
            if op["base"] != WT["base"]:
                raise MachineryError(f"case {ci}: the Touch step was exported for another WtBase than the templates were made from")
            pre += touch_commands(op["paths"], r.ntouch)
            r.ntouch += 1
            ev = {"op": "touch", "kind": k}
        elif kind == "bump":
            if layout != "parent":
                raise MachineryError(f"case {ci}: bump needs the env file outside the work tree")
            (root / "mockery-tools.env").write_text(f"VERSION={op['version']}\n")
            ev = {"op": "bump", "version": op["version"]}
        elif kind == "run":
            # spellings of the same flag value (pflag bool syntax; a repeated flag: the last one wins)
            sp = {"absent": [[]],
                  "true": [["--dry-run=true"], ["--dry-run"], ["--dry-run=1"], ["--dry-run=false", "--dry-run=true"], ["--dry-run=T"]],
                  "false": [["--dry-run=false"], ["--dry-run=false", "--dry-run=false"], ["--dry-run=0"],
                            ["--dry-run=true", "--dry-run=false"], ["--dry-run=False"], ["--dry-run=false"]]}[op["flag"]]
            args = sp[(ci + si) % len(sp)]
            t0 = time.time()
            try:
                p = subprocess.run([str(tools), "tag", *args], cwd=r.repo, env=tmpl.env, capture_output=True, text=True,
                                   timeout=60, errors="replace")
            except subprocess.TimeoutExpired:
                raise MachineryError(f"case {ci}: tools tag timed out")
            code = p.returncode
            exit_class = EXIT_CLASS.get(code, "error")
            ev = {"op": "run", "flag": op["flag"], "exit": exit_class}
            log.append({"step": si, "args": args, "code": code, "wall": round(time.time() - t0, 3),
                        "stdout": p.stdout[-200:], "stderr_tail": p.stderr[-500:]})
        else:
            raise MachineryError(f"unknown op {kind}")
        if packed and kind != "run" and si + 1 < len(case["ops"]) and case["ops"][si + 1]["op"] == "run":
            pre.append("git pack-refs --all")   # what a clone looks like: every ref (and the peeled values) in packed-refs
        try:
            o = r.observe(new_commit=(kind == "commit"), pre=pre, fsck=(kind == "run"))
        except HarnessStepFailed:
            if synced:
                raise
            break       # the repository drifted from the model (contract satisfied): the scripted step no longer applies
        except MachineryError as ex:
            if kind != "run":
                raise
            # git can no longer read the repository after the tool ran: everything else did change
            o = dict(before)
            o["other"] = "unreadable"
            o["_other"] = dict(before["_other"], git_error=str(ex)[-300:])
            broken = True
        ev["case"] = ci
        ev["obs"] = pub(o)
        events.append(ev)
        if kind != "run":
            if o["dirty"].startswith("unknown"):
                raise MachineryError(f"case {ci}: unexpected work-tree status after {op.get('op')} {op.get('kind', '')}: {o['dirty']}")
            if kind == "touch" and synced and (o["dirty"] != op["class"] or o["gitclean"] != op["clean"]):
                # the independent oracle (the real git binary) against the classification computed in TaggerWorktree.tla
                raise MachineryError(f"case {ci}: git disagrees with spec/TaggerWorktree.tla about work-tree state {op['kind']}: "
                                     f"git status -> class {o['dirty']}, clean={o['gitclean']}; TLA+ -> class {op['class']}, "
                                     f"clean={op['clean']}; status {o['_other']['status']}")
            continue
        # ------------------------------------------------------------ judge the invocation (allowed set from TLA+)
        stats["runs"] += 1
        pre = op["pre"]
        # the contract's outcome set depends on names, commits, HEAD, work tree and version only (never on tag kinds)
        pre_model = {n: t["c"] for n, t in model_tags(pre["tags"]).items()}
        pre_obs = {n: t["c"] for n, t in before["tags"].items()}
        if synced and (pre_model != pre_obs or pre["head"] != before["head"] or pre["dirty"] != before["dirty"]):
            raise MachineryError(f"case {ci} step {si}: replay lost sync with the model before the invocation: "
                                 f"model {pre} observed {pub(before)}")
        if not synced:
            continue   # after drift the exported expectation no longer describes this repository; TLC judges the trace
        frame_ok = (o["head"] == before["head"] and o["dirty"] == before["dirty"] and o["other"] == before["other"]
                    and o["_head_oid"] == before["_head_oid"])
        matched = None
        for al in op["allowed"]:
            want = model_tags(al["tags"])
            if set(want) != set(o["tags"]) or exit_class not in al["exits"]:
                continue
            good = True
            for n, w in want.items():
                if n in al["fresh"]:
                    good = good and o["tags"][n]["c"] == w["c"]
                else:
                    good = good and n in before["tags"] and o["tags"][n] == before["tags"][n] \
                        and o["_raw"][n] == before["_raw"][n] and o["tags"][n]["c"] == w["c"]
            if good:
                matched = al
                break
        changed = o["_raw"] != before["_raw"]
        if matched is not None and frame_ok:
            if matched["kind"] == "tagged":
                stats["tagged"] += 1
            elif op["permitted"]:
                stats["refused_though_permitted"] += 1
            impl = op["impl"]
            impl_tags = {n: (t["c"], t["k"]) for n, t in model_tags(impl["tags"]).items()}
            obs_tags = {n: (t["c"], t["k"]) for n, t in o["tags"].items()}
            if impl_tags != obs_tags or impl["exit"] != exit_class:
                drift.append({"case": ci, "step": si, "model": impl, "real": {"tags": obs_tags, "exit": exit_class}})
                if {n: c for n, (c, _) in impl_tags.items()} != {n: c for n, (c, _) in obs_tags.items()}:
                    synced = False
            continue
        moved = sorted({before["tags"][n]["k"] for al in op["allowed"] for n in al["fresh"] if n in before["tags"]})
        gerr = o["_other"].get("git_error", "")
        if any(x.startswith("fsck:") for x in o["_other"]["refs"]) or re.search(r"missing object|bad object|invalid sha1", gerr):
            why = "object-needed-by-a-ref-deleted"
        elif broken or any(x.startswith("packed-refs:") for x in o["_other"]["refs"]) or \
                any(not t.get("sane", True) for t in o["tags"].values()):
            why = "ref-store-corrupted"
        elif not frame_ok:
            why = "frame"
        elif not changed:
            why = "exit-status"
        elif op["flag"] != "false":
            why = "dry-run-mutates"
        elif not op["gates"]:
            why = "tagged-dirty-tree" if not op["clean"] else "tagged-not-newer"
        else:
            why = "wrong-refs"
        diff = {n: {"before": before["_raw"].get(n), "after": o["_raw"].get(n)}
                for n in sorted(set(before["_raw"]) | set(o["_raw"])) if before["_raw"].get(n) != o["_raw"].get(n)}
        frame_diff = {k: {"before": before["_other"].get(k), "after": o["_other"][k]} for k in o["_other"]
                      if o["_other"][k] != before["_other"].get(k)}
        verdicts.append({"sig": {"kind": why, "flag": op["flag"], "dirty": pre["dirty"], "wt": op["wt"], "exit": exit_class,
                                 "permitted": op["permitted"], "packed": packed, "moved_tag": "+".join(moved) or "none"},
                         "detail": {"case": ci, "step": si, "version": version, "initial_version": case["version"], "layout": layout, "packed": packed,
                                    "history": [{k: v for k, v in x.items() if k in ("op", "name", "kind", "c", "flag", "version", "src", "where")}
                                                for x in case["ops"][:si + 1]],
                                    "allowed_by_contract": op["allowed"], "observed_before": pub(before),
                                    "observed_after": pub(o), "exit_code": log[-1]["code"], "ref_changes": diff,
                                    "frame_changes": frame_diff, "head_before": before["_head_oid"],
                                    "head_after": o["_head_oid"], "tool": log[-1],
                                    "case_export": case, "variant": [layout, packed], "wt_table": WT["table"]}})
        break           # convicted: the rest of the scripted history no longer describes this repository
    shutil.rmtree(root, ignore_errors=True)
    return {"events": events, "verdicts": verdicts, "drift": drift, "stats": stats, "log": log,
            "unsynced": (not synced) and not verdicts}   # drifted, not convicted: TLC alone judges the rest


# ---------------------------------------------------------------------------------------------- trace validation
def tlc_trace(ctx, events, tag, timeout=900):
    """ctx.validate_trace, but with a caller-chosen scratch directory so that several validations can run
    in parallel threads (Ctx numbers its directories with an unsynchronised counter)."""
    d = ctx.scratch / f"tv-{tag}"
    if d.exists():
        shutil.rmtree(d)
    d.mkdir(parents=True)
    for f in vlib.SPEC.glob("Tagger*.tla"):       # only this family's modules (other families are edited concurrently)
        shutil.copy(f, d / f.name)
    (d / "cfg").mkdir()
    shutil.copy(vlib.SPEC / "cfg" / "TaggerTrace.cfg", d / "cfg" / "TaggerTrace.cfg")
    (d / "trace.ndjson").write_text("".join(json.dumps(e, sort_keys=True) + "\n" for e in events))
    shutil.copy(d / "cfg" / "TaggerTrace.cfg", d / "TaggerTrace.cfg")
    cmd = ["tlc", "-workers", "1", "-metadir", str(d / "meta"), "-config", "TaggerTrace.cfg", "-deadlock", "TaggerTraceMC.tla"]
    env = dict(os.environ)
    env["JAVA_TOOL_OPTIONS"] = (env.get("JAVA_TOOL_OPTIONS", "") + " -Xss64m -Dtlc2.tool.queue.IStateQueue=StateDeque").strip()
    t = time.time()
    try:
        p = subprocess.run(cmd, cwd=d, env=env, capture_output=True, text=True, timeout=timeout, errors="replace")
    except subprocess.TimeoutExpired:
        subprocess.run(["pkill", "-f", str(d / "meta")], capture_output=True)
        raise MachineryError(f"TLC trace validation timed out after {timeout}s ({tag})")
    res = vlib.TLCResult("TaggerTraceMC", "TaggerTrace.cfg", p.returncode, p.stdout + p.stderr, time.time() - t, d)
    if not os.environ.get("VERIF_KEEP"):
        shutil.rmtree(d, ignore_errors=True)
    if res.crashed:
        raise MachineryError(f"trace validation crashed ({tag}):\n{res.tail()}")
    return res.ok, res


def validate_chunk(ctx, events, tag="0", unsynced=frozenset()):
    """Op logs of replays the comparison with the exported outcomes accepted: TLC must accept them too.
    Exception: replays that drifted from the code-shaped model (contract satisfied, other tags than predicted)
    are judged by TLC alone from the drift on; a rejection there is a verdict.  Returns (accepted, rejected)."""
    accepted, rejected = 0, []
    evs = events
    while evs:
        ok, r = tlc_trace(ctx, evs, f"{tag}-{len(rejected)}")
        if ok:
            accepted += sum(1 for e in evs if e["op"] == "reset")
            break
        if r.consumed is None or r.consumed[0] >= len(evs):
            raise MachineryError(f"trace validation failed without a usable CONSUMED line ({r.violated}):\n" + r.tail())
        bad = r.consumed[0]
        at = evs[bad]
        if at["op"] != "run":
            raise MachineryError(f"trace spec rejects the harness' own step {json.dumps(at)[:600]}")
        if at["case"] not in unsynced:
            raise MachineryError(f"trace validation rejects case {at['case']} at {json.dumps(at)[:400]} but the comparison "
                                 "with the exported outcomes accepted it: the two bindings disagree")
        k0 = max(k for k in range(bad + 1) if evs[k]["op"] == "reset")
        rejected.append((at["case"], bad - k0, at))
        accepted += sum(1 for e in evs[:k0] if e["op"] == "reset")
        rest = evs[bad + 1:]
        while rest and rest[0]["op"] != "reset":
            rest.pop(0)
        evs = rest
        if len(rejected) >= 6:
            raise MachineryError("more than 6 drifted replays rejected by trace validation in one chunk; giving up")
    return accepted, rejected


def validate_convicted(ctx, events, tag):
    """Op log of a replay the comparison rejected: TLC must reject it at the same invocation."""
    ok, r = tlc_trace(ctx, events, tag, timeout=300)
    runs = [k for k, e in enumerate(events) if e["op"] == "run"]
    if ok or r.consumed is None or r.consumed[0] not in runs:
        raise MachineryError(f"case {events[0]['case']} was rejected by the comparison with the exported outcomes but trace "
                             f"validation says ok={ok} consumed={r.consumed}: the two bindings disagree")
    return r.consumed[0]


# ---------------------------------------------------------------------------------------------- the check
def run_replay(ctx, path):
    """bin/check C20 quick --replay <file>: re-run exactly the recorded history (with the outcome sets TLA+ exported
    for it) against the binary built from the current working tree."""
    try:
        rec = json.loads(open(path).read())
        case, variant = rec["detail"]["case_export"], tuple(rec["detail"]["variant"])
        load_wt(rec["detail"]["wt_table"])
    except (OSError, ValueError, KeyError) as ex:
        raise MachineryError(f"cannot read replay file {path}: {ex}")
    tools = ctx.tools_bin()
    tmpl = Templates(ctx)
    tmpl.get(case["version"], variant[0])
    res = replay(case, 0, tmpl, tools, ctx.mkdir("replays"), variant)
    ctx.cov["evaluations"] += res["stats"]["runs"]
    ctx.cov["distinct_nontrivial"] = 1
    ctx.cov["rule"] = "single recorded history (replay mode)"
    if res["verdicts"]:
        at = validate_convicted(ctx, res["events"], "replay")
        v = res["verdicts"][0]
        v["detail"]["trace_validation"] = f"TaggerTrace.tla rejects the op log at event {at}"
        ctx.violation(v["sig"], v["detail"])
    else:
        a, rej = validate_chunk(ctx, res["events"], "replay", frozenset([0]) if res["unsynced"] else frozenset())
        for c, k, at in rej:
            ctx.violation({"kind": "trace-rejected-after-drift", "flag": at["flag"], "exit": at["exit"]},
                          {"rejected_event": at, "oplog": res["events"], "case_export": case, "variant": list(variant)})
    ctx.cov["traces_validated_against_impl"] += 1
    ctx.sample({"history": [{k: v for k, v in x.items() if k in ("op", "name", "kind", "c", "flag", "version", "src", "where")} for x in case["ops"]],
                "tool": res["log"], "observed_after": res["events"][-1]["obs"]})
    return {"level": "model_checking", "exhaustive": False}


def run(ctx):
    # TLC unpacks its standard modules into java.io.tmpdir: keep that inside the scratch directory as well
    jt = ctx.mkdir("javatmp")
    os.environ["JAVA_TOOL_OPTIONS"] = (os.environ.get("JAVA_TOOL_OPTIONS", "") + f" -Djava.io.tmpdir={jt}").strip()
    if getattr(ctx, "replay", None):
        return run_replay(ctx, ctx.replay)
    thorough = ctx.thorough()
    tools = ctx.tools_bin()
    # ---------------------------------------------------------------- 1. model checking + export
    cfg = "Tagger_thorough.cfg" if thorough else "Tagger_quick.cfg"
    r = ctx.tlc("TaggerMC", cfg, workers=1, timeout=3000, coverage=False)
    if r.violated:
        ctx.note(f"model-level: {r.violated} violated on Tagger.tla (a prediction; the replay decides)")
    elif not r.ok:
        raise MachineryError("TLC failed on Tagger:\n" + r.tail())
    tables = r.prints("TABLE")
    if len(tables) != 1:
        raise MachineryError(f"expected one TABLE line, got {len(tables)}")
    n_table = check_tables(ctx, tables[0])
    load_wt(tables[0]["wt"])
    cases = exported_cases(r)
    if len(cases) < 500:
        raise MachineryError(f"too few exported invocations ({len(cases)}): vacuous")
    vacuity(cases, tables[0]["wt"])
    if thorough:
        w = ctx.tlc("TaggerMC", "Tagger_cover.cfg", workers=4, timeout=600, coverage=True, count=False)
        if not w.ok:
            raise MachineryError("coverage run failed:\n" + w.tail())
        zero = [z for z in w.coverage_zero()]
        if zero:
            raise MachineryError("vacuous: spec actions never taken: " + "; ".join(zero[:5]))

    n_bfs = len(cases)
    # long random histories: every second step an invocation, VERSION bumps / commits / user tags in between
    # (the breadth-first export represents every repository STATE by its shortest history, in which tags are
    # made by `git tag` rather than by earlier invocations; these histories make the tool meet its own tags)
    sim = ctx.tlc("TaggerMC", "Tagger_sim.cfg" if thorough else "Tagger_simq.cfg", workers=1,
                  simulate="num=%d" % (1200 if thorough else 120), depth=60, timeout=900, deadlock=False, count=False)
    if sim.violated:
        ctx.note(f"model-level (simulation): {sim.violated} violated (a prediction; the replay decides)")
    elif not sim.ok:
        raise MachineryError("TLC simulation failed on Tagger:\n" + sim.tail())
    seen = set()
    for c in exported_cases(sim):
        k = json.dumps(c, sort_keys=True)
        if k not in seen:
            seen.add(k)
            cases.append(c)
    n_sim = len(cases) - n_bfs
    if n_sim < (800 if thorough else 70):
        raise MachineryError(f"simulation exported only {n_sim} long histories:\n" + sim.tail())
    def tag_steps(c):
        return [k for k, o in enumerate(c["ops"]) if o["op"] == "run" and model_tags(o["impl"]["tags"]) != model_tags(o["pre"]["tags"])]
    if thorough and not any(len(tag_steps(c)) >= 2 for c in cases[n_bfs:]):
        raise MachineryError("vacuous: no simulated history in which the tool tags twice")
    if not any(tag_steps(c) and any(o["op"] == "run" for o in c["ops"][tag_steps(c)[0] + 1:]) for c in cases[n_bfs:]):
        raise MachineryError("vacuous: no simulated history in which the tool is invoked again after it tagged")
    if not any(o["op"] == "checkout" for c in cases for o in c["ops"]):
        raise MachineryError("vacuous: no history with a detached HEAD")
    if not any(c["ops"][-1].get("permitted") and any(o["op"] == "alias" for o in c["ops"]) for c in cases[:n_bfs]):
        raise MachineryError("vacuous: no tagging history in which two refs share one tag object")

    # ---------------------------------------------------------------- 2. replay against the real binary
    budget = int(os.environ.get("VERIF_C20_MAX", "0")) or (6000 if thorough else 750)
    order = list(range(len(cases)))
    if len(order) > budget:
        # The long simulated histories are always replayed.  The breadth-first cases are stratified by the SHAPE of
        # their history (sequence of action kinds + flag of the last invocation) and drawn round-robin over the
        # shapes with the seed, so that every kind of history is present however small the budget: 60% of the
        # budget for histories whose last invocation the contract permits to tag (that is where refs are
        # written), the rest for all others.
        simi = [i for i in order if i >= n_bfs]
        # pivots: for every (request, single existing full tag of that major, its kind, made-from-another-tag) that TLC
        # generated, the first (shortest) real invocation on a clean tree -- every version-order relation and every
        # way such a tag can exist is replayed whatever the budget
        pivots = {}
        for i in order:
            if i >= n_bfs:
                continue
            o = cases[i]["ops"][-1]
            same = model_tags(o.get("same", {}))
            if o.get("flag") == "false" and o["pre"]["dirty"] == "clean" and len(same) == 1:
                (n, rec), = same.items()
                pivots.setdefault((cases[i]["version"], n, rec["k"], rec["shared"]), i)
        # work-tree pivots: every work-tree state TLC generated meets a real (--dry-run=false) invocation whose version
        # gate passes (only the clean-tree gate decides), and one default / dry run, whatever the budget
        wtp = {}
        for i in order:
            if i >= n_bfs:
                continue
            o = cases[i]["ops"][-1]
            if o.get("newer"):
                wtp.setdefault((o["wt"], o["flag"] == "false"), i)
        pivots.update({("wt",) + k: i for k, i in wtp.items()})
        simi = sorted(set(simi) | set(pivots.values()))
        left = max(0, budget - len(simi))

        def draw(ids, quota):
            groups = {}
            for i in ids:
                key = tuple(o["op"] for o in cases[i]["ops"]) + (cases[i]["ops"][-1].get("flag"),)
                groups.setdefault(key, []).append(i)
            for g in groups.values():
                ctx.rng.shuffle(g)
            out, keys = [], sorted(groups)
            while len(out) < quota and keys:
                for k in list(keys):
                    if groups[k]:
                        out.append(groups[k].pop())
                        if len(out) >= quota:
                            break
                    else:
                        keys.remove(k)
            return out
        fixed = set(simi)
        perm = [i for i in order if i < n_bfs and i not in fixed and cases[i]["ops"][-1].get("permitted")]
        other = [i for i in order if i < n_bfs and i not in fixed and not cases[i]["ops"][-1].get("permitted")]
        pick = draw(perm, int(left * 0.6))
        order = sorted(simi + pick + draw(other, left - len(pick)))
    tmpl = Templates(ctx)
    variants = {}
    for i in order:      # concretisation choices (not part of the abstract state): env-file place, packed refs
        h = (i * 7 + ctx.seed * 13)
        variants[i] = (("tracked", "parent", "both", "parent")[h % 4], (h // 4) % 3 == 0)
        if any(o["op"] == "bump" for o in cases[i]["ops"]):
            variants[i] = ("parent", variants[i][1])
    for i in order:      # templates are created sequentially (cheap), replays run in parallel
        tmpl.get(cases[i]["version"], variants[i][0])
    work = ctx.mkdir("replays")
    results = {}
    t0 = time.time()
    with cf.ThreadPoolExecutor(max_workers=ctx.workers()) as ex:
        futs = {ex.submit(replay, cases[i], i, tmpl, tools, work, variants[i]): i for i in order}
        for f in cf.as_completed(futs):
            results[futs[f]] = f.result()      # MachineryError propagates
    replay_wall = time.time() - t0
    n_runs = sum(x["stats"]["runs"] for x in results.values())
    n_tagged = sum(x["stats"]["tagged"] for x in results.values())
    n_refused = sum(x["stats"]["refused_though_permitted"] for x in results.values())
    convicted = {}
    for i in order:
        for v in results[i]["verdicts"]:
            convicted.setdefault(i, v)
    if n_tagged == 0 and not convicted:
        raise MachineryError("vacuous: the real tool never created a tag in any replayed invocation "
                             "(the contract is one-directional; a tool that never tags cannot be judged)")
    drift = [d for i in order for d in results[i]["drift"]]
    under = [d for d in drift if d["model"]["exit"] == "ok" and d["real"]["exit"] != "ok"]
    if under:
        print(f"C20: DRIFT (not a verdict): the tool refused {len(under)} invocation(s) in which the code-shaped model tags and "
              "the contract permits tagging; the property only says when tags may NOT be written")
    for d in drift[:3]:
        ctx.note("drift (real tool differs from the code-shaped model, contract satisfied): " + json.dumps(d)[:400])

    # ---------------------------------------------------------------- 3. trace validation of every op log
    clean = [i for i in order if i not in convicted]
    chunk = 1500
    chunks = [clean[i:i + chunk] for i in range(0, len(clean), chunk)]
    t1 = time.time()
    tv_ok = 0
    unsynced = frozenset(i for i in clean if results[i]["unsynced"])
    with cf.ThreadPoolExecutor(max_workers=4) as ex:
        futs = [ex.submit(validate_chunk, ctx, [e for i in ch for e in results[i]["events"]], str(k), unsynced)
                for k, ch in enumerate(chunks)]
        cfuts = {c: ex.submit(validate_convicted, ctx, results[c]["events"], f"v{c}") for c in sorted(convicted)[:6]}
        for f in futs:
            a, rej = f.result()
            tv_ok += a
            for c, k, at in rej:     # judged by TLC alone (the replay had drifted from the code-shaped model)
                ctx.violation({"kind": "trace-rejected-after-drift", "flag": at["flag"], "exit": at["exit"]},
                              {"case": c, "rejected_event_index": k, "rejected_event": at, "version": cases[c]["version"],
                               "layout": variants[c][0], "packed": variants[c][1], "oplog": results[c]["events"],
                               "tool": results[c]["log"], "contract": "spec/TaggerContract.tla RunContract"})
                tv_ok += 1
        rej_at = {c: f.result() for c, f in cfuts.items()}
    tv_wall = time.time() - t1
    ctx.cov["traces_validated_against_impl"] += tv_ok + len(rej_at)
    for c, v in sorted(convicted.items()):
        v["detail"]["trace_validation"] = (f"TaggerTrace.tla rejects the op log at event {rej_at[c]}" if c in rej_at
                                           else "not validated individually (only the first 6 rejected replays are)")
        v["detail"]["oplog"] = results[c]["events"]
        ctx.violation(v["sig"], v["detail"])

    # ---------------------------------------------------------------- 4. the trace spec can say no (canary)
    # (when replays were rejected, validate_convicted above has already shown TLC rejecting real logs)
    canary = trace_canary(ctx, results, order) if not ctx.violations else 0

    # ---------------------------------------------------------------- evidence
    ctx.cov["evaluations"] += n_runs
    ctx.cov["distinct_nontrivial"] = len(order)
    ctx.cov["rule"] = ("one replay per RunExit transition generated by TLC on Tagger.tla (distinct repository state x flag x "
                       "requested version, representative history); every invocation inside a history is judged")
    ctx.cov.update({"pivot_cases": len(pivots) if len(cases) > budget else 0, "cases_exported": len(cases), "bfs_cases": n_bfs, "simulated_long_histories": n_sim, "cases_replayed": len(order), "invocations_judged": n_runs,
                    "invocations_that_tagged": n_tagged, "refused_though_permitted": n_refused,
                    "impl_drift_cases": len(drift), "impl_drift_refused_where_model_tags": len(under), "semver_table_entries_checked": n_table,
                    "trace_events": sum(len(results[i]["events"]) for i in order), "trace_chunks": len(chunks),
                    "replay_wall_s": round(replay_wall, 1), "trace_validation_wall_s": round(tv_wall, 1),
                    "tlc_wall_s": round(r.wall, 1), "canary_mutations_rejected": canary,
                    "templates": len(tmpl.made)})
    picks = [i for i in order if results[i]["stats"]["tagged"]][:2] + [i for i in order if len(cases[i]["ops"]) >= 3][-2:]
    for i in picks[:4]:
        ctx.sample({"version": cases[i]["version"], "layout": variants[i][0], "packed_refs": variants[i][1],
                    "history": [{k: v for k, v in x.items() if k in ("op", "name", "kind", "c", "flag", "version", "src", "where")} for x in cases[i]["ops"]],
                    "contract_allows": cases[i]["ops"][-1].get("allowed"),
                    "real_tool": results[i]["log"][-1] if results[i]["log"] else None,
                    "observed_after": results[i]["events"][-1]["obs"]})
    ctx.assumptions += [
        "small scope: histories up to MaxHist user-level actions over the names/versions of spec/TaggerTables.tla and TaggerMC.tla",
        "one-directional contract (the statement says 'only when'): a refusal with a non-zero status is always accepted; "
        "refusals in permitted states are counted as refused_though_permitted, not judged",
        "clean work tree = `git status --porcelain` prints nothing (core.fileMode=true, no filters): any staged or unstaged "
        "content, mode, type, deletion, rename change or an untracked path makes it dirty; ignored paths, empty directories "
        "and stat-only changes do not (spec/TaggerWorktree.tla, confirmed by the real git for every replayed state)",
        "v-less names such as 3.0.1 count as full semantic-version tags",
        "a dry run that would have tagged may exit 0; stale/invalid version or dirty tree must give a non-zero status in both modes",
        "'everything else' = non-tag refs, HEAD (symbolic and resolved), origin's refs, stash, work-tree files, git status, "
        ".git/config, the env file; unreachable objects are not observed",
    ]
    return {"level": "model_checking", "exhaustive": len(order) == len(cases)}


def exported_cases(res):
    """CASE lines of a TLC run; TLC's pretty printer may wrap a long tuple over several lines, which the
    single-line parser of vlib would silently skip: every printed CASE must have been parsed."""
    cases = res.prints("CASE")
    printed = len(re.findall(r'<<\s*"CASE",', res.text))
    if printed != len(cases):
        raise MachineryError(f"TLC printed {printed} CASE tuples but {len(cases)} could be parsed (wrapped output?)")
    return cases


def vacuity(cases, wt):
    runs = [(c, o) for c in cases for o in c["ops"] if o["op"] == "run"]
    kinds = wt["kinds"]
    for d in wt["used"]:
        if not any(o["wt"] == d and o["flag"] == "false" and o["newer"] for c, o in runs):
            raise MachineryError(f"vacuous: work-tree state {d} never meets a real invocation with a newer version")
    families = {"mode-only": lambda st: any(e["c"] == "M" for e in st), "type change": lambda st: any(e["c"] == "T" for e in st),
                "rename": lambda st: any(e["c"] == "R" for e in st), "deletion": lambda st: any(e["c"] == "D" for e in st),
                "untracked": lambda st: any(e["c"] == "?" for e in st), "added": lambda st: any(e["c"] == "A" for e in st)}
    for fam, pred in families.items():
        if not any(pred(kinds[d]["status"]) and not kinds[d]["clean"] for d in wt["used"]):
            raise MachineryError(f"vacuous: no dirty work-tree state of family {fam}")
    if not any(kinds[d]["clean"] and kinds[d]["status"] for d in wt["used"]) or \
            not any(kinds[d]["clean"] and not kinds[d]["status"] for d in wt["used"]):
        raise MachineryError("vacuous: no clean work-tree state other than the untouched one (ignored paths / stat-only changes)")
    last = [c["ops"][-1] for c in cases]

    def need(pred, what):
        if not any(pred(c, o) for c, o in runs):
            raise MachineryError("vacuous: no exported invocation with " + what)
    need(lambda c, o: o["permitted"] and o["impl"]["exit"] == "ok" and model_tags(o["impl"]["tags"]) != model_tags(o["pre"]["tags"]), "a tagging run")
    need(lambda c, o: o["flag"] == "absent" and o["gates"], "a default (flag absent) run that would have tagged")
    need(lambda c, o: o["flag"] == "true" and o["gates"], "--dry-run=true that would have tagged")
    need(lambda c, o: o["flag"] == "false" and not o["gates"] and o["pre"]["dirty"] == "clean" and o["impl"]["exit"] == "nothing", "a stale version")
    for d in ("modified", "staged", "untracked", "deleted"):
        need(lambda c, o, d=d: o["flag"] == "false" and o["pre"]["dirty"] == d, f"a {d} work tree")
    need(lambda c, o: o["permitted"] and o["wt"] != "clean" and o["impl"]["exit"] == "ok", "a tagging run on a clean tree that was touched")
    need(lambda c, o: o["permitted"] and any(n in model_tags(o["pre"]["tags"]) for a in o["allowed"] for n in a["fresh"]), "an existing major tag to move")
    need(lambda c, o: o["permitted"] and len(model_tags(o["pre"]["tags"])) >= 2, "unrelated tags next to a tagging run")
    need(lambda c, o: o["permitted"] and any(t["k"] == "annotated" for t in model_tags(o["pre"]["tags"]).values()), "an annotated user tag")
    if not any(len(o["allowed"]) == 2 for o in last) or not any(len(o["allowed"]) == 1 for o in last):
        raise MachineryError("vacuous: allowed-outcome sets are all of one shape")


def trace_canary(ctx, results, order):
    """Corrupt single recorded fields of accepted logs: TaggerTrace.tla must reject each mutated log."""
    def usable(evs):
        """a log whose last invocation created a new full tag and created or really moved the major tag"""
        ri = max(k for k, e in enumerate(evs) if e["op"] == "run")
        aft, bef = evs[ri]["obs"]["tags"], evs[ri - 1]["obs"]["tags"]
        new = [n for n in aft if n not in bef and "." in n]
        if len(new) != 1:
            return False
        mj = new[0].split(".")[0]
        return mj in aft and (mj not in bef or bef[mj]["c"] != aft[mj]["c"])
    cands = [results[i]["events"] for i in order
             if results[i]["stats"]["tagged"] and not results[i]["verdicts"] and not results[i]["drift"]
             and results[i]["events"][-1]["op"] == "run" and usable(results[i]["events"])]
    if not cands:
        return 0
    good = next((e for e in cands if len(e[-1]["obs"]["tags"]) >= 3), cands[0])
    ok, _ = tlc_trace(ctx, good, "canary", timeout=300)
    if not ok:
        raise MachineryError("canary: an accepted log is rejected when validated alone")
    ri = max(i for i, e in enumerate(good) if e["op"] == "run")
    muts = []
    m = json.loads(json.dumps(good)); m[ri]["flag"] = "absent"; muts.append(("flag false->absent on a tagging run", m))
    m = json.loads(json.dumps(good)); m[ri]["exit"] = "nothing"; muts.append(("exit ok->nothing on a tagging run", m))
    m = json.loads(json.dumps(good)); m[ri]["obs"]["other"] = "deadbeef"; muts.append(("frame digest changed", m))
    m = json.loads(json.dumps(good)); m[ri]["obs"]["gitclean"] = not m[ri]["obs"]["gitclean"]
    muts.append(("git's own clean verdict contradicts the work-tree class", m))
    m = json.loads(json.dumps(good)); m[ri]["obs"]["dirty"] = "chmod"; muts.append(("work tree left in a dirty (mode-only) state", m))
    m = json.loads(json.dumps(good))
    new = [n for n in m[ri]["obs"]["tags"] if n not in m[ri - 1]["obs"]["tags"] and "." in n]
    if len(new) != 1:
        raise MachineryError(f"canary: expected exactly one new full-version tag in the chosen log, got {new}")
    fresh = [new[0], new[0].split(".")[0]]      # the two refs the contract lets the tool write
    m[ri]["obs"]["tags"][fresh[0]]["c"] = 77; muts.append(("written tag at another commit", m))
    m = json.loads(json.dumps(good))
    mj = [n for n in fresh if "." not in n]
    if mj:
        del m[ri]["obs"]["tags"][mj[0]]
        if mj[0] in m[ri - 1]["obs"]["tags"]:
            m[ri]["obs"]["tags"][mj[0]] = m[ri - 1]["obs"]["tags"][mj[0]]
        muts.append(("major tag not created/moved", m))
    keep = [n for n in good[ri]["obs"]["tags"] if n not in fresh]
    if keep:
        m = json.loads(json.dumps(good)); m[ri]["obs"]["tags"][keep[0]]["id"] = 55; muts.append(("unrelated tag re-created", m))
        m = json.loads(json.dumps(good)); del m[ri]["obs"]["tags"][keep[0]]; muts.append(("unrelated tag deleted", m))
    def one(k):
        what, mm = muts[k]
        ok, rr = tlc_trace(ctx, mm, f"canary{k}", timeout=300)
        if ok:
            raise MachineryError(f"canary: TaggerTrace.tla accepts a corrupted log ({what})")
        if rr.consumed is None or rr.consumed[0] != ri:
            raise MachineryError(f"canary: corrupted log ({what}) rejected at the wrong place: {rr.consumed}")
        return 1
    with cf.ThreadPoolExecutor(max_workers=4) as ex:
        n = sum(ex.map(one, range(len(muts))))
    return n


if __name__ == "__main__":
    # thousands of tiny git repositories: keep the scratch directory (ctx.scratch, removed on exit) on tmpfs
    if not os.environ.get("VERIF_SCRATCH") and os.path.isdir("/dev/shm") and os.access("/dev/shm", os.W_OK | os.X_OK):
        os.environ["VERIF_SCRATCH"] = "/dev/shm"
    main("C20", run)
