#!/usr/bin/env python3
"""C08 -- configuration resolves hierarchically; the most specific setting wins.

1. TLC checks the code-shaped merge model (spec/ConfigTree.tla: reflective merge per field kind over a heap
   of map objects, top-down order, double Initialize, sub-package injection, deep copy for unlisted
   interfaces, which level each consumer reads) against the contract (spec/ConfigTreeContract.tla:
   Effective = most specific level that sets it, maps key by key, NoLeak), and the source layering model
   (spec/ConfigSources.tla).
2. TLC enumerates configuration WORLDS (spec/ConfigTreeWorld.tla): every parameter x every subset of the
   levels env < root < package < interface < configs entry (pairwise distinct markers / every value
   assignment), sibling packages / interfaces / entries in every world, file-sharing variants, plus packed
   pseudo-random general trees.  Each world is exported with the effective values the contract demands.
   The harness only concretises the world (scratch Go module + .mockery.yml + env + flags + probe
   templates + schemas + pre-existing files), runs the binary built from the working tree, projects what it
   did (where files landed, package clause, struct names, which template rendered, probe dump of file- and
   interface-level template-data, schema validation outcome, formatting, overwrite, which interfaces and
   packages were mocked, which log lines appeared) and compares.
   Situations that abort a run (existing file with force-file-write=false, template-data the schema rejects)
   get one run each ("focus runs").  The four env x flag combinations naming a config file
   (spec/ConfigSources.tla) are replayed the same way.
3. The hook traces of the base runs (Select / Resolved / Collect / Stage / Exists / Inject / Exclude; a seeded
   sample of 100 runs in the quick tier, 2000 in the thorough tier) are validated by TLC against
   spec/ConfigTreeTrace.tla, where the expected value of every logged field is computed from the world's tree
   by the same Effective operator; the check corrupts one field / drops one event of an accepted trace and
   requires the specification to reject it.

Coverage table (statement clause / quantifier dimension -> what explores it -> what is still a point or absent)
  levels entry > iface config > package config > top level > default
      -> chain worlds: every subset of env<root<p1<p1A<p1A1 per parameter (quick: env toggled by parity), siblings p2/p1B/p1A2,
         config-only (C), `{}` (N), `null` entries, unlisted (D,E), discovered sub-packages, explicit sub-package p1x;
         packed worlds: pseudo-random subsets of all 22 levels.            gap: one tree shape; nesting depth of recursion 1;
         a sub-package below TWO recursive ancestors (C07's Recursive.tla owns that); `key: null` as a spelling of "unset"
  every parameter (17 + template-data through the built-in templates + build-tags)
      -> one focus family each.                                             gap: `_anchors` only as inert content; `config:` key inside the file
  value classes: pairwise distinct markers; bool/3-valued: every assignment (thorough) / alternating (quick);
      explicit zero values: false (bools, map leaves), "" (include/exclude regex at package level, map leaves), [] (exclude-subpkg-regex),
      {} (template-data, nested, replace-type, inner replace-type map), 0 and lists as map leaves, scalar/list over map and map over scalar
      at three nesting depths.                                              gap: "" for dir/filename/pkgname/structname/template (not valid values);
         env spellings 1/yes (not documented); numbers other than 0
  template-data key by key incl. nested -> 12 shapes x level rank; file-level = package level; built-in switches by whole-text comparison
  sources defaults < env < file < flags -> env is a chain level for every scalar parameter (True/true/TRUE for bools); log-level: all 8 subsets of
      env/file/flag x values; config file: 4 env x flag cases; build-tags env/file.     gap: only --config and --log-level exist as flags
  no leaks into siblings -> every world has sibling packages / interfaces / entries; per-package parameters written on interfaces / entries
      (must not leak upwards); explicit sub-package under a recursive parent as the way out for shared maps (any and typed, depth 2 and 3)
  per-output-file parameters for the mocks sharing a file -> share modes entries / package; focus runs (force=false, schema poison, reject-all)
                                                                            gap: two remote templates over http (C12); disagreeing mocks in one file (open)
  per-package parameters -> chain env<root<p1 with sibling p2, sub-packages p1s1/p1s2/p2s1/p2s2, explicit [] and "" values
  config file spelling -> JSON (even worlds) / block YAML with `_anchors`, an alias and an unused anchor (odd worlds).   gap: YAML merge keys `<<`

Environment knobs for development only: C08_ONLY=<param,...>, C08_LIMIT=<n>, C08_DEBUG=<file>, C08_JOBS=<n>.
"""
import concurrent.futures as cf
import itertools
import json
import os
import re
import shutil
import subprocess
import sys
import time

sys.path.insert(0, os.path.join(os.path.dirname(__file__), "..", "lib"))
from vlib import MachineryError, RunResult, go_env, main, write_files  # noqa: E402

MOD = "example.com/w"
GOMOD = f"module {MOD}\n\ngo 1.23\n"
DEFAULT = "<default>"

WORLD_CFG = """SPECIFICATION Spec
CONSTANTS
  NodeRecs <- MCNodeRecs
  NodeSeq <- MCNodeSeq
  Decl <- MCDecl
  Tagged <- MCTagged
  Subs <- MCSubs
  Seed = %d
  NPacked = %d
  Tier = "%s"
CONSTRAINT Emit
CHECK_DEADLOCK FALSE
"""

PROBE = open(os.path.join(os.path.dirname(__file__), "..", "probes", "config", "probe.templ")).read()


TYPE_KEYS = [("ty", "T0"), ("ty", "Ur"), ("ty", "Up"), ("ty", "Ui"), ("ty", "Ue"), ("ty2", "V0")]


def unjson(x):
    """ToJson prints functions with an empty domain as []: normalise to {} where a mapping is meant."""
    return {} if x == [] else x


class Tree:
    def __init__(self, t):
        self.nodes = {n["id"]: n for n in t["nodes"]}
        self.decl = {k: sorted(v) for k, v in t["decl"].items()}
        self.tagged = {k: unjson(v) for k, v in t["tagged"].items()}
        self.subs = {k: sorted(unjson(v) or []) for k, v in t["subs"].items()}
        self.unchecked = set(t["unchecked"])
        self.mapunchecked = set(t["mapunchecked"])
        self.nodeseq = t["nodeseq"]
        self.configured = sorted(n for n, r in self.nodes.items() if r["kind"] == "pkg")
        self.parent_pkg = {}          # directory parent: the deepest package that has s below it
        for s in {x for ss in self.subs.values() for x in ss}:
            above = [p for p, ss in self.subs.items() if s in ss]
            self.parent_pkg[s] = next(p for p in above if all(q == p or p in self.subs.get(q, []) for q in above))

    def pkg_dir(self, g):
        return (self.pkg_dir(self.parent_pkg[g]) + "/" + g) if g in self.parent_pkg else g

    def pkg_path(self, g):
        return MOD + "/" + self.pkg_dir(g)

    def iface(self, g, letter):
        return letter + g.upper()

    def chain(self, n):
        out = []
        while n:
            out.append(n)
            n = self.nodes[n]["parent"]
        return out

    def ifaces_of(self, p):
        return sorted(n for n, r in self.nodes.items() if r["kind"] == "iface" and r["pkg"] == p)

    def entries_of(self, i):
        return sorted(n for n, r in self.nodes.items() if r["kind"] == "entry" and r["parent"] == i)


# ----------------------------------------------------------------------------------------- concretisation
def tree_to_data(v):
    """tagged tree of template-data -> python value"""
    if v["t"] == "s":
        x = v["v"]
        return False if x == "#false" else True if x == "#true" else 0 if x == "#zero" else "" if x == "#empty" else \
            ["l", x[6:]] if x.startswith("#list:") else x
    return {k: tree_to_data(x) for k, x in unjson(v["kv"]).items()}


def tree_to_build_tags(v):
    d = tree_to_data(v)
    return {k: ("tag_" + x if k == "mock-build-tags" and isinstance(x, str) else x) for k, x in d.items()}


def tree_to_replace(v):
    out = {}
    for pk, inner in unjson(v["kv"]).items():
        out[f"{MOD}/{pk}"] = {tn: {"pkg-path": f"{MOD}/ty", "type-name": "R_" + leaf["v"]}
                              for tn, leaf in unjson(inner["kv"]).items()}
    return out


def regex_of(letters):
    letters = sorted(unjson(letters) or [])
    return "^(" + "|".join(letters) + ")" if letters else ""      # the explicit empty string


def probes_dir(W, profile):
    """probe templates are identical for all worlds and shared, except where the default schema
    (<template>.schema.json) is world specific"""
    return f"{W}/probes" if profile in ("schema", "template") or SHARED is None else SHARED


SHARED = None


def conc(W, param, v, profile):
    """abstract value of a parameter -> what is written into the config file"""
    if param == "dir":
        return f"out/d_{v}/{{{{.SrcPackageName}}}}/{{{{.InterfaceName}}}}"
    if param == "filename":
        return f"f_{v}_{{{{.InterfaceName}}}}.go"
    if param == "pkgname":
        return "k_" + v.lower()
    if param == "structname":
        return f"S_{v}_{{{{.InterfaceName}}}}"
    if param == "template":
        return v if v in ("testify", "matryer") else f"file://{probes_dir(W, profile)}/P_{v}.templ"
    if param == "template-schema":
        return f"file://{W}/schemas/s_{v}_{{{{.SrcPackageName}}}}.json"     # one schema file per level and source package
    if param in ("include-interface-regex", "exclude-interface-regex"):
        return regex_of(v)
    if param == "exclude-subpkg-regex":
        return [f"/{s}$" for s in (unjson(v) or [])]
    if param == "build-tags":
        return "tag_" + v
    if param == "template-data":
        return tree_to_build_tags(v) if profile == "template" else tree_to_data(v)
    if param == "replace-type":
        return tree_to_replace(v)
    return v  # booleans, formatter, log-level


def profile_of(case):
    d = case["desc"]
    if d["fam"] == "packed":
        return d["profile"]
    p = d["param"]
    if p == "template":
        return "template"
    if p == "template-data@matryer":
        return "matryer"
    if p == "template-data@testify":
        return "testify"
    if p in ("template-schema", "require-template-schema-exists"):
        return "schema"
    if p in ("all", "include-interface-regex", "exclude-interface-regex", "recursive", "exclude-subpkg-regex"):
        return "select"
    if p == "log-level":
        return "sources"
    return "mock"


def build_config(T, W, case, spell=0):
    cfg = {n: unjson(v) for n, v in case["cfg"].items()}
    prof = profile_of(case)

    def level(n):
        return {p: conc(W, p, v, prof) for p, v in cfg.get(n, {}).items()}

    conf = level("root")
    pk = {}
    for p in T.configured:
        ent = {}
        lv = level(p)
        if lv:
            ent["config"] = lv
        ifs = {}
        for i in T.ifaces_of(p):
            name = T.iface(p, T.nodes[i]["letter"])
            ie = {}
            li = level(i)
            if li:
                ie["config"] = li
            es = T.entries_of(i)
            if es:
                # an entry without settings of its own is written `{}` (first) or `null` (the others)
                ie["configs"] = [level(e) or ({} if k == 0 else None) for k, e in enumerate(es)]
            # an interface with nothing to say is written `{}` (N) or `null` (the others): two different code paths
            ifs[name] = ie or ({} if T.nodes[i]["letter"] == "N" else None)
        if ifs:
            ent["interfaces"] = ifs
        pk[T.pkg_path(p)] = ent or None
    conf["packages"] = pk
    env = {}
    for p, v in level("env").items():
        # booleans in the spellings the documentation uses (True / true / TRUE)
        env["MOCKERY_" + p.upper().replace("-", "_")] = \
            (("true", "True", "TRUE") if v else ("false", "False", "FALSE"))[spell % 3] if isinstance(v, bool) else str(v)
    args = []
    for p, v in level("flag").items():
        args += ["--" + p, str(v)]
    return conf, env, args


def config_text(conf, idx):
    """the config file: JSON (is YAML) for even worlds; for odd worlds block-style YAML in which one package's settings
    live under the documented top-level `_anchors` key and are referenced by a YAML alias, next to an unused anchor
    whose content (dir, all, template-data ...) must not have any effect"""
    if idx % 2 == 0:
        return json.dumps(conf, indent=1)
    import yaml
    c = dict(conf)
    c["packages"] = dict(conf["packages"])
    anchors = {"unused": {"dir": "out/anchor", "all": True, "recursive": True, "template-data": {"k": "anchor", "nest": {"x": "anchor"}},
                          "exclude-subpkg-regex": ["."], "force-file-write": True}}
    for path, ent in sorted(c["packages"].items()):
        if isinstance(ent, dict) and ent.get("config"):
            anchors["shared"] = ent["config"]          # the same object twice: PyYAML writes &id001 / *id001
            break
    c = {"_anchors": anchors, **c}
    return yaml.safe_dump(c, default_flow_style=False, sort_keys=False, width=1000)


def go_sources(T):
    files = {}
    rtypes = "".join(f"type R_{n} struct{{}}\n" for n in T.nodeseq)
    files["ty/ty.go"] = "package ty\n\ntype T0 struct{}\ntype Ur struct{}\ntype Up struct{}\ntype Ui struct{}\ntype Ue struct{}\n" + rtypes
    files["ty2/ty2.go"] = "package ty2\n\ntype V0 struct{}\n"
    for g, letters in T.decl.items():
        head = [f"package {g}", "", f'import (\n\t"{MOD}/ty"\n\t"{MOD}/ty2"\n)', ""]
        src = list(head)
        for L in sorted(letters, key=lambda x: (x != "N", x)):       # N is declared (and processed) first
            nm = T.iface(g, L)
            if L in T.tagged.get(g, {}):                               # declared only under a build tag
                tag = "tag_" + T.tagged[g][L]
                files[f"{T.pkg_dir(g)}/{g}_{tag}.go"] = f"//go:build {tag}\n\n" + "\n".join(head) + \
                    f"\ntype {nm} interface {{ M{nm}(a ty.T0, b ty.Ur, c ty.Up, d ty.Ui, e ty.Ue, f ty2.V0) ty.T0; V{nm}(xs ...string) }}\n"
                continue
            src.append(f"type {nm} interface {{ M{nm}(a ty.T0, b ty.Ur, c ty.Up, d ty.Ui, e ty.Ue, f ty2.V0) ty.T0; V{nm}(xs ...string) }}")
        files[f"{T.pkg_dir(g)}/{g}.go"] = "\n".join(src) + "\n"
    return files


def expected_mock(T, W, m, profile):
    """contract expectation of one mock (abstract, from TLA+) -> concrete observables"""
    e = m["eff"]
    g = m["pkg"]
    nm = T.iface(g, m["letter"])
    d = e["dir"]
    cdir = f"{W}/{T.pkg_dir(g)}" if d == DEFAULT else f"{W}/out/d_{d}/{g}/{nm}"
    f = e["filename"]
    cfile = "mocks_test.go" if f == DEFAULT else f"f_{f}_{nm}.go"
    t = e["template"]
    ctempl = t if t in ("testify", "matryer") else "P_" + t
    sch = e["template-schema"]
    if sch == DEFAULT:
        csch = (f"file://{probes_dir(W, profile)}/{ctempl}.templ" if ctempl.startswith("P_") else ctempl) + ".schema.json"
    else:
        csch = f"file://{W}/schemas/s_{sch}_{g}.json"
    rt = {}
    for pk, inner in unjson(e["replace-type"]["kv"]).items():
        for tn, leaf in unjson(inner["kv"]).items():
            rt[(pk, tn)] = "R_" + leaf["v"]
    return {"iface": nm, "pkg": g, "from": m["from"], "how": m["how"], "check": m["check"], "mapcheck": m.get("mapcheck", True),
            "path": os.path.normpath(f"{cdir}/{cfile}"),
            "pkgname": g if e["pkgname"] == DEFAULT else "k_" + e["pkgname"].lower(),
            "struct": "Mock" + nm if e["structname"] == DEFAULT else f"S_{e['structname']}_{nm}",
            "template": ctempl, "schema": csch, "require": e["require-template-schema-exists"],
            "formatter": e["formatter"], "force": e["force-file-write"],
            "data": (tree_to_build_tags if profile == "template" else tree_to_data)(e["template-data"]),
            "filedata": (tree_to_build_tags if profile == "template" else tree_to_data)(m["filedata"]),
            "types": [rt.get(k, k[1]) for k in TYPE_KEYS] + [rt.get(("ty", "T0"), "T0")],
            "eff": e, "src": m.get("src", {})}


# ----------------------------------------------------------------------------------------- materialise
class World:
    """one exported case; `at(root)` concretises it at a directory"""

    def __init__(self, ctx, T, case, idx):
        self.T, self.case, self.idx = T, case, idx
        self.dir = ctx.scratch / "worlds" / f"w{idx}"
        self.profile = profile_of(case)

    def at(self, root, poison=None, reject=None):
        return Instance(self, str(root), poison, reject)


class Instance:
    def __init__(self, w, W, poison, reject=None):
        self.w, self.W, self.T = w, W, w.T
        T = w.T
        self.conf, self.env, self.args = build_config(T, W, w.case, w.idx)
        self.mocks = [expected_mock(T, W, m, w.profile) for m in w.case["mocks"]]
        self.mocks.sort(key=lambda m: (m["iface"], m["from"]))
        files = {"go.mod": GOMOD, ".mockery.yml": config_text(self.conf, w.idx)}
        files.update(GO_SOURCES[id(T)])
        if w.profile in ("schema", "template"):
            for n in T.nodeseq:
                files[f"probes/P_{n}.templ"] = PROBE.replace("@ID@", "P_" + n)
            files.update(self.schemas(poison, reject))
        self.files = files

    def schemas(self, poison, reject=None):
        """each schema file accepts exactly the sids of the mocks the contract expects to be validated against
        it; a schema nobody is expected to consult does not exist; `reject` names one file that rejects everything"""
        acc = {}
        for m in self.mocks:
            if not m["template"].startswith("P_"):
                continue
            rel = m["schema"].replace("file://" + self.W + "/", "")
            acc.setdefault(rel, [])
            sid = m["data"].get("sid")
            if m["require"] and sid is not None and sid != poison:
                acc[rel].append(sid)
        out = {rel: json.dumps({"type": "object", "properties": {"sid": {"enum": sorted(set(s)) or ["<nobody>"]}}})
               for rel, s in acc.items()}
        if reject is not None:
            out[reject.replace("file://" + self.W + "/", "")] = json.dumps({"not": {}})
        return out

    def rel(self, m):
        return os.path.relpath(m["path"], self.W)

    def old_content(self, m):
        """content of a pre-existing output file: valid Go of the surrounding package when it sits in a source dir"""
        d = os.path.dirname(m["path"])
        for g in self.T.decl:
            if d == f"{self.W}/{self.T.pkg_dir(g)}":
                return f"package {g}\n\n// OLD user content\n"
        return "// OLD user content\n"

    def write(self, pre=None):
        write_files(self.W, self.files)
        if pre:
            write_files(self.W, pre)
        self.known = dict(self.files)
        self.known.update(pre or {})

    def observe(self):
        """files created or changed by the run -> {relpath: observation}; changed = set of changed known files"""
        out, changed = {}, set()
        for dp, dns, fns in os.walk(self.W):
            for fn in fns:
                p = os.path.join(dp, fn)
                rel = os.path.relpath(p, self.W)
                try:
                    text = open(p, errors="replace").read()
                except OSError:
                    continue
                if rel in self.known:
                    if text == self.known[rel]:
                        continue
                    changed.add(rel)
                out[rel] = observe_file(p, text)
        return out, changed


GO_SOURCES = {}


# ----------------------------------------------------------------------------------------- observe
SWITCH_SEEN = set()       # (matryer switch, observed polarity): both polarities must have been seen for the observer to count
MATRYER_SWITCHES = ("with-resets", "stub-impl", "skip-ensure")
SWITCHES = {"matryer": MATRYER_SWITCHES, "testify": ("unroll-variadic",)}
SIG_RE = re.compile(r"^func \((\w+) \*(\w+)\) (M[A-Z0-9]+)\(([^)]*)\) ?([^{]*)\{", re.M)


def parse_types(arglist, ret):
    ts = []
    for a in [x.strip() for x in arglist.split(",") if x.strip()]:
        t = a.split()[-1]
        ts.append(t.split(".")[-1])
    ts.append(ret.strip().split(".")[-1])
    return ts


def observe_file(path, text):
    """-> dict(kind, pkgname, template, filedata, formatter, mocks=[{iface, struct, data, types}])"""
    m = re.search(r"^// PROBE (\{.*\})\s*$", text, re.M)
    pk = re.search(r"^package (\w+)", text, re.M)
    if m:
        try:
            j = json.loads(m.group(1))
        except ValueError as ex:
            raise MachineryError(f"probe dump in {path} is not JSON: {ex}: {m.group(1)[:300]}")
        has_import = re.search(r'^import "os"', text, re.M) is not None
        indented = re.search(r"^\ta int$", text, re.M) is not None
        raw = re.search(r"^a int$", text, re.M) is not None
        fm = "noop" if (raw and has_import) else "gofmt" if (indented and has_import) else \
            "goimports" if (indented and not has_import) else "?"
        mocks = []
        for x in j["ifaces"]:
            types = None
            for s in x["sigs"]:
                mm = re.match(r"^(M[A-Z0-9]+)\(([^)]*)\) ?(.*)$", s)
                if mm and mm.group(1) == "M" + x["name"]:
                    types = parse_types(mm.group(2), mm.group(3))
            mocks.append({"iface": x["name"], "struct": x["struct"], "data": x["data"], "types": types})
        return {"kind": "probe", "pkgname": j["pkgname"], "clause": pk.group(1) if pk else None, "template": j["probe"],
                "filedata": j["filedata"], "formatter": fm, "mocks": mocks}
    if "mockery" in text and pk:
        templ = "testify" if '"github.com/stretchr/testify/mock"' in text else "matryer" if "sync." in text else "?"
        mocks = []
        for mm in SIG_RE.finditer(text):
            if "ty." not in mm.group(4):
                continue
            name = mm.group(3)[1:]
            st = mm.group(2)
            flags = None
            if templ == "testify":
                vm = re.search(r"^func \(\w+ \*" + re.escape(st) + r"\) V" + re.escape(name) + r"\(xs \.\.\.string\)[^\n]*\{(.*?)^\}", text, re.M | re.S)
                if vm:
                    flags = {"unroll-variadic": re.search(r"Called\(xs\)", vm.group(1)) is None}
                    SWITCH_SEEN.add(("unroll-variadic", flags["unroll-variadic"]))
            if templ == "matryer":
                body = text[mm.end():]
                body = body[:body.find("\n}\n") if "\n}\n" in body else len(body)]
                flags = {"with-resets": re.search(r"^func \(\w+ \*" + re.escape(st) + r"\) ResetCalls\(\)", text, re.M) is not None,
                         "stub-impl": "panic(" not in body,
                         "skip-ensure": re.search(r"^var _ [\w.]*\b" + re.escape(name) + r"\b[^\n]*= &" + re.escape(st) + r"\b", text, re.M) is None}
                for k, v in flags.items():
                    SWITCH_SEEN.add((k, v))
            mocks.append({"iface": name, "struct": st, "data": None, "flags": flags, "types": parse_types(mm.group(4), mm.group(5))})
        bt = re.search(r"^//go:build (.+)$", text, re.M)
        return {"kind": "builtin", "pkgname": pk.group(1), "clause": pk.group(1), "template": templ, "text": text,
                "filedata": {"mock-build-tags": bt.group(1).strip()} if bt else {}, "formatter": None, "mocks": mocks}
    return {"kind": "unknown", "head": text[:200]}


class Judge:
    """compares what one world's runs did with the contract's expectation and records violations"""

    def __init__(self, ctx, w, inst):
        self.ctx, self.w, self.T, self.inst = ctx, w, w.T, inst
        self.bad = []

    def lvl(self, n):
        return self.T.nodes[n]["kind"] if n in self.T.nodes else ("default" if n == "" else "?")

    def where_set(self, m, param):
        cfg = self.w.case["cfg"]
        param = re.split(r"[(\[]", param)[0]
        return [self.lvl(n) for n in self.T.chain(m["from"]) if param in unjson(cfg.get(n, {}))]

    def origin(self, m, observed):
        """which level's marker the observed value carries, relative to the mock's chain"""
        if observed is None:
            return "none"
        s = json.dumps(observed) if not isinstance(observed, str) else observed
        s = s.replace("_", " ")
        hits = [n for n in sorted(self.T.nodes, key=len, reverse=True)
                if re.search(r"(?<![A-Za-z0-9])" + re.escape(n) + r"(?![A-Za-z0-9])", s)]
        if not hits:
            return "default-or-unknown"
        on = [n for n in hits if n in self.T.chain(m["from"])]
        off = [n for n in hits if n not in on]
        return ("offchain:" + self.lvl(off[0])) if off else ("chain:" + self.lvl(on[0]))

    def viol(self, kind, param, m, expected, observed, extra=None):
        d = self.w.case["desc"]
        sig = {"kind": kind, "param": param, "fam": d["fam"]}
        if m is not None:
            sig.update({"how": m["how"], "set_at": "+".join(self.where_set(m, param)) or "nowhere",
                        "expected_from": self.lvl(m["src"].get(param, "")) if param in m["src"] else "merged",
                        "observed_from": self.origin(m, observed)})
        if d["fam"] == "chain":
            sig["focus"] = d["param"]
            sig["share"] = d["share"]
        else:
            sig["profile"] = d["profile"]
        if isinstance(observed, dict) and "file_level_value" in observed:
            sig["observed_from"] = "file-level(package)" if observed["observed"] == observed["file_level_value"] else "other"
        det = {"desc": d, "param": param, "mock": None if m is None else {k: m[k] for k in ("iface", "pkg", "from", "how")},
               "expected": expected, "observed": observed, "config": self.inst.conf, "env": self.inst.env, "args": self.inst.args}
        if extra:
            det.update(extra)
        self.bad.append((sig, det))


def check_base_run(J, res, obs):
    """the base run: every expected mock was written where and how the contract says"""
    w, T, inst = J.w, J.T, J.inst
    if res.timed_out:
        raise Stalled(f"mockery timed out on world {w.idx}")
    if res.panicked:
        J.viol("panic", focus_of(w), None, "no panic", res.brief())
        return
    if res.code != 0:
        if re.search(r"internal error: package \S+ without types was imported", res.err + res.out):
            raise Stalled(f"go/packages internal error (toolchain / build cache trouble, not mockery) on world {w.idx}")
        J.viol("run-failed", focus_of(w), None, "exit 0 and every configured mock written", res.brief())
        return
    obs_m = {}
    for rel, o in obs.items():
        if o["kind"] == "unknown":
            raise MachineryError(f"world {w.idx}: cannot classify written file {rel}: {o['head']!r}")
        for x in o["mocks"]:
            obs_m.setdefault(x["iface"], []).append(dict(x, rel=rel, file=o))
    exp_m = {}
    for m in inst.mocks:
        exp_m.setdefault(m["iface"], []).append(m)
    for name in sorted(set(exp_m) | set(obs_m)):
        es, os_ = exp_m.get(name, []), obs_m.get(name, [])
        g = next((g for g in T.decl for L in T.decl[g] if T.iface(g, L) == name), None)
        if g in T.unchecked:
            continue
        if len(es) != len(os_):
            J.viol("mock-count", selection_param(w), es[0] if es else None,
                   {"iface": name, "mocks": len(es)}, {"iface": name, "mocks": len(os_), "files": sorted({x["rel"] for x in os_})},
                   {"package": g})
            continue
        # pair the mocks of one interface so that the number of differing fields is minimal
        best = None
        for perm in itertools.permutations(range(len(os_))):
            diffs = []
            for e, oi in zip(es, perm):
                diffs += mock_diffs(inst, e, os_[oi])
            if best is None or len(diffs) < len(best):
                best = diffs
            if not diffs:
                break
        for param, e, expd, obsd in best:
            J.viol("effective-mismatch", param, e, expd, obsd)


def focus_of(w):
    d = w.case["desc"]
    return d["param"] if d["fam"] == "chain" else "packed:" + d["profile"]


def selection_param(w):
    d = w.case["desc"]
    if d["fam"] == "chain" and d["param"] in ("all", "include-interface-regex", "exclude-interface-regex", "recursive", "exclude-subpkg-regex",
                                             "build-tags"):
        return d["param"]
    return "selection"


def mock_diffs(inst, e, o):
    """[(param, expected mock, expected value, observed value)] for one expected/observed pairing"""
    f = o["file"]
    out = []
    rel = inst.rel(e)
    if rel != o["rel"]:
        ed, of = os.path.split(rel), os.path.split(o["rel"])
        if ed[0] != of[0]:
            out.append(("dir", e, ed[0], of[0]))
        if ed[1] != of[1]:
            out.append(("filename", e, ed[1], of[1]))
    if e["pkgname"] != f["pkgname"] or (f.get("clause") and f["clause"] != e["pkgname"]):
        out.append(("pkgname", e, e["pkgname"], {"data": f["pkgname"], "clause": f.get("clause")}))
    if e["struct"] != o["struct"]:
        out.append(("structname", e, e["struct"], o["struct"]))
    if e["template"] != f["template"]:
        out.append(("template", e, e["template"], f["template"]))
    if o["types"] is None:
        raise MachineryError(f"no method signature found for {e['iface']} in {o['rel']}")
    if not e["mapcheck"]:
        # listed below a recursive package / discovered below such a package: scalar parameters only (see MapUnchecked)
        if f["kind"] == "probe" and e["formatter"] != f["formatter"]:
            out.append(("formatter", e, e["formatter"], f["formatter"]))
        return out
    if e["types"] != o["types"]:
        out.append(("replace-type", e, e["types"], o["types"]))
    if f["kind"] == "probe":
        if e["data"] != o["data"]:
            out.append(("template-data", e, e["data"], o["data"]))
        if e["formatter"] != f["formatter"]:
            out.append(("formatter", e, e["formatter"], f["formatter"]))
        if e["filedata"] != f["filedata"]:
            out.append(("template-data(file)", e, e["filedata"], f["filedata"]))
    else:
        # built-in templates: the file-level keys are visible through the header, the per-mock switches of
        # the matryer template through the generated code
        eb, ob = e["filedata"].get("mock-build-tags"), f["filedata"].get("mock-build-tags")
        if eb != ob:
            out.append(("template-data(file)", e, {"mock-build-tags": eb}, {"mock-build-tags": ob}))
        if o.get("flags") is not None:
            for k in SWITCHES[f["template"]]:
                want = bool(e["data"].get(k, False))
                if want != o["flags"][k]:
                    out.append((f"template-data[{k}]", e, want,
                                {"observed": o["flags"][k], "file_level_value": bool(e["filedata"].get(k, False))}))
    return out


# ----------------------------------------------------------------------------------------- running one world
def run_bin(ctx, cwd, args, env, tracefile, timeout=180):
    """thread-safe variant of ctx.run_mockery (which numbers its trace files with an unlocked counter)"""
    e = go_env(env)
    # a private Go build cache: the worlds' packages are compiled per world directory anyway, and the shared cache is
    # trimmed / cleaned by other jobs while go/packages is reading it ("internal error: package ... without types")
    e["GOCACHE"] = str(ctx.scratch / "gocache")
    if tracefile is not None:
        e["VERIFHOOK_TRACE"] = str(tracefile)
    t = time.time()
    try:
        p = subprocess.run([str(ctx.mockery()), *args], cwd=cwd, env=e, capture_output=True, text=True,
                           timeout=timeout, errors="replace")
        code, out, err, to = p.returncode, p.stdout, p.stderr, False
    except subprocess.TimeoutExpired:
        code, out, err, to = -9, "", "", True
    evs = []
    if tracefile is not None and os.path.exists(tracefile):
        for ln in open(tracefile).read().splitlines():
            try:
                evs.append(json.loads(ln))
            except ValueError:
                pass
        os.unlink(tracefile)
    return RunResult(code, out, err, time.time() - t, to, evs)


def varies(case, param):
    return any(param in unjson(v) for v in case["cfg"].values())


UNREPRODUCED = []


class Stalled(Exception):
    pass


def run_world(ctx, T, case, idx, quick):
    """one retry from scratch when a run stalls (an overloaded machine must not turn into a verdict or an abort)"""
    try:
        r = run_world_once(ctx, T, case, idx, quick)
        if r[0]:
            # a verdict needs a reproduction: the same world once more from scratch (go/packages fails sporadically when
            # the shared Go build cache is trimmed or the disk fills up under it)
            shutil.rmtree(ctx.scratch / "worlds" / f"w{idx}", ignore_errors=True)
            r2 = run_world_once(ctx, T, case, idx, quick)
            if not r2[0]:
                UNREPRODUCED.append({"world": idx, "desc": case["desc"], "first_attempt": r[0][0][0]})
            return r2
        return r
    except Stalled:
        shutil.rmtree(ctx.scratch / "worlds" / f"w{idx}", ignore_errors=True)
        try:
            return run_world_once(ctx, T, case, idx, quick)
        except Stalled as ex:
            raise MachineryError(str(ex))


def run_world_once(ctx, T, case, idx, quick):
    """materialise, run (base run + focus runs), judge.  Returns (violations, stats, base run, world, instance)."""
    w = World(ctx, T, case, idx)
    inst = w.at(w.dir / "base")
    J = Judge(ctx, w, inst)
    mocks = [m for m in inst.mocks if m["check"]]
    vary_force = varies(case, "force-file-write")
    pre = {}
    if vary_force:
        for m in inst.mocks:
            if m["force"]:
                pre[inst.rel(m)] = inst.old_content(m)
    inst.write(pre)
    res = run_bin(ctx, inst.W, inst.args, inst.env, w.dir / "trace.ndjson")
    obs, changed = inst.observe()
    check_base_run(J, res, obs)
    stats = {"runs": 1, "mocks": len(mocks), "focus": 0, "focus_force": 0, "focus_poison": 0, "focus_reject": 0}
    ok = res.code == 0 and not J.bad
    if ok:
        # files that existed and whose mocks have force=true must have been replaced
        for rel in pre:
            if rel not in changed:
                ms = [m for m in inst.mocks if inst.rel(m) == rel]
                J.viol("effective-mismatch", "force-file-write", ms[0], "existing file replaced (force-file-write effective true)", "file unchanged")
        if "log-level" in case.get("top", {}) and varies(case, "log-level"):
            check_log_level(J, res)
    # ---- whole generated text of built-in-template mocks, keyed by everything the contract says it may depend on
    texts = []
    if ok and not J.bad and case["desc"].get("param", "").startswith("template-data@"):
        for m in mocks:
            o = obs.get(inst.rel(m))
            if o is None or o["kind"] != "builtin" or len(o["mocks"]) != 1 or not m["mapcheck"]:
                continue
            key = json.dumps([m["template"], m["iface"], m["struct"], m["pkgname"], m["types"], m["formatter"],
                              os.path.dirname(inst.rel(m)).startswith("out/"), m["filedata"].get("mock-build-tags"),
                              {k: bool(m["data"].get(k, False)) for k in SWITCHES[m["template"]]}])
            texts.append((key, o["text"], {"world": idx, "desc": case["desc"], "mock_from": m["from"], "how": m["how"],
                                           "set_at": "+".join(J.where_set(m, "template-data")) or "nowhere",
                                           "file_level": {k: bool(m["filedata"].get(k, False)) for k in SWITCHES[m["template"]]}}))
    # ---- focus runs: one expected-to-fail situation per run
    if ok and not J.bad:
        focus = []
        if vary_force:
            seen = set()
            for m in prio(mocks, idx):
                if not m["force"] and m["path"] not in seen and not any(x["force"] for x in inst.mocks if x["path"] == m["path"]):
                    seen.add(m["path"])
                    focus.append(("force", m))
        if w.profile == "schema":
            for m in prio(mocks, idx):
                if m["template"].startswith("P_") and m["data"].get("sid") is not None:
                    focus.append(("poison", m))
        if w.profile in ("schema", "template"):
            # a schema that rejects everything, at the path some mock WITHOUT interface-level template-data (unlisted,
            # discovered sub-package) or a built-in-template mock resolves to: the run fails iff a probe-template mock
            # with require-template-schema-exists effective true is expected to consult exactly that file
            seen = set()
            for m in prio(mocks, idx):
                if m["schema"].startswith("file://") and m["schema"] not in seen and \
                        (m["data"].get("sid") is None or not m["template"].startswith("P_")):
                    seen.add(m["schema"])
                    focus.append(("reject", m))
        if quick and focus:
            focus = [focus[idx % len(focus)]] if idx % 3 else []      # quick: two worlds out of three get their focus run
        elif not quick:
            kinds = {}
            for x in focus:
                kinds.setdefault(x[0], []).append(x)
            focus = [x for k in kinds for x in kinds[k][:2]]
        for i, (what, m) in enumerate(focus):
            stats["runs"] += 1
            stats["focus"] += 1
            stats["focus_" + what] = stats.get("focus_" + what, 0) + 1
            if what == "force":
                fi = w.at(w.dir / f"f{i}")
                fm = next(x for x in fi.mocks if x["iface"] == m["iface"] and x["from"] == m["from"])
                rel = fi.rel(fm)
                fi.write({rel: fi.old_content(fm)})
                r2 = run_bin(ctx, fi.W, fi.args, fi.env, None)
                if r2.timed_out:
                    raise Stalled(f"mockery timed out on a focus run of world {w.idx}")
                now = open(os.path.join(fi.W, rel)).read()
                if r2.panicked:
                    J.viol("panic", "force-file-write", m, "no panic", r2.brief())
                elif r2.code == 0 or now != fi.old_content(fm):
                    J.viol("effective-mismatch", "force-file-write", m, "existing file kept and exit != 0 (force-file-write effective false)",
                           {"exit": r2.code, "file_replaced": now != fi.old_content(fm)})
            elif what == "reject":
                fi = w.at(w.dir / f"f{i}")
                fm = next(x for x in fi.mocks if x["iface"] == m["iface"] and x["from"] == m["from"])
                fi = w.at(w.dir / f"f{i}", reject=fm["schema"])
                fi.write()
                users = [x["iface"] for x in fi.mocks if x["schema"] == fm["schema"] and x["require"] and x["template"].startswith("P_")]
                r2 = run_bin(ctx, fi.W, fi.args, fi.env, None)
                if r2.timed_out:
                    raise Stalled(f"mockery timed out on a focus run of world {w.idx}")
                if r2.panicked:
                    J.viol("panic", "template-schema", m, "no panic", r2.brief())
                elif bool(users) != (r2.code != 0):
                    J.viol("effective-mismatch", "template-schema" if users else "require-template-schema-exists", m,
                           {"schema_file_rejecting_everything": os.path.relpath(fm["schema"][7:], fi.W),
                            "mocks_expected_to_be_validated_against_it": users, "expect": "exit != 0" if users else "exit 0"},
                           {"exit": r2.code, "stderr_tail": (r2.err + r2.out)[-300:]})
            else:
                fi = w.at(w.dir / f"f{i}", poison=m["data"]["sid"])
                fi.write()
                r2 = run_bin(ctx, fi.W, fi.args, fi.env, None)
                if r2.timed_out:
                    raise Stalled(f"mockery timed out on a focus run of world {w.idx}")
                if r2.panicked:
                    J.viol("panic", "require-template-schema-exists", m, "no panic", r2.brief())
                elif m["require"] and r2.code == 0:
                    J.viol("effective-mismatch", "require-template-schema-exists", m,
                           "template-data validated against the schema (a schema rejecting it => exit != 0)", {"exit": 0})
                elif not m["require"] and r2.code != 0:
                    J.viol("effective-mismatch", "require-template-schema-exists", m,
                           "no validation (require-template-schema-exists effective false)", r2.brief())
            shutil.rmtree(fi.W, ignore_errors=True)
    if not os.environ.get("VERIF_KEEP"):
        shutil.rmtree(w.dir, ignore_errors=True)
    inst.texts = texts
    return J.bad, stats, res, w, inst


def prio(mocks, idx):
    """focus mocks: the target chain and its siblings first, rotated by the world number"""
    order = ["p1A1", "p1A2", "p1B1", "p2A1", "p1C", "p1", "p2", "p1N", "p2C", "p2A2", "p1B2", "p2B1", "p2B2"]
    order = order[idx % 4:] + order[:idx % 4]
    return sorted(mocks, key=lambda m: (order.index(m["from"]) if m["from"] in order else 99, m["iface"]))


LOG_FORMAT_SEEN = []
LOG_WRN_SEEN = []
LOG_SETS = {"debug": {"DBG", "INF", "WRN"}, "info": {"INF", "WRN"}, "warn": {"WRN"}, "error": set()}


def check_log_level(J, res):
    exp = J.w.case["top"]["log-level"]
    seen = set(re.findall(r"Z (TRC|DBG|INF|WRN|ERR|FTL) ", res.out + res.err)) & {"DBG", "INF", "WRN"}
    if seen:
        LOG_FORMAT_SEEN.append(1)
    if "WRN" in seen:
        LOG_WRN_SEEN.append(1)
    if seen != LOG_SETS[exp]:
        obs = next((k for k, v in LOG_SETS.items() if v == seen), "+".join(sorted(seen)))
        d = J.w.case["desc"]
        J.bad.append(({"kind": "effective-mismatch", "param": "log-level", "fam": d["fam"], "set_at": "+".join(sorted(d.get("S", []))),
                       "expected": exp, "observed": obs},
                      {"desc": d, "expected": exp, "observed_levels": sorted(seen), "env": J.inst.env, "args": J.inst.args,
                       "config": J.inst.conf}))


# ----------------------------------------------------------------------------------------- hook traces
def project_trace(T, inst, case, idx, res):
    """hook events of one base run -> abstract events for spec/ConfigTreeTrace.tla (concrete strings are mapped
    back to the markers they were expanded from; anything unrecognised becomes "?<value>" and is rejected)"""
    W = inst.W
    by_path = {T.pkg_path(g): g for g in T.decl}
    by_name = {T.iface(g, L): (g, L) for g in T.decl for L in T.decl[g]}
    lower = {n.lower(): n for n in T.nodes}
    probes = probes_dir(W, inst.w.profile)

    def a_dir(v, g, nm):
        m = re.match(r"^out/d_(\w+)/" + re.escape(g) + "/" + re.escape(nm) + "$", v)
        return m.group(1) if m else DEFAULT if os.path.normpath(v) == os.path.normpath(f"{W}/{T.pkg_dir(g)}") else "?" + v

    def a_file(v, nm):
        m = re.match(r"^f_(\w+)_" + re.escape(nm) + r"\.go$", v)
        return m.group(1) if m else DEFAULT if v == "mocks_test.go" else "?" + v

    def a_pkgname(v, g):
        return lower[v[2:]] if v.startswith("k_") and v[2:] in lower else DEFAULT if v == g else "?" + v

    def a_struct(v, nm):
        m = re.match(r"^S_(\w+)_" + re.escape(nm) + "$", v)
        return m.group(1) if m else DEFAULT if v == "Mock" + nm else "?" + v

    def a_templ(v):
        m = re.match("^file://" + re.escape(probes) + r"/P_(\w+)\.templ$", v)
        return m.group(1) if m else v if v in ("testify", "matryer") else "?" + v

    def a_schema(v, templ):
        m = re.match("^file://" + re.escape(W) + r"/schemas/s_([A-Za-z0-9]+)_[a-z0-9]+\.json$", v)
        return m.group(1) if m else DEFAULT if v == templ + ".schema.json" else "?" + v

    out = [{"ev": "reset", "world": idx, "cfg": {n: unjson(v) for n, v in case["cfg"].items()}}]
    pending = []
    cur = None
    for e in res.trace:
        ev = e.get("ev")
        if ev == "Select":
            g = by_path.get(e["pkg"])
            if g is None or g in T.unchecked or e["iface"] not in by_name:
                continue
            out.append({"ev": "select", "world": idx, "pkg": g, "letter": by_name[e["iface"]][1], "gen": bool(e["gen"])})
        elif ev == "Resolved" and e.get("iface"):
            pending.append(e)
        elif ev == "Collect":
            if e["iface"] not in by_name:
                continue
            g, L = by_name[e["iface"]]
            if g in T.unchecked:
                continue
            r = next((x for x in reversed(pending) if x["iface"] == e["iface"] and x["structname"] == e["struct"]), None)
            if r is None:
                raise MachineryError(f"world {idx}: Collect event without a matching Resolved event: {e}")
            pending.remove(r)
            nm = e["iface"]
            out.append({"ev": "mock", "world": idx, "pkg": g, "letter": L, "file": e["file"],
                        "vals": {"dir": a_dir(r["dir"], g, nm), "filename": a_file(r["filename"], nm),
                                 "pkgname": a_pkgname(e["pkgname"], g), "structname": a_struct(e["struct"], nm),
                                 "template": a_templ(e["template"]), "template-schema": a_schema(r["schema"], e["template"])}})
        elif ev == "FileBegin":
            cur = {"file": e["file"]}
        elif ev == "Stage" and cur is not None and e.get("ok"):
            if e["stage"] == "template":
                cur.update(template=e["template"], schema=e["schema"], hasschema=bool(e["hasschema"]))
            elif e["stage"] == "format":
                cur["formatter"] = e["formatter"]
        elif ev == "Exists" and cur is not None and cur["file"] == e["file"]:
            if {"template", "formatter"} <= set(cur):
                out.append({"ev": "file", "world": idx, "file": cur["file"], "hasschema": cur["hasschema"],
                            "vals": {"template": a_templ(cur["template"]), "template-schema": a_schema(cur["schema"], cur["template"]),
                                     "formatter": cur["formatter"], "force-file-write": bool(e["force"])}})
            cur = None
        elif ev in ("Inject", "Exclude"):
            pa, su = by_path.get(e["parent"]), by_path.get(e["sub"])
            if pa in T.configured and pa not in T.unchecked and su in T.subs.get(pa, []) and su not in T.configured:
                out.append({"ev": ev.lower(), "world": idx, "parent": pa, "sub": su})
        elif ev == "Exit" and e.get("code") == 0:
            out.append({"ev": "end", "world": idx})
    # events of files that mix checked and unchecked mocks cannot occur (own package => own directory);
    # `file` events of the unchecked package have no `mock` events: drop them
    known = {x["file"] for x in out if x["ev"] == "mock"}
    return [x for x in out if x["ev"] != "file" or x["file"] in known]


def validate_traces(ctx, runs):
    """runs: [(world idx, desc, events)].  One TLC pass per batch; a rejected run is cut out and the rest revalidated.
    Returns (accepted runs, [(idx, desc, rejected event)])."""
    todo = list(runs)
    ok, rej = 0, []
    while todo:
        evs = [e for _, _, es in todo for e in es]
        good, r = ctx.validate_trace("ConfigTreeTraceMC", "ConfigTreeTrace.cfg", evs, timeout=900)
        if good:
            ok += len(todo)
            break
        if r.consumed is None:
            raise MachineryError("trace validation gave no CONSUMED line:\n" + r.tail())
        bad = evs[r.consumed[0]] if r.consumed[0] < len(evs) else evs[-1]
        k = next(i for i, (idx, _, _) in enumerate(todo) if idx == bad["world"])
        ok += k
        rej.append((todo[k][0], todo[k][1], bad))
        todo = todo[k + 1:]
        if len(rej) >= 8:
            break
    return ok, rej


# ----------------------------------------------------------------------------------------- whole-text comparison
def compare_texts(groups, stats):
    """The per-mock switches of the built-in templates (testify: unroll-variadic; matryer: with-resets, stub-impl,
    skip-ensure) are read at several places of the template.  Two mocks of the same interface whose EFFECTIVE values
    (and struct name, package name, signature types, header data) are equal must be generated byte-identically, no
    matter at which levels the values were written: any difference is a consumer reading another level."""
    import difflib
    bad = []
    stats["texts_compared"] = sum(len(v) for g in groups.values() for v in g.values())
    stats["text_groups"] = len(groups)
    stats["text_groups_with_several_placements"] = sum(1 for g in groups.values() if len({i["set_at"] for v in g.values() for i in v}) > 1)
    for key, variants in groups.items():
        if len(variants) < 2:
            continue
        k = json.loads(key)
        # reference: the text generated where the package level agrees with the mock's own effective values
        # (every consumer level gives the same answer there), else the most frequent one
        ranked = sorted(variants.items(), key=lambda kv: (-sum(1 for i in kv[1] if i["file_level"] == k[8]), -len(kv[1])))
        ref_text, ref_infos = ranked[0]
        for text, infos in ranked[1:]:
            diff = [ln for ln in difflib.unified_diff(ref_text.splitlines(), text.splitlines(), "reference placement", "this placement", lineterm="", n=1)][:40]
            i = infos[0]
            sig = {"kind": "text-differs-for-equal-effective-values", "param": "template-data@" + k[0], "template": k[0],
                   "fam": "chain", "set_at": i["set_at"], "how": i["how"],
                   "file_level_equals_mock_level": i["file_level"] == k[8]}
            bad.append((sig, {"interface": k[1], "effective_switches": k[8], "this": infos[:3], "reference": ref_infos[:3], "diff": diff,
                              "meaning": "same effective values, different generated mock: some read of the switch in the template uses another level"}))
    return bad


# ----------------------------------------------------------------------------------------- source of the config file
def replay_config_sources(ctx, T, cases):
    """--config vs MOCKERY_CONFIG vs search (spec/ConfigSources.tla): which file is read is revealed by `dir`"""
    n = 0
    for i, c in enumerate(cases):
        given = set(unjson(c["given"]) or [])
        W = ctx.scratch / "worlds" / f"cfgsrc{i}"
        files = {"go.mod": GOMOD}
        files.update({k: v for k, v in GO_SOURCES[id(T)].items() if k.startswith(("ty", "p2/p2.go"))})
        for src, fn in (("search", ".mockery.yml"), ("env", "cfg_env.yml"), ("flag", "cfg_flag.yml")):
            files[fn] = json.dumps({"template": f"file://{SHARED}/P_root.templ", "require-template-schema-exists": False,
                                    "dir": f"out_{src}", "filename": "{{.InterfaceName}}.go",
                                    "packages": {T.pkg_path("p2"): {"interfaces": {T.iface("p2", "D"): None}}}})
        write_files(W, files)
        env = {"MOCKERY_CONFIG": "cfg_env.yml"} if "env" in given else {}
        args = ["--config", "cfg_flag.yml"] if "flag" in given else []
        res = run_bin(ctx, W, args, env, None)
        if res.timed_out:
            res = run_bin(ctx, W, args, env, None)
            if res.timed_out:
                raise MachineryError("mockery timed out on a config-source case")
        n += 1
        got = sorted(x[4:] for x in os.listdir(W) if x.startswith("out_"))
        sig = {"kind": "effective-mismatch", "param": "config", "set_at": "+".join(sorted(given)) or "nowhere",
               "expected": c["expect"], "observed": "+".join(got) or "none"}
        if res.panicked or res.code != 0:
            ctx.violation(dict(sig, kind="run-failed"), {"case": c, "run": res.brief()})
        elif got != [c["expect"]]:
            ctx.violation(sig, {"case": c, "env": env, "args": args, "expected_config_file": c["expect"], "config_file_read": got,
                                "how": "three config files with different `dir`; the directory that appears tells which file was read"})
        shutil.rmtree(W, ignore_errors=True)
    return n


# ----------------------------------------------------------------------------------------- main
def model_checks(ctx, thorough, out):
    """the TLC runs that need no replay: code-shaped merge model vs contract, sensitivity, vacuity, source layering"""
    try:
        r = ctx.tlc("ConfigTreeMC", "ConfigTree_thorough.cfg" if thorough else "ConfigTree_quick.cfg", workers=8, timeout=2400,
                    coverage=thorough)
        out["impl"] = r
        out["d5"] = ctx.tlc("ConfigTreeMC", "ConfigTree_d5.cfg", workers=2, timeout=600, count=False)
        out["d3"] = ctx.tlc("ConfigTreeMC", "ConfigTree_d3.cfg", workers=2, timeout=600, count=False)
        out["m10"] = ctx.tlc("ConfigTreeMC", "ConfigTree_m10.cfg", workers=2, timeout=600, count=False)
        out["w3"] = ctx.tlc("ConfigTreeMC", "ConfigTree_w3.cfg", workers=2, timeout=600, count=False)
        out["src_layer"] = ctx.tlc("ConfigSources", "ConfigSources_layer.cfg", workers=1, timeout=300)
        out["src_d18"] = ctx.tlc("ConfigSources", "ConfigSources_d18.cfg", workers=1, timeout=300, count=False)
    except BaseException as ex:  # re-raised in the main thread
        out["error"] = ex


def judge_models(ctx, mc, thorough):
    if "error" in mc:
        raise mc["error"]
    r = mc["impl"]
    if r.violated:
        # a prediction: the replay decides.  Reported, never a verdict by itself.
        ctx.note(f"model-level: {r.violated} violated on ConfigTree.tla (code-shaped model disagrees with the contract; see replay)")
    elif not r.ok:
        raise MachineryError("TLC failed on ConfigTree:\n" + r.tail())
    elif (r.depth or 0) < 20:
        raise MachineryError(f"ConfigTree model did not reach the end of the second Initialize pass (depth {r.depth}): vacuous")
    if thorough and r.ok:
        last = {}       # -coverage 1 prints interim reports: only the last count of every action matters
        for ln in r.text.splitlines():
            m = re.match(r"^<(\w+) line \d+, col \d+ to line \d+, col \d+ of module ConfigTree>: (\d+):(\d+)$", ln.strip())
            if m:
                last[m.group(1)] = int(m.group(3))
        z = sorted(a for a, n in last.items() if n == 0)
        if not {"InitPkg", "InitIface", "Inject", "EndPass"} <= set(last) and not {"Inject", "EndPass"} <= set(last):
            raise MachineryError("ConfigTree: no coverage report found")
        if z:
            raise MachineryError("ConfigTree: actions never taken: " + "; ".join(z[:5]))
    for k, inv in (("d5", "NoLeak"), ("d3", "ImplMatchesContract"), ("m10", "ImplMatchesContract"), ("w3", "NeverInjectExisting")):
        if mc[k].violated != inv:
            raise MachineryError(f"sensitivity/vacuity run {k}: expected {inv} to be violated, got {mc[k].violated!r}:\n" + mc[k].tail(15))
    if not mc["src_layer"].ok:
        if mc["src_layer"].violated:
            ctx.note(f"model-level: {mc['src_layer'].violated} violated on ConfigSources.tla (prediction)")
        else:
            raise MachineryError("TLC failed on ConfigSources:\n" + mc["src_layer"].tail())
    if mc["src_d18"].violated != "ConfigFileOK":
        raise MachineryError("sensitivity run ConfigSources_d18: expected ConfigFileOK to be violated:\n" + mc["src_d18"].tail(15))
    ctx.cov["model_sensitivity"] = {"ShareNested(D5)": mc["d5"].violated, "SkipTyped(D3)": mc["d3"].violated,
                                    "ShareUnlisted(no deep copy)": mc["m10"].violated,
                                    "EnvBeforeFlag(D18)": mc["src_d18"].violated}


def vacuity(T, cases, stats):
    chain = [c for c in cases if c["desc"]["fam"] == "chain"]
    packed = [c for c in cases if c["desc"]["fam"] == "packed"]
    need = {"dir", "filename", "pkgname", "structname", "template-data", "replace-type", "template", "template-schema",
            "require-template-schema-exists", "formatter", "force-file-write", "all", "include-interface-regex",
            "exclude-interface-regex", "recursive", "exclude-subpkg-regex", "log-level", "template-data@matryer",
            "template-data@testify", "build-tags"}
    have = {c["desc"]["param"] for c in chain}
    if not need <= have:
        raise MachineryError(f"vacuous: no chain world for {sorted(need - have)}")
    # every level of the target chain (and the default) is the winning one for some world of every scalar parameter
    for p in sorted(need - {"template-data", "replace-type", "log-level", "template-data@matryer", "template-data@testify", "build-tags", "all", "include-interface-regex", "exclude-interface-regex",
                            "recursive", "exclude-subpkg-regex"}):
        srcs = {m["src"][p] for c in chain if c["desc"]["param"] == p for m in c["mocks"] if m["from"] == "p1A1"}
        if not {"", "env", "root", "p1", "p1A", "p1A1"} <= srcs:
            raise MachineryError(f"vacuous: parameter {p}: winning levels seen for the target mock are only {sorted(srcs)}")
    for p in ("all", "recursive", "include-interface-regex", "exclude-interface-regex", "exclude-subpkg-regex"):
        srcs = {c["pkgs"]["p1"]["src"][p] for c in chain if c["desc"]["param"] == p}
        if not {"", "root", "p1"} <= srcs:
            raise MachineryError(f"vacuous: parameter {p}: winning levels {sorted(srcs)}")
    lv = {c["top"]["log-level"] for c in chain if c["desc"]["param"] == "log-level"}
    if lv != {"debug", "info", "warn", "error"}:
        raise MachineryError(f"vacuous: log-level values {sorted(lv)}")
    shares = {c["desc"]["share"] for c in chain}
    if not {"none", "entries", "package"} <= shares:
        raise MachineryError("vacuous: no file-sharing worlds")
    if not any(c["desc"]["sib"] for c in chain):
        raise MachineryError("vacuous: no world with sibling settings")
    letters = {m["letter"] for c in chain if c["desc"]["param"] == "build-tags" for m in c["mocks"]}
    if not {"X", "Y"} <= letters:
        raise MachineryError(f"vacuous: build-tags worlds never expect the tagged interfaces ({sorted(letters)})")
    if not any(p in unjson(c["cfg"].get(n, {})) for c in chain for n in ("p1A", "p1B1", "p2A")
               for p in ("all", "recursive", "exclude-subpkg-regex", "include-interface-regex")):
        raise MachineryError("vacuous: no world writes a per-package parameter on an interface / configs entry")
    nested = [c for c in chain for m in c["mocks"] if m["pkg"] == "p1rd" and m["from"] == "p1r"
              and c["desc"]["param"] in unjson(c["cfg"].get("p1", {}))]
    if len(nested) < 20 or not any(c["desc"]["param"] in unjson(c["cfg"].get("p1r", {})) for c in nested):
        raise MachineryError("vacuous: no world discovers a package below the nested recursive package while the outer one sets the focus parameter")
    if len(packed) < 8:
        raise MachineryError(f"vacuous: only {len(packed)} packed worlds are well-formed")
    if not any(m["how"] == "subpkg" for c in cases for m in c["mocks"]) or not any(m["how"] == "unlisted" for c in cases for m in c["mocks"]):
        raise MachineryError("vacuous: no discovered sub-package / unlisted interface mocks")
    if not stats["violations"] and stats.get("text_groups_with_several_placements", 0) < 4:
        raise MachineryError("vacuous: whole-text comparison of built-in mocks never saw one effective value written at different levels")
    if not stats["violations"] and (stats["focus_force"] == 0 or stats["focus_poison"] == 0 or stats["focus_reject"] == 0):
        raise MachineryError("vacuous: no focus run for force-file-write=false / schema validation")


def run(ctx):
    """anything the machinery cannot do (disk full, a parser tripping over unexpected output, ...) is exit 2, never a verdict"""
    try:
        return run_checked(ctx)
    except MachineryError:
        raise
    except subprocess.TimeoutExpired:
        raise
    except Exception as ex:  # noqa: BLE001
        import traceback
        raise MachineryError(f"{type(ex).__name__}: {ex}\n" + "".join(traceback.format_exc().splitlines(True)[-6:]))


def run_checked(ctx):
    global SHARED
    import threading
    replay = None
    if getattr(ctx, "replay", None):
        replay = json.load(open(ctx.replay))
        ctx.seed, ctx.tier = int(replay.get("seed", ctx.seed)), replay.get("tier", ctx.tier)
    thorough = ctx.thorough()
    quick = not thorough
    ctx.mockery()
    npacked = 150 if thorough else 9
    r = ctx.tlc("ConfigTreeWorldMC", "ConfigTreeWorld_gen.cfg", workers=1, timeout=3000,
                files={"cfg/ConfigTreeWorld_gen.cfg": WORLD_CFG % (ctx.seed, npacked, ctx.tier)})
    if not r.ok:
        raise MachineryError("TLC failed on ConfigTreeWorld:\n" + r.tail())
    T = Tree(r.prints("TREE")[0])
    GO_SOURCES[id(T)] = go_sources(T)
    SHARED = str(ctx.scratch / "shared-probes")
    write_files(SHARED, {f"P_{n}.templ": PROBE.replace("@ID@", "P_" + n) for n in T.nodeseq})
    cases = r.prints("CASE")
    skipped = r.prints("SKIP")
    debug = bool(os.environ.get("C08_ONLY") or os.environ.get("C08_LIMIT") or replay)
    if replay and "desc" in replay["detail"]:
        cases = [c for c in cases if c["desc"] == replay["detail"]["desc"]]
        if not cases:
            raise MachineryError("replay: the recorded world is not among the worlds TLC generates for this seed/tier")
    elif replay:
        cases = cases[:1]
    if os.environ.get("C08_ONLY"):
        want = os.environ["C08_ONLY"].split(",")
        cases = [c for c in cases if (c["desc"].get("param") or c["desc"].get("profile")) in want]
    if os.environ.get("C08_LIMIT"):
        cases = cases[:int(os.environ["C08_LIMIT"])]
    if len(cases) < 300 and not debug:
        raise MachineryError(f"too few exported worlds ({len(cases)})")
    # the model checks run beside the replay (one background thread: ctx.tlc is not re-entrant)
    mc = {}
    th = threading.Thread(target=model_checks, args=(ctx, thorough, mc))
    if not debug:
        th.start()
    bad_all = []
    stats = {"runs": 0, "mocks": 0, "focus": 0, "focus_force": 0, "focus_poison": 0, "focus_reject": 0}
    runs = []
    whole_runs = []
    text_groups = {}
    t0 = time.time()
    samples = []
    with cf.ThreadPoolExecutor(max_workers=int(os.environ.get("C08_JOBS", "16"))) as ex:
        futs = [ex.submit(run_world, ctx, T, c, i, quick) for i, c in enumerate(cases)]
        for i, f in enumerate(futs):
            bad, st, res, w, inst = f.result()
            bad_all += bad
            for key, text, info in inst.texts:
                text_groups.setdefault(key, {}).setdefault(text, []).append(info)
            for k in stats:
                stats[k] += st.get(k, 0)
            if res.trace:
                whole_runs.append((i, res))
            if res.code == 0 and not bad and res.trace:
                runs.append((i, cases[i]["desc"], project_trace(T, inst, cases[i], i, res)))
            if not bad and len(samples) < 3 and cases[i]["desc"].get("param") in ("template", "template-data", "formatter") \
                    and len(unjson(cases[i]["desc"]["S"]) or []) == 3 and cases[i]["desc"].get("param") not in {x["focus"] for x in samples}:
                m = next(x for x in inst.mocks if x["from"] == "p1A1")
                samples.append({"focus": cases[i]["desc"]["param"], "set_at": sorted(cases[i]["desc"]["S"]), "mock": "p1.AP1 configs[0]",
                                "contract_effective": {k: m[k] for k in ("template", "formatter", "data", "struct")},
                                "file": os.path.relpath(m["path"], inst.W), "verdict": "observed = contract"})
    t_replay = time.time() - t0
    bad_all += compare_texts(text_groups, stats)
    for u in UNREPRODUCED[:10]:
        ctx.note("unreproduced (first attempt failed, identical second attempt passed; not a verdict): " + json.dumps(u))
    ctx.cov["worlds_with_unreproduced_failure"] = len(UNREPRODUCED)
    sw_bad = [x for x in bad_all if x[0].get("param", "").startswith("template-data[")]
    if sw_bad and len(SWITCH_SEEN) < 2 * (len(MATRYER_SWITCHES) + 1):
        raise MachineryError(f"built-in template switch observers saw only {sorted(SWITCH_SEEN)}: the template text changed, cannot observe")
    lvl_bad = [x for x in bad_all if x[0].get("param") == "log-level" and x[0]["kind"] == "effective-mismatch"]
    if lvl_bad and not LOG_FORMAT_SEEN:
        raise MachineryError("no run printed a recognisable zerolog console line (`... INF ...`): cannot observe log-level")
    if lvl_bad and not LOG_WRN_SEEN:
        # the warning these worlds provoke (all + include-interface-regex) is gone: warn and error look the same
        ctx.note("no run printed a WRN line: log-level warn and error cannot be told apart, such mismatches are not judged")
        bad_all = [x for x in bad_all if not (x in lvl_bad and {x[0]["expected"], x[0]["observed"]} <= {"warn", "error"})]
    for sig, det in bad_all:
        ctx.violation(sig, det)
    # ---- config file source (ConfigSources.tla)
    if replay and "case" in replay["detail"]:
        GO_SOURCES[id(T)] = go_sources(T)
        replay_config_sources(ctx, T, [replay["detail"]["case"]])
    if not debug:
        th.join()
        judge_models(ctx, mc, thorough)
        ccases = mc["src_layer"].prints("CASE")
        if len(ccases) != 4:
            raise MachineryError(f"ConfigSources exported {len(ccases)} cases, expected 4")
        stats["runs"] += replay_config_sources(ctx, T, ccases)
    # ---- hook traces
    t1 = time.time()
    cap = 100 if quick else 2000
    if len(runs) > cap:
        keep = [x for x in runs if x[1]["fam"] == "packed"][:cap // 2]
        rest = [x for x in runs if x[1]["fam"] != "packed"]
        ctx.rng.shuffle(rest)
        runs = sorted(keep + rest[:cap - len(keep)], key=lambda x: x[0])
    n_ok, rej = 0, []
    for b in range(0, len(runs), 400):          # one JVM per 400 runs
        k, rj = validate_traces(ctx, runs[b:b + 400])
        n_ok += k
        rej += rj
    for idx, desc, bad in rej:
        sig = {"kind": "trace-rejected", "event": bad["ev"], "fam": desc["fam"], "focus": desc.get("param", desc.get("profile"))}
        ctx.violation(sig, {"desc": desc, "rejected_event": bad, "spec": "spec/ConfigTreeTrace.tla",
                            "meaning": "the value the code logged at this hook is not the contract's effective value for this world"})
    ctx.cov["traces_validated_against_impl"] = n_ok + len(rej)
    # the trace spec must be able to reject: corrupt one recorded field of an accepted run
    if runs and not rej:
        idx, desc, evs = next((x for x in runs if any(e["ev"] == "mock" for e in x[2])), runs[0])
        evs2 = json.loads(json.dumps(evs))
        tgt = next(e for e in evs2 if e["ev"] == "mock")
        tgt["vals"]["structname"] = "p2B2" if tgt["vals"]["structname"] != "p2B2" else "root"
        good, _ = ctx.validate_trace("ConfigTreeTraceMC", "ConfigTreeTrace.cfg", evs2, timeout=300)
        if good:
            raise MachineryError("trace specification accepted a corrupted trace (structname of one mock changed): vacuous")
        ctx.cov["trace_spec_rejects_corrupted_field"] = True
        k = next(i for i, e in enumerate(evs) if e["ev"] == "mock")
        good, _ = ctx.validate_trace("ConfigTreeTraceMC", "ConfigTreeTrace.cfg", evs[:k] + evs[k + 1:], timeout=300)
        if good and any(e["ev"] == "end" for e in evs):
            raise MachineryError("trace specification accepted a trace with one mock's Resolved/Collect events dropped: vacuous")
        ctx.cov["trace_spec_rejects_dropped_event"] = True
    # ---- the shared run-level trace specification (spec/MockeryTrace.tla): cross-phase consistency of the complete
    #      hook-event stream (struct / pkgname / template / schema handed on unchanged from Resolved to Collect to Stage ...)
    import runtrace
    wr = list(whole_runs)
    if quick and len(wr) > 200:
        ctx.rng.shuffle(wr)
        wr = sorted(wr[:200], key=lambda x: x[0])
    rj = runtrace.validate_runs(ctx, [r for _, r in wr])
    own, other = runtrace.mine(rj, "C08")
    for x in own:
        # a verdict needs a reproduction: the same world once more from scratch
        i = wr[x["index"]][0]
        shutil.rmtree(ctx.scratch / "worlds" / f"w{i}", ignore_errors=True)
        _, _, res2, _, _ = run_world_once(ctx, T, cases[i], i, quick)
        rj2 = runtrace.validate_runs(ctx, [res2])
        own2, _ = runtrace.mine(rj2, "C08")
        if own2:
            y = own2[0]
            ctx.violation({"kind": "run-trace-rejected", "why": y["why"][0]},
                          {"desc": cases[i]["desc"], "why": y["why"], "at": y["at"], "event": y["event"], "events": y["events"]})
        else:
            ctx.note(f"unreproduced run-trace rejection {x['why']} on world {i} (identical second run accepted; not a verdict)")
    for x in other:
        ctx.note(f"run-trace clause of {x['props']} rejected a run: {x['why']}")
    for d in rj.drift:
        ctx.note("drift: " + ", ".join(d["why"]))
    ctx.cov["traces_validated_against_impl"] += rj.validated
    ctx.cov["run_level_traces_validated"] = rj.validated
    t_trace = time.time() - t1
    print(f"replayed {len(cases)} worlds, {stats['runs']} runs in {t_replay:.1f}s; TLC worlds {r.wall:.1f}s; traces {len(runs)} in {t_trace:.1f}s",
          file=sys.stderr)
    if os.environ.get("C08_DEBUG"):
        with open(os.environ["C08_DEBUG"], "w") as fh:
            for sig, det in bad_all:
                fh.write(json.dumps({"sig": sig, "det": det}, default=str) + "\n")
    if not debug:
        stats["violations"] = len(ctx.violations)
        vacuity(T, cases, stats)
    ctx.cov["evaluations"] = stats["runs"]
    ctx.cov["worlds"] = len(cases)
    ctx.cov["worlds_chain"] = sum(1 for c in cases if c["desc"]["fam"] == "chain")
    ctx.cov["worlds_packed"] = sum(1 for c in cases if c["desc"]["fam"] == "packed")
    ctx.cov["worlds_skipped_not_wellformed"] = len(skipped)
    ctx.cov["mocks_compared"] = stats["mocks"]
    ctx.cov["focus_runs_force_false"] = stats["focus_force"]
    ctx.cov["focus_runs_schema_poison"] = stats["focus_poison"]
    ctx.cov["focus_runs_schema_reject_all"] = stats["focus_reject"]
    ctx.cov["builtin_mock_texts_compared"] = stats.get("texts_compared", 0)
    ctx.cov["builtin_mock_text_groups_with_several_level_placements"] = stats.get("text_groups_with_several_placements", 0)
    ctx.cov["distinct_nontrivial"] = len({json.dumps(c["desc"], sort_keys=True) for c in cases
                                          if c["desc"]["fam"] == "packed" or len(unjson(c["desc"]["S"]) or []) >= 1})
    ctx.cov["rule"] = ("one world per exported TLC state of ConfigTreeWorld.tla (parameter x level subset x value assignment x sharing mode, "
                       "plus packed pseudo-random trees); non-trivial = at least one level sets the focus parameter")
    for smp in samples:
        ctx.sample(smp)
    if runs:
        ctx.sample({"hook_trace_projection_head": runs[0][2][1:4]})
    ctx.assumptions += [
        "small scope: one tree shape (2 sibling packages x 2 sibling interfaces x 2 configs entries, config-only / empty / unlisted interfaces, "
        "discovered and explicitly configured sub-packages); TLC enumerates every level subset of the target chain per parameter",
        "file-level template-data is the package level's effective map (as DESIGN C12 states); the statement itself only names per-mock merging",
        "mocks that share an output file but disagree on a per-file parameter, and sub-packages configured explicitly below a recursive "
        "package, are outside the contract (generated worlds avoid the first, the second is run but not judged)",
        "built-in templates use their embedded schema: template-schema / require-template-schema-exists must not disturb them (runs with a "
        "rejecting or missing schema at the resolved path succeed) and the values handed to the generator are checked in the hook trace; "
        "mocks without interface-level template-data (unlisted, discovered sub-packages) are checked by a reject-everything schema at "
        "their resolved path (one schema file per level and source package)",
        "formatter is observed through the probe template only (gofmt vs goimports is invisible on built-in output)",
        "defaults are the ones of NewDefaultKoanf (dir {{.InterfaceDir}}, filename mocks_test.go, structname {{.Mock}}{{.InterfaceName}}, "
        "pkgname {{.SrcPackageName}}, template testify, template-schema {{.Template}}.schema.json, formatter goimports, "
        "force-file-write false, require-template-schema-exists true, log-level info)",
        "env provider: only scalar parameters (koanf rejects MOCKERY_* for slices and maps); flags: only --config and --log-level exist",
    ]
    return {"level": "model_checking", "exhaustive": False}


if __name__ == "__main__":
    main("C08", run)
