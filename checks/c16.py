#!/usr/bin/env python3
"""C16 -- the template function library is total and matches its documented semantics.

spec -> code
  1. TLC enumerates every argument tuple of spec/FuncLibMC.tla!CaseChoice over the abstract rune alphabet
     of spec/FuncLib.tla, checks the code-shaped layer (ImplCall: funcmap.go's argument permutations, the
     byte-level DecodeRune model of Exported/FirstIsLower, the arithmetic folds) against the contract
     (Expect) on each tuple and exports the contract value with the case (CASE lines).  A second, tiny
     run with ExportedImpl = "byte" (the code before fix d879be0) MUST violate ImplMatchesContract
     (negated witness: the invariant can fail, D15 is visible to the model).
  2. Every tuple is concretised into a generated probe template (`{{ printf "%#v" (trimPrefix "é" "éa") }}`,
     hundreds per template) and evaluated THROUGH THE REAL mockery binary, (A) as a mock template
     (template: file://...) and (B) as a templated config value (structname expression), so funcmap.go's
     table, the argument reordering and text/template's panic recovery are on the path.  One batch = one
     run; a template error names its line, that application is recorded as an *error value*, blanked and
     the batch re-run; a crash/timeout is bisected.  Applications the contract leaves undefined or expects
     to fail (zero divisors, `min` of nothing, invalid regexps, unreadable files) run one per template.
  3. Oracles.  "spec": the TLA+ value.  "spec+std": the TLA+ value, after drivers/funclib has confirmed that
     it equals the Go stdlib namesake with the subject moved first (a disagreement there is a SPEC bug =>
     exit 2, never a violation).  "std": the stdlib namesake computed by drivers/funclib (base/clean/dir,
     quoteMeta, matchString, expandEnv, getenv).  "shape": totality here, shape invariants in step 4.
code -> spec
  4. The op log {fn, args, reply} of real replies -- all shape-function applications, a sample of the
     enumerated ones, and applications TLC did NOT enumerate (longer strings, larger ints, every golint
     initialism in several spellings) -- is validated by TLC against spec/FuncLibTrace.tla; the values
     for the non-enumerated inputs are computed only there.  A corrupted copy must be rejected (self-test).

COVERAGE TABLE (statement / quantifier clause -> what explores it -> what is still a single point or absent)
  "every function offered to templates AND templated config values"
      -> all 44 names of FuncLib!Table: parse-availability in the mock template and in each of dir / filename /
         pkgname / structname / template-schema; values through the mock template (all tuples), through a config
         value rotating over structname / pkgname / template-schema (quick: a third of the tuples, thorough: all),
         through dir and filename (1 / 4 short applications per function, hex-encoded in the value).
      gap: dir / filename carry only short results (file-name limits); a name ADDED to the map is only noted.
  "total: a value or a template error, never crashes the run"
      -> every tuple; error-expected/undefined tuples one per run; 75 adversarial out-of-domain inputs (overflow,
         20 kB strings, wrong types, NUL, truncated UTF-8, pathological regexps); crash/timeout bisected.
      gap: inputs > 20 kB, resource exhaustion; a hang is a 600 s timeout.
  "string functions equal their stdlib namesakes, subject last"
      -> FuncLib!Std* + Table.subj/rot; alphabets with empty, multi-byte, invalid byte, separators at both ends,
         look-alike prefixes/suffixes, upper/lower pairs, case-length-changing letters; counts -2..2/3; empty old /
         empty separator (per-rune explode); n beyond the number of pieces; multi-byte cutsets.
      gap: strings longer than 3 runes only in the seeded random part of the op log; U+FFFD as an INPUT rune.
  "arithmetic equals integer arithmetic over all their arguments"
      -> -3..3 (-4..4), 1..3 args (4 over -2..2), zero divisors, min of nothing; larger values in the op log.
      -> large magnitudes as NAMED ints (2^31, 2^32, 4e9, 9e18, min/max int64; 2..3 operands, 4 over four of them):
         the exact LEFT fold (math/big in drivers/funclib) is the value whenever every intermediate of that fold is
         an int64 -- so an implementation that reorders the evaluation (divide by the product, subtract the sum)
         and overflows on the way is wrong even though "overflow" itself stays open.
      left open on purpose: results when the left fold itself leaves int64, zero divisor (error or value), non-int arguments.
      gap: more than 5 arguments; `max` is not in the map (not documented, not checked).
  "case functions behave as named"
      -> lower/upper/firstLower/firstUpper exact (title-case first letter: mapped or unchanged, both accepted);
         camel/snake/kebab: totality + five shape invariants (ShapeOK) incl. f(f(x)) = f(x) for snake/kebab.
      gap: no exact semantics for camel/snake/kebab (digit/initialism boundaries are free); camelcase idempotence
         is NOT required (xstrings keeps one of two adjacent separators; separator-only strings grow).
  "exported ... first letter upper-cased (or the matching initialism)" / "firstIsLower ... lower-case letter"
      -> every first-rune class: ASCII lower/upper, 2-byte lower/upper, uncased letter, TITLE-case letter,
         letters whose case mapping changes the UTF-8 length (2->1, 2->3, 3->2, 3->1), digit, underscore, space,
         combining mark, invalid byte, empty; all 38 golint initialisms in >= 5 spellings + near misses.
      gap: special-casing that is not in unicode.ToUpper (sharp s, final sigma) is by definition unchanged.
  "for all ... argument tuples" -- dimensions beyond the tuple itself
      argument SPELLING (call / pipeline `s | f a` / typed values from printf, len / template variable):
         drawn per application and route; gap: negative typed ints, typed floats, method results.
      HISTORY (FuncLibHist.tla): replies are functions of the arguments -- every ordered pair of look-alike
         applications of one function (thorough: with another function interleaved), every pool application
         as the FIRST call of a process, every reply re-read after all later calls (reference vs copy).
         gap: histories across two files / two processes of one run (one output file per run here); histories
         containing an erroring application (a template error ends the execution, nothing after it is observable).
      ENVIRONMENT: V set / others unset, `$V ${V} $$ ${} ${`; a second environment whose VALUES contain references
         ($V, ${C}, $$, $5, a self-reference, a 2-cycle, unset names): it travels with the case as an implicit
         argument, the stdlib namesake is computed under the same environment; three-entry file system for readFile.
         gap: environments are fixed tables in FuncLibMC.tla (two of them), not enumerated.
         left open: relative readFile paths (cwd vs config dir), randInt distribution.
"""
import concurrent.futures as cf
import json
import os
import re
import subprocess
import sys
import threading
import time
from pathlib import Path

sys.path.insert(0, os.path.join(os.path.dirname(__file__), "..", "lib"))
import vlib  # noqa: E402
from vlib import MachineryError, main  # noqa: E402

# ------------------------------------------------------------------------------------ rune alphabet
VALID_MULTI = {"ee": "é", "EE": "É", "zh": "中", "fffd": "\ufffd",
               # case mapping changes the UTF-8 length: ı->I, ſ->S (2->1), ɐ<->Ɐ (2<->3), ⱥ<->Ⱥ (3<->2), K(Kelvin)->k (3->1)
               "dli": "\u0131", "ls": "\u017f", "tua": "\u0250", "TUA": "\u2c6f", "ast": "\u2c65", "AST": "\u023a", "kel": "\u212a",
               # three-cased letter (lower / TITLE / upper) and a combining mark
               "dz": "\u01c6", "Dz": "\u01c5", "DZ": "\u01c4", "cm": "\u0301"}
MULTI = {k: v.encode() for k, v in VALID_MULTI.items()}
MULTI.update({"xff": b"\xff", "bs": b"\\", "tab": b"\t", "nl": b"\n"})
B2TOK = sorted(((v, k) for k, v in MULTI.items()), key=lambda kv: -len(kv[0]))


def tok_bytes(tok):
    if tok in MULTI:
        return MULTI[tok]
    if len(tok) == 1 and 0x20 <= ord(tok) < 0x7f:
        return tok.encode()
    raise MachineryError(f"unknown rune token {tok!r}")


def toks_to_bytes(toks):
    return b"".join(tok_bytes(t) for t in toks)


def bytes_to_toks(b):
    """Projection of a real byte string onto the abstract alphabet.  Bytes that are not a whole token
    (e.g. the lone lead byte a byte-indexing bug leaves behind) become '?xx' tokens no spec value contains."""
    out = []
    i = 0
    while i < len(b):
        for seq, tok in B2TOK:
            if b.startswith(seq, i):
                out.append(tok)
                i += len(seq)
                break
        else:
            c = b[i]
            out.append(chr(c) if 0x20 <= c < 0x7f and c != 0x5c else "?%02x" % c)
            i += 1
    return out


def go_lit(b_or_toks):
    """Go interpreted string literal: valid multi-byte runes literally, invalid bytes as \\xHH."""
    if isinstance(b_or_toks, (bytes, bytearray)):
        toks = bytes_to_toks(bytes(b_or_toks))
    else:
        toks = b_or_toks
    out = ['"']
    for t in toks:
        if t in VALID_MULTI:
            out.append(VALID_MULTI[t])
        elif t == "xff":
            out.append("\\xff")
        elif t == "bs":
            out.append("\\\\")
        elif t == "tab":
            out.append("\\t")
        elif t == "nl":
            out.append("\\n")
        elif t == '"':
            out.append('\\"')
        elif t.startswith("?"):
            out.append("\\x" + t[1:])
        else:
            out.append(t)
    out.append('"')
    return "".join(out)


_ESC = {ord("a"): 7, ord("b"): 8, ord("f"): 12, ord("n"): 10, ord("r"): 13, ord("t"): 9, ord("v"): 11,
        ord("\\"): 0x5c, ord('"'): 0x22, ord("'"): 0x27}


def go_unquote_at(b, i):
    """Parse a Go interpreted string literal starting at b[i] == '"'.  Returns (bytes, next index)."""
    if b[i] != 0x22:
        raise ValueError("not a string")
    i += 1
    out = bytearray()
    while True:
        c = b[i]
        if c == 0x22:
            return bytes(out), i + 1
        if c != 0x5c:
            out.append(c)
            i += 1
            continue
        e = b[i + 1]
        if e == ord("x"):
            out.append(int(b[i + 2:i + 4], 16))
            i += 4
        elif e == ord("u"):
            out += chr(int(b[i + 2:i + 6], 16)).encode()
            i += 6
        elif e == ord("U"):
            out += chr(int(b[i + 2:i + 10], 16)).encode()
            i += 10
        elif e in _ESC:
            out.append(_ESC[e])
            i += 2
        elif 0x30 <= e <= 0x37:
            out.append(int(b[i + 1:i + 4], 8))
            i += 4
        else:
            raise ValueError("bad escape")


def parse_gosyntax(raw):
    """printf "%#v" output -> canonical value ('s', bytes) | ('l', tuple) | ('b', bool) | ('n', number) | ('raw', text)."""
    try:
        if raw.startswith(b'"'):
            s, j = go_unquote_at(raw, 0)
            if j == len(raw):
                return ("s", s)
        elif raw in (b"true", b"false"):
            return ("b", raw == b"true")
        elif raw == b"[]string(nil)" or raw == b"[]string{}":
            return ("l", ())
        elif raw.startswith(b"[]string{") and raw.endswith(b"}"):
            i = len(b"[]string{")
            items = []
            while True:
                s, i = go_unquote_at(raw, i)
                items.append(s)
                if raw[i:i + 2] == b", ":
                    i += 2
                elif i == len(raw) - 1:
                    return ("l", tuple(items))
                else:
                    break
        elif re.fullmatch(rb"-?\d+", raw):
            return ("n", int(raw))
        elif re.fullmatch(rb"[-+]?(\d+\.?\d*|\.\d+)([eE][-+]?\d+)?|[-+]?Inf|NaN", raw):
            return ("n", float(raw.decode().replace("Inf", "inf").replace("NaN", "nan")))
    except (ValueError, IndexError):
        pass
    return ("raw", raw.decode("utf8", "replace"))


# ------------------------------------------------------------------------------------ cases
RETKIND = {}  # documentation only: what each function returns is read off the %#v output itself


class Case:
    __slots__ = ("i", "fn", "args", "expect", "oracle", "rot", "subj", "std", "real", "origin", "sp")

    def __init__(self, i, fn, args, expect, oracle, rot, subj=0, origin="tlc"):
        self.i, self.fn, self.args, self.expect, self.oracle, self.rot, self.subj = i, fn, args, expect, oracle, rot, subj
        self.std = None
        self.real = {}       # route -> canonical value
        self.origin = origin
        self.sp = {}         # route -> spelling of the arguments (lit | pipe | typed | var)

    def env(self):
        """The process environment this application is documented against (getenv / expandEnv), or None."""
        for a in self.args:
            if a["t"] == "env":
                return {k: toks_to_bytes(v).decode() for k, v in a["v"].items()}
        return None

    def key(self):
        return json.dumps([self.fn, self.args], sort_keys=True)

    def brief(self):
        return {"fn": self.fn, "args": self.args, "go": self.expr(None)}

    # concretisation --------------------------------------------------------------
    def arg_src(self, a, paths):
        t = a["t"]
        if t == "s":
            return go_lit(a["v"])
        if t == "i":
            return str(a["v"])
        if t == "q":
            return "%.2f" % (a["v"] / 4.0)
        if t == "l":
            # a []string can only be built with the library itself; "," is in no element
            if not a["v"]:
                return '(splitAfterN "," 0 "")'
            return "(split \",\" %s)" % go_lit([t2 for k, el in enumerate(a["v"]) for t2 in (([","] if k else []) + el)])
        if t == "p":
            if paths is None:
                return go_lit(list("<" + a["v"] + ">"))
            return go_lit(paths[a["v"]].encode())
        if t == "raw" or t == "n":
            return a["v"]
        raise MachineryError(f"unknown argument type {t}")

    def typed_src(self, a, paths):
        """The same VALUE as a typed template value instead of an untyped constant: a string that is the result of
        another call, an int that is the result of len (type int, not an ideal constant)."""
        if a["t"] == "s":
            return "(printf \"%%s\" %s)" % go_lit(a["v"])
        if a["t"] == "i" and 0 <= a["v"] <= 8:
            return "(len \"%s\")" % ("x" * a["v"])
        if a["t"] == "q" and a["v"] % 4 == 0:
            return str(a["v"] // 4)                      # an integer constant where a float64 is expected
        return self.arg_src(a, paths)

    def expr(self, paths, sp="lit"):
        return self.line(paths, sp)[1]

    def line(self, paths, sp="lit"):
        """(prefix actions, expression).  Spellings of one and the same abstract application:
        lit  (fn a b s)      pipe  (s | fn a b)  -- the documented reason for 'subject last'
        typed  arguments are typed values      var  the last argument comes from a template variable"""
        shown = [a for a in self.args if a["t"] != "env"]      # the environment is an implicit argument
        srcs = [self.arg_src(a, paths) for a in shown]
        if sp == "typed":
            srcs = [self.typed_src(a, paths) for a in shown]
        if sp == "pipe" and srcs:
            return "", "(%s | %s)" % (srcs[-1], " ".join([self.fn] + srcs[:-1]))
        if sp == "var" and srcs:
            return "{{ $v%d := %s }}" % (self.i, srcs[-1]), "(" + " ".join([self.fn] + srcs[:-1] + ["$v%d" % self.i]) + ")"
        return "", "(" + " ".join([self.fn] + srcs) + ")"


def canon_expect(e):
    t = e["t"]
    if t == "s":
        return ("s", toks_to_bytes(e["v"]))
    if t == "l":
        return ("l", tuple(toks_to_bytes(x) for x in e["v"]))
    if t == "b":
        return ("b", bool(e["v"]))
    if t == "i":
        return ("n", int(e["v"]))
    if t == "oneof":
        return ("oneof", tuple(toks_to_bytes(x) for x in e["v"]))
    return (t,)


def canon_std(r):
    t = r["t"]
    if t == "s":
        return ("s", bytes.fromhex(r.get("s", "")))
    if t == "l":
        return ("l", tuple(bytes.fromhex(x) for x in (r.get("l") or [])))
    if t == "b":
        return ("b", bool(r.get("b", False)))
    if t == "f":
        return ("n", float(r.get("f", 0.0)))
    if t == "i":
        return ("n", int(r.get("i", 0)))
    if t == "err":
        return ("err", r.get("e", ""))
    if t == "undef":
        return ("undef",)
    return ("none",)


def same(a, b):
    if a[0] != b[0]:
        return False
    if a[0] == "err":
        return True
    if a[0] == "n":
        if isinstance(a[1], int) and isinstance(b[1], int):
            return a[1] == b[1]                      # exact: operands go up to 9.2e18
        return float(a[1]) == float(b[1])
    return a[1] == b[1]


def show(v):
    if v is None:
        return None
    if v[0] == "s":
        return {"t": "s", "go": go_lit(v[1])}
    if v[0] in ("l", "oneof"):
        return {"t": v[0], "go": [go_lit(x) for x in v[1]]}
    if len(v) > 1:
        return {"t": v[0], "v": v[1] if not isinstance(v[1], bytes) else v[1].decode("utf8", "replace")}
    return {"t": v[0]}


def reply_event(v):
    """canonical real value -> typed value over the abstract alphabet (for the op log)."""
    if v[0] == "s":
        return {"t": "s", "v": bytes_to_toks(v[1])}
    if v[0] == "l":
        return {"t": "l", "v": [bytes_to_toks(x) for x in v[1]]}
    if v[0] == "b":
        return {"t": "b", "v": v[1]}
    if v[0] == "n" and (isinstance(v[1], int) or float(v[1]) == int(v[1])):
        return {"t": "i", "v": max(-(2 ** 31 - 1), min(2 ** 31 - 1, int(v[1])))}   # TLC integers are 32 bit: clamp
    if v[0] == "err":
        return {"t": "err"}
    return {"t": "raw", "v": str(v[1:])}


def input_class(c):
    cl = set()
    for a in c.args:
        if a["t"] == "s":
            if not a["v"]:
                cl.add("empty")
            if any(t in VALID_MULTI for t in a["v"]):
                cl.add("multibyte")
            if any(t in ("dli", "ls", "tua", "TUA", "ast", "AST", "kel") for t in a["v"]):
                cl.add("case-changes-length")
            if "xff" in a["v"]:
                cl.add("invalid-utf8")
        elif a["t"] == "n":
            cl.add("large-magnitude")
        elif a["t"] == "env":
            cl.add("env-values-with-references")
        elif a["t"] == "i":
            if a["v"] < 0:
                cl.add("negative")
            if a["v"] == 0:
                cl.add("zero")
    return "+".join(sorted(cl)) or "plain"


# ------------------------------------------------------------------------------------ running the binary
class Runner:
    """Evaluates batches of applications through the real binary; one batch = one mockery run."""

    def __init__(self, ctx, env_extra):
        self.ctx = ctx
        self.bin = str(ctx.mockery())
        self.env = vlib.go_env(env_extra)
        self.mod = "example.com/w"
        self.world = ctx.scratch / "c16-world"
        self.world.mkdir()
        (self.world / "go.mod").write_text("module example.com/w\n\ngo 1.23\n")
        vlib.write_files(self.world, {"src/src.go": "package src\n\ntype I interface{ M() }\n",
                                      "fs/file.bin": toks_to_bytes(["a", "ee", "xff", "nl"]), "fs/dir": None})
        self.paths = {"": "", "file": str(self.world / "fs/file.bin"), "dir": str(self.world / "fs/dir"),
                      "missing": str(self.world / "fs/nope")}
        self.cfgroute_tmpl = self.world / "structname.templ"
        self.cfgroute_tmpl.write_text("{{ (index .Interfaces 0).StructName }}")
        self.cfgroute_pkg = self.world / "pkgname.templ"
        self.cfgroute_pkg.write_text("{{ .PkgName }}")
        self.n = 0
        self.lock = threading.Lock()
        self.runs = 0
        self.reruns = 0

    def _next(self):
        with self.lock:
            self.n += 1
            return self.n

    def env_for(self, envdef):
        """Base environment with every one-letter name removed, plus the case's definitions."""
        if envdef is None:
            return self.env
        e = {k: v for k, v in self.env.items() if len(k) != 1}
        e.update(envdef)
        return e

    def _run(self, cfgpath, timeout=120, envdef=None):
        with self.lock:
            self.runs += 1
        t = time.time()
        env = dict(self.env_for(envdef), VERIFHOOK_TRACE=str(Path(cfgpath).parent / "hook.ndjson"))
        try:
            p = subprocess.run([self.bin, "--config", str(cfgpath)], cwd=self.world, env=env, capture_output=True,
                               timeout=timeout)
            return vlib.RunResult(p.returncode, p.stdout.decode("utf8", "replace"), p.stderr.decode("utf8", "replace"),
                                  time.time() - t, False, [])
        except subprocess.TimeoutExpired as ex:
            return vlib.RunResult(-9, "", (ex.stderr or b"").decode("utf8", "replace"), time.time() - t, True, [])

    CFG_PARAMS = ("structname", "pkgname", "template-schema")     # templated config values that never touch the file system

    def _output(self, d, param):
        """What the probe printed: the mock template's output file, or -- for template-schema, which the data model
        does not expose -- the resolved value from the Resolved hook event."""
        if param == "template-schema":
            tf = d / "hook.ndjson"
            if not tf.exists():
                return None
            for ln in tf.read_text(errors="surrogateescape").splitlines():
                try:
                    e = json.loads(ln)
                except ValueError:
                    continue
                if e.get("ev") == "Resolved":
                    return e.get("schema", "").encode("utf8", "surrogateescape")
            return None
        out = d / "out" / "out.txt"
        return out.read_bytes() if out.exists() else None

    def _materialise(self, route, lines, param="structname"):
        k = self._next()
        d = self.world / f"b{k}"
        d.mkdir()
        body = "\n".join(lines)
        conf = {"require-template-schema-exists": False, "formatter": "noop", "dir": str(d / "out"),
                "filename": "out.txt", "pkgname": "out", "log-level": "error",
                "packages": {f"{self.mod}/src": {"config": {"all": True}}}}
        if route == "template":
            (d / "probe.templ").write_text(body)
            conf["template"] = "file://" + str(d / "probe.templ")
        else:
            conf["template"] = "file://" + str(self.cfgroute_pkg if param == "pkgname" else self.cfgroute_tmpl)
            conf[param] = body
        (d / "cfg.yml").write_text(json.dumps(conf))
        return d

    LINE_RE = re.compile(r"template: [^\s\"]*?:(\d+):(\d+): executing .*? at <(.*?)>: (.*)")
    PARSE_RE = re.compile(r"template: [^\s\"]*?:(\d+): (function \\?\"(\w+)\\?\" not defined|.*)")

    def eval_batch(self, route, cases, max_err=40, param="structname"):
        """Returns {case.i: canonical real value}.  An error is a value: ('err', msg)."""
        res = {}
        live = list(cases)
        lines = []
        for c in live:
            pre, ex = c.line(self.paths, c.sp.get(route, "lit"))
            lines.append("%s%d\t{{ printf \"%%#v\" %s }}" % (pre, c.i, ex))
        errs = 0
        per_fn = {}
        while True:
            d = self._materialise(route, lines, param)
            envdef = live[0].env() if live else None           # batches are formed per environment
            r = self._run(d / "cfg.yml", envdef=envdef)
            if r.timed_out and len(live) == 1:
                r = self._run(d / "cfg.yml", timeout=600, envdef=envdef)      # a loaded machine is not a hang
            outb = self._output(d, param if route == "config" else None) if r.code == 0 and not r.panicked else None
            if outb is not None:
                got = {}
                for ln in outb.split(b"\n"):
                    if b"\t" not in ln:
                        continue
                    ident, raw = ln.split(b"\t", 1)
                    got[int(ident)] = parse_gosyntax(raw)
                for c in live:
                    if c.i not in res:
                        if c.i not in got:
                            raise MachineryError(f"probe output lacks application {c.i} {c.expr(None)} ({route})")
                        res[c.i] = got[c.i]
                return res
            text = r.err + r.out
            if r.panicked or r.timed_out or r.code not in (0, 1):
                if len(live) == 1:
                    res[live[0].i] = ("crash", r.brief())
                    return res
                # a crash names no line: bisect
                h = len(live) // 2
                with self.lock:
                    self.reruns += 1
                res.update(self.eval_batch(route, live[:h], max_err, param))
                res.update(self.eval_batch(route, live[h:], max_err, param))
                return res
            m = self.LINE_RE.search(text)
            if len(live) == 1 and (m or "template" in text):
                res[live[0].i] = ("err", (m.group(4) if m else text[-300:])[:200].replace('\\"', '"'))
                return res
            if not m:
                pm = self.PARSE_RE.search(text)
                raise MachineryError(f"probe run failed without an attributable template error ({route}, "
                                     f"{len(live)} applications): " + (pm.group(0) if pm else text[-800:]))
            ln = int(m.group(1))
            if not (1 <= ln <= len(lines)) or lines[ln - 1].startswith("{{/*"):
                raise MachineryError(f"template error names line {ln} which holds no application: {m.group(0)[:300]}")
            c = live[ln - 1]
            # (one application per line: the line number alone identifies it; the message may name an argument)
            res[c.i] = ("err", m.group(4)[:200].replace('\\"', '"'))
            lines[ln - 1] = "{{/* %d: error value recorded */}}" % c.i
            errs += 1
            per_fn[c.fn] = per_fn.get(c.fn, 0) + 1
            if per_fn[c.fn] == 5:
                # the same function failed five times in one batch: stop paying one run per application
                for k2, c2 in enumerate(live):
                    if c2.fn == c.fn and c2.i not in res:
                        res[c2.i] = ("undecided",)
                        lines[k2] = "{{/* %d: not evaluated */}}" % c2.i
            with self.lock:
                self.reruns += 1
            if errs >= max_err:
                for c2 in live:
                    res.setdefault(c2.i, ("undecided",))
                return res

    def eval_history(self, steps):
        """One history = one fresh process.  Every reply is bound to a variable, printed at once and printed
        AGAIN after the last step.  Returns {(pos, 'now'|'end'): canonical value}."""
        n = len(steps)
        lines = ["{{ $r%d := %s }}N%d\t{{ printf \"%%#v\" $r%d }}" % (k, c.expr(self.paths), k, k) for k, c in enumerate(steps)]
        lines += ["E%d\t{{ printf \"%%#v\" $r%d }}" % (k, k) for k in range(n)]
        d = self._materialise("template", lines)
        r = self._run(d / "cfg.yml")
        out = d / "out" / "out.txt"
        res = {}
        if r.code == 0 and not r.panicked and out.exists():
            for ln in out.read_bytes().split(b"\n"):
                if b"\t" in ln:
                    ident, raw = ln.split(b"\t", 1)
                    res[(int(ident[1:]), "now" if ident[:1] == b"N" else "end")] = parse_gosyntax(raw)
            if len(res) != 2 * n:
                raise MachineryError("history probe output incomplete: " + out.read_text(errors="replace")[:300])
            return res
        if r.panicked or r.timed_out or r.code not in (0, 1):
            res[(0, "now")] = ("crash", r.brief())
            return res
        m = self.LINE_RE.search(r.err + r.out)
        if not m or not (1 <= int(m.group(1)) <= n):
            raise MachineryError("history probe failed without an attributable template error: " + (r.err + r.out)[-600:])
        res[(int(m.group(1)) - 1, "now")] = ("err", m.group(4)[:200])
        return res

    def eval_context(self, param, cases):
        """The library inside one templated config parameter (dir, filename, pkgname, template-schema; structname is
        route 'config').  Results travel hex-encoded inside the value and are read from the Resolved hook event."""
        k = self._next()
        d = self.world / f"b{k}"
        d.mkdir()
        body = "_".join("{{ printf \"%%x\" (printf \"%%#v\" %s) }}" % c.expr(self.paths) for c in cases)
        conf = {"require-template-schema-exists": False, "formatter": "noop", "dir": str(d / "out"), "filename": "out.txt",
                "pkgname": "out", "log-level": "error", "template": "file://" + str(self.cfgroute_tmpl),
                "packages": {f"{self.mod}/src": {"config": {"all": True}}}}
        conf[param] = {"dir": str(d / "out") + "/x", "filename": "x", "pkgname": "x", "template-schema": "x"}[param] + body + "_"
        (d / "cfg.yml").write_text(json.dumps(conf))
        tf = d / "hook.ndjson"
        with self.lock:
            self.runs += 1
        env = dict(self.env, VERIFHOOK_TRACE=str(tf))
        p = subprocess.run([self.bin, "--config", str(d / "cfg.yml")], cwd=self.world, env=env, capture_output=True, timeout=120)
        err = p.stderr.decode("utf8", "replace") + p.stdout.decode("utf8", "replace")
        if vlib.PANIC_RE.search(err) or p.returncode not in (0, 1):
            if len(cases) == 1:
                return {cases[0].i: ("crash", {"exit": p.returncode, "stderr_tail": err[-400:]})}
        val = None
        if tf.exists():
            for ln in tf.read_text().splitlines():
                try:
                    e = json.loads(ln)
                except ValueError:
                    continue
                if e.get("ev") == "Resolved":
                    val = e.get({"template-schema": "schema"}.get(param, param))
        if p.returncode == 0 and val is not None:
            parts = val.split("x", 1)[1].split("_")[:-1] if param != "dir" else val.rsplit("/x", 1)[1].split("_")[:-1]
            if len(parts) != len(cases):
                raise MachineryError(f"context {param}: resolved value does not carry {len(cases)} results: {val[:200]}")
            return {c.i: parse_gosyntax(bytes.fromhex(h)) for c, h in zip(cases, parts)}
        if len(cases) > 1:
            res = {}
            for c in cases:
                res.update(self.eval_context(param, [c]))
            return res
        if "template" in err:
            return {cases[0].i: ("err", err[-300:])}
        raise MachineryError(f"context {param}: run failed without a template error: {err[-500:]}")

    def available_in_config(self, fns):
        """The same map must be registered for every templated config parameter."""
        missing = []
        params = ["dir", "filename", "pkgname", "structname", "template-schema"]
        fns = sorted(fns)
        while True:
            k = self._next()
            d = self.world / f"b{k}"
            d.mkdir()
            conf = {"require-template-schema-exists": False, "formatter": "noop", "log-level": "error",
                    "template": "file://" + str(self.cfgroute_tmpl), "packages": {f"{self.mod}/src": {"config": {"all": True}}}}
            base = {"dir": str(d / "out"), "filename": "out.txt", "pkgname": "out", "structname": "S", "template-schema": "x"}
            for prm in params:
                conf[prm] = base[prm] + "".join("{{ if false }}{{ %s }}{{ end }}" % f for f in fns if (prm, f) not in missing)
            (d / "cfg.yml").write_text(json.dumps(conf))
            r = self._run(d / "cfg.yml")
            if r.code == 0:
                return missing
            text = r.err + r.out
            m = re.search(r'failed to parse ([\w-]+) template: .*?function \\?"(\w+)\\?" not defined', text)
            if r.panicked or not m or (m.group(1), m.group(2)) in missing or m.group(2) not in fns:
                raise MachineryError("config availability probe failed: " + text[-600:])
            missing.append((m.group(1), m.group(2)))

    def eval_all(self, route, cases, batch, workers=8):
        groups = {}
        for c in cases:                                     # one environment per batch
            groups.setdefault(json.dumps(c.env(), sort_keys=True), []).append(c)
        batches = [g[i:i + batch] for g in groups.values() for i in range(0, len(g), batch)]
        # the config route rotates over the templated parameters batch by batch
        params = [self.CFG_PARAMS[k % 3] if route == "config" else "structname" for k in range(len(batches))]
        if route == "config":
            for b, prm in zip(batches, params):
                for c in b:
                    c.sp["cfgparam"] = prm
        res = {}
        with cf.ThreadPoolExecutor(max_workers=workers) as ex:
            for part in ex.map(lambda bp: self.eval_batch(route, bp[0], param=bp[1]), zip(batches, params)):
                res.update(part)
        return res

    def available(self, fns):
        """Documented availability: a template mentioning the function must parse."""
        missing = []
        fns = sorted(fns)
        while True:
            lines = ["{{ if false }}{{ %s }}{{ end }}" % f for f in fns if f not in missing]
            d = self._materialise("template", lines)
            r = self._run(d / "cfg.yml")
            if r.code == 0:
                return missing
            if r.panicked:
                raise MachineryError("availability probe crashed: " + (r.err + r.out)[-600:])
            m = re.search(r'function \\?"(\w+)\\?" not defined', r.err + r.out)
            if not m or m.group(1) in missing or m.group(1) not in fns:
                raise MachineryError("availability probe failed: " + (r.err + r.out)[-600:])
            missing.append(m.group(1))


# ------------------------------------------------------------------------------------ extra (non-enumerated) inputs
INITIALISMS = ["ACL", "API", "ASCII", "CPU", "CSS", "DNS", "EOF", "GUID", "HTML", "HTTP", "HTTPS", "ID", "IP", "JSON",
               "LHS", "QPS", "RAM", "RHS", "RPC", "SLA", "SMTP", "SQL", "SSH", "TCP", "TLS", "TTL", "UDP", "UI", "UID",
               "UUID", "URI", "URL", "UTF8", "VM", "XML", "XMPP", "XSRF", "XSS"]
WIDE = list("abdilrstuxzABDILRSTUXZ") + ["ee", "EE", "zh", "1", "8", "_", " ", "/", ".", "-", "xff", "tab",
                                          "dli", "ls", "tua", "TUA", "ast", "AST", "kel", "dz", "Dz", "DZ", "cm"]


def S(toks):
    return {"t": "s", "v": list(toks)}


def extra_cases(rng, n_random, start):
    """Inputs OUTSIDE TLC's enumeration; only spec/FuncLibTrace.tla decides them (Python holds no expectation)."""
    out = []

    def add(fn, args):
        out.append(Case(start + len(out), fn, args, {"t": "trace"}, "trace", False, origin="extra"))

    # (no golint word list here beyond spelling the inputs: the expected value is computed by TLC)
    for w in INITIALISMS:
        spell = {w.lower(), w, w.capitalize(), w[0].lower() + w[1:], "".join(rng.choice((ch.lower(), ch)) for ch in w)}
        for s in sorted(spell):
            add("exported", [S(list(s))])
        for s in (w.lower() + "s", "x" + w.lower(), w.lower()[:-1], w.lower() + "_", " " + w.lower()):
            add("exported", [S(list(s))])
        add("firstUpper", [S(list(w.lower()))])
    strfns = ["exported", "firstIsLower", "firstUpper", "firstLower", "lower", "upper", "trimSpace",
              "camelcase", "snakecase", "kebabcase"]
    for _ in range(n_random):
        fn = rng.choice(strfns)
        n = rng.randint(3, 7)
        toks = [rng.choice(WIDE) for _ in range(n)]
        if fn in ("camelcase", "snakecase", "kebabcase") and rng.random() < 0.7:
            toks = [t for t in toks if t not in ("xff", "tab")] or ["a"]
        add(fn, [S(toks)])
    for _ in range(n_random // 3):
        fn = rng.choice(["add", "sub", "mul", "div", "mod", "min"])
        k = rng.randint(1, 5)
        lim = 12 if fn == "mul" else 60 if fn == "div" else 1000     # the contract's products must stay within TLC's 32-bit integers
        xs = [rng.randint(-lim, lim) for _ in range(k)]
        if fn == "div":
            xs[0] = rng.randint(-100000, 100000)
        if fn in ("div", "mod"):
            xs = xs[:1] + [x or 7 for x in xs[1:]]      # zero divisors are enumerated by TLC; none here
        add(fn, [{"t": "i", "v": x} for x in xs])
    for _ in range(n_random // 6):
        fn = rng.choice(["trimPrefix", "trimSuffix", "trim", "trimLeft", "trimRight", "contains", "hasPrefix", "hasSuffix",
                         "split", "splitAfter"])
        al = ["a", "b", "ee", "xff", "-"]
        add(fn, [S([rng.choice(al) for _ in range(rng.randint(0, 2))]), S([rng.choice(al) for _ in range(rng.randint(3, 6))])])
    for _ in range(n_random // 10):
        al = ["a", "ee", "-"]
        add("replace", [S([rng.choice(al) for _ in range(rng.randint(0, 2))]), S([rng.choice(["b", "xff"])] * rng.randint(0, 2)),
                        {"t": "i", "v": rng.randint(-2, 4)}, S([rng.choice(al) for _ in range(rng.randint(3, 7))])])
        add("splitAfterN", [S([rng.choice(al) for _ in range(rng.randint(0, 1))]), {"t": "i", "v": rng.randint(-2, 5)},
                            S([rng.choice(al) for _ in range(rng.randint(3, 7))])])
    return out


def totality_cases(start, runner):
    """Adversarial inputs far outside the enumerated domain: judged for totality ONLY (no crash, run terminates)."""
    big = '"' + "aé_B " * 4000 + '"'
    raws = [
        ("add", ["9223372036854775807", "1"]), ("sub", ["-9223372036854775808", "1"]),
        ("mul", ["4294967296", "4294967296"]), ("div", ["-9223372036854775808", "-1"]),
        ("mod", ["-9223372036854775808", "-1"]), ("div", ["0", "0"]), ("mod", ["1", "0", "0"]),
        ("incr", ["9223372036854775807"]), ("decr", ["-9223372036854775808"]), ("min", ["-9223372036854775808", "9223372036854775807"]),
        ("add", ['"a"', "1"]), ("add", []), ("incr", []), ("min", ['"a"']), ("div", ["1.5", "2"]),
        ("ceil", ["1e308"]), ("floor", ["-1e308"]), ("round", ["4.5e15"]), ("round", ['"x"']), ("ceil", ["-0.0"]),
        ("splitAfterN", ['""', "-9223372036854775808", '"ab"']), ("splitAfterN", ['"a"', "9223372036854775807", '"aaa"']),
        ("replace", ['"a"', '"b"', "-9223372036854775808", '"aaa"']), ("replace", ['""', '"xx"', "-1", big]),
        ("split", ['""', big]), ("exported", [big]), ("snakecase", [big]), ("camelcase", [big]), ("kebabcase", [big]),
        ("upper", [big]), ("firstIsLower", [big]), ("trim", [big, big]), ("join", [big, '(split "" "abc")']),
        ("join", ['","', ".Interfaces"]), ("join", ['","', '"notalist"']), ("exported", ["1"]), ("lower", [".PkgName"]),
        ("exported", ['"\\x00"']), ("firstIsLower", ['"\\x00"']), ("firstIsLower", ['"\\xc3"']), ("exported", ['"\\xc3"']),
        ("exported", ['"\\xed\\xa0\\x80"']), ("firstUpper", ['"\\xf4\\x90\\x80\\x80a"']), ("firstLower", ['"\\xc0\\x80"']),
        ("camelcase", ['"\\xff\\xfe_\\xfd"']), ("snakecase", ['"A\\xffB"']), ("kebabcase", ['"\\xe4\\xb8"']),
        ("matchString", ['"("', '"a"']), ("matchString", ['"(a*)*b"', '"' + "a" * 3000 + '"']), ("matchString", ['"\\xff"', '"\\xff"']),
        ("matchString", ['"a{1001}"', '"a"']), ("quoteMeta", ['"\\x00\\xff[.]"']),
        ("readFile", [go_lit(runner.paths["dir"].encode())]), ("readFile", ['"/dev/null"']), ("readFile", ['"\\x00"']),
        ("readFile", [go_lit(runner.paths["missing"].encode())]), ("readFile", ['""']), ("readFile", [go_lit((runner.paths["file"] + "/x").encode())]),
        ("getenv", ['""']), ("getenv", ['"\\x00"']), ("getenv", ['"="']), ("expandEnv", ['"${"']), ("expandEnv", ['"$"']),
        ("expandEnv", ['"${}"']), ("expandEnv", ['"${V"']), ("expandEnv", ['"$\\xff${\\xff}"']), ("expandEnv", [big]),
        ("base", ['"\\x00"']), ("dir", [big]), ("clean", ['"' + "../" * 2000 + '"']), ("randInt", []), ("randInt", ["1"]),
        ("contains", ['""', '""']), ("hasPrefix", [big, '""']), ("trimSpace", ['"\\xc2\\x85\\xe2\\x80\\x83a\\xc2\\xa0"']),
    ]
    return [Case(start + k, fn, [{"t": "raw", "v": a} for a in args], {"t": "total"}, "total", False, origin="totality")
            for k, (fn, args) in enumerate(raws)]


# ------------------------------------------------------------------------------------ the check
def load_cases(r):
    seen = {}
    for rec in r.prints("CASE"):
        c = Case(len(seen), rec["fn"], rec["args"], rec["expect"], rec["oracle"], rec["rot"], rec.get("subj", 0))
        if c.expect["t"] == "fold64":
            c.oracle = "fold64"
        k = c.key()
        if k not in seen:
            seen[k] = c
    cases = sorted(seen.values(), key=lambda c: c.key())
    for i, c in enumerate(cases):
        c.i = i
    return cases


def run_namesakes(ctx, drv, cases, env):
    """The Go stdlib namesake for every case whose oracle involves the stdlib."""
    want_all = [c for c in cases if c.oracle in ("spec+std", "std", "fold64")]
    groups = {}
    for c in want_all:
        groups.setdefault(json.dumps(c.env(), sort_keys=True), []).append(c)
    n = 0
    for gi, want in enumerate(groups.values()):
        e = env if want[0].env() is None else dict({k: v for k, v in env.items() if len(k) != 1}, **want[0].env())
        n += _namesakes_one(ctx, drv, want, e, gi)
    return n


def _namesakes_one(ctx, drv, want, env, gi):
    inp = []
    for c in want:
        args = []
        for a in c.args:
            if a["t"] == "env":
                continue
            if a["t"] == "n":
                args.append({"t": "n", "n": a["v"]})
                continue
            if a["t"] == "s":
                args.append({"t": "s", "s": toks_to_bytes(a["v"]).hex()})
            elif a["t"] in ("i", "q"):
                args.append({"t": a["t"], "i": a["v"]})
            elif a["t"] == "l":
                args.append({"t": "l", "l": [toks_to_bytes(x).hex() for x in a["v"]]})
            else:
                raise MachineryError(f"no stdlib form for argument type {a['t']} of {c.fn}")
        inp.append({"id": c.i, "fn": c.fn, "args": args, "rot": bool(c.rot)})
    d = ctx.scratch / f"c16-std{gi}"
    d.mkdir(exist_ok=True)
    (d / "in.json").write_text(json.dumps(inp))
    p = subprocess.run([str(drv), "namesake", str(d / "in.json"), str(d / "out.json")], capture_output=True, text=True,
                       timeout=600, env=env)
    if p.returncode != 0:
        raise MachineryError("funclib driver died: " + p.stderr[-500:])
    by = {r["id"]: r for r in json.loads((d / "out.json").read_text())}
    for c in want:
        c.std = canon_std(by[c.i])
        if c.std[0] == "none":
            raise MachineryError(f"funclib driver has no stdlib namesake for {c.fn} (oracle {c.oracle})")
    return len(want)


_TLC_N = [0]
_TLC_LOCK = threading.Lock()


def validate_private(ctx, events, timeout=900):
    """ctx.validate_trace without ctx's shared counters, so that several JVMs can validate chunks of the op log
    at the same time (ctx.tlc numbers its scratch directories without a lock).  Same flags as vlib."""
    import shutil
    with _TLC_LOCK:
        _TLC_N[0] += 1
        d = ctx.scratch / f"c16-trace-{_TLC_N[0]}"
    d.mkdir()
    for f in ("FuncLib.tla", "FuncLibTrace.tla"):
        shutil.copy(vlib.SPEC / f, d / f)
    shutil.copy(vlib.SPEC / "cfg" / "FuncLibTrace.cfg", d / "FuncLibTrace.cfg")
    (d / "trace.ndjson").write_text("".join(json.dumps(e, sort_keys=True) + "\n" for e in events))
    env = dict(os.environ)
    env["JAVA_TOOL_OPTIONS"] = (env.get("JAVA_TOOL_OPTIONS", "") + " -Xss64m -Dtlc2.tool.queue.IStateQueue=StateDeque").strip()
    cmd = ["tlc", "-workers", "1", "-metadir", str(d / "meta"), "-config", "FuncLibTrace.cfg", "-deadlock", "FuncLibTrace.tla"]
    t = time.time()
    try:
        p = subprocess.run(cmd, cwd=d, env=env, capture_output=True, text=True, timeout=timeout, errors="replace")
    except subprocess.TimeoutExpired:
        subprocess.run(["pkill", "-f", str(d / "meta")], capture_output=True)
        raise MachineryError(f"TLC timed out after {timeout}s validating {len(events)} events")
    r = vlib.TLCResult("FuncLibTrace", "FuncLibTrace.cfg", p.returncode, p.stdout + p.stderr, time.time() - t, d)
    if r.crashed:
        raise MachineryError("trace validation crashed on FuncLibTrace:\n" + r.tail())
    return r.ok, r


def tlc_private(ctx, module, cfg, timeout=300):
    """A model-checking run outside ctx.tlc's counters (for the two small negated-witness runs, which then run
    next to the main enumeration instead of queueing behind it).  Its states are not added to the evidence."""
    import shutil
    with _TLC_LOCK:
        _TLC_N[0] += 1
        d = ctx.scratch / f"c16-mc-{_TLC_N[0]}"
    d.mkdir()
    for f in vlib.SPEC.glob("FuncLib*.tla"):
        shutil.copy(f, d / f.name)
    shutil.copy(vlib.SPEC / "cfg" / cfg, d / cfg)
    cmd = ["tlc", "-workers", "1", "-metadir", str(d / "meta"), "-config", cfg, "-deadlock", module + ".tla"]
    t = time.time()
    try:
        p = subprocess.run(cmd, cwd=d, capture_output=True, text=True, timeout=timeout, errors="replace")
    except subprocess.TimeoutExpired:
        subprocess.run(["pkill", "-f", str(d / "meta")], capture_output=True)
        raise MachineryError(f"TLC timed out after {timeout}s on {module}/{cfg}")
    return vlib.TLCResult(module, cfg, p.returncode, p.stdout + p.stderr, time.time() - t, d)


class TLCQueue:
    """All TLC runs go through one thread (ctx.tlc numbers its scratch dirs without a lock)."""

    def __init__(self):
        self.ex = cf.ThreadPoolExecutor(max_workers=1)

    def submit(self, fn, *a, **kw):
        return self.ex.submit(fn, *a, **kw)


VIOL_CAP = 4


def judge(c, got):
    """Direct comparison of one real reply with the exported expectation.  None = accepted here
    (oracle trace/shape: TLC decides through FuncLibTrace.tla; total/undef: not crashing is all)."""
    if got[0] == "crash":
        return ("crash", None)
    if c.oracle in ("total", "trace", "shape"):
        if c.oracle == "shape" and got[0] == "err":
            return ("error-where-value", ("value",))
        return None
    want = c.std if c.oracle in ("std", "fold64") else canon_expect(c.expect)
    if want[0] == "undef":
        return None
    if want[0] == "err":
        return None if got[0] == "err" else ("value-where-error", want)
    if got[0] == "err":
        return ("error-where-value", want)
    if want[0] == "oneof":
        return None if got[0] == "s" and got[1] in want[1] else ("wrong-value", want)
    if not same(got, want):
        return ("wrong-value", want)
    return None


def replay(ctx):
    """bin/check C16 quick --replay <file>: re-run exactly the recorded application(s) against the working tree."""
    d = json.loads(Path(ctx.replay).read_text())
    sig, det = d["sig"], d["detail"]
    runner = Runner(ctx, {"V": "vé"})
    for k in list(runner.env):
        if k != "V" and set(k) <= set("Vaé${}"):
            del runner.env[k]
    if sig["kind"] == "missing-function":
        if runner.available({sig["fn"]}):
            ctx.violation(sig, det)
        ctx.cov["evaluations"] = 1
        ctx.sample({"replayed": sig})
        return {"level": "model_checking", "exhaustive": False}
    cd = det["case"]
    c = Case(0, cd["fn"], cd["args"], cd["expect"], cd["oracle"], cd["rot"])
    if c.oracle in ("std", "spec+std"):
        run_namesakes(ctx, ctx.build_driver("funclib"), [c], runner.env)
    for route in ("template", "config"):
        got = runner.eval_batch(route, [c]).get(0)
        c.real[route] = got
        v = judge(c, got)
        if v is None and c.oracle in ("trace", "shape", "spec", "spec+std") and got[0] not in ("crash",) \
                and all(a["t"] in ("s", "i", "l") for a in c.args):
            ok, tr = validate_private(ctx, [{"fn": c.fn, "args": c.args, "reply": reply_event(got), "route": route}])
            ctx.cov["traces_validated_against_impl"] += 1
            if not ok:
                v = ("contract-rejects-reply", None)
        if v:
            ctx.violation({"kind": v[0], "fn": c.fn, "route": route, "input": input_class(c)},
                          dict(det, observed=show(got), expected=show(v[1]) if v[1] else None))
    ctx.cov["evaluations"] = 2
    ctx.sample({"replayed": c.expr(None), "real": {k: show(v) for k, v in c.real.items()}})
    return {"level": "model_checking", "exhaustive": False}


def dbg(ctx, msg):
    if os.environ.get("VERIF_DEBUG"):
        print("[c16 %.1fs] %s" % (time.time() - ctx.t0, msg), file=sys.stderr)


def run(ctx):
    if getattr(ctx, "replay", None):
        return replay(ctx)
    thorough = ctx.thorough()
    tq = TLCQueue()
    # ---------------------------------------------------------------- 1. TLC: enumerate, Impl => Contract, export
    cfg = "FuncLib_thorough.cfg" if thorough else "FuncLib_quick.cfg"
    f_main = tq.submit(ctx.tlc, "FuncLibMC", cfg, workers=1, timeout=1500, coverage=False)
    f_hist = tq.submit(ctx.tlc, "FuncLibHist", "FuncLibHist_thorough.cfg" if thorough else "FuncLibHist_quick.cfg",
                       workers=1, timeout=600)
    wpool = cf.ThreadPoolExecutor(max_workers=2)
    f_wit = wpool.submit(tlc_private, ctx, "FuncLibMC", "FuncLib_witness.cfg")
    f_wit2 = wpool.submit(tlc_private, ctx, "FuncLibMC", "FuncLib_witness2.cfg")

    # builds meanwhile (main thread)
    drv = ctx.build_driver("funclib")
    runner = Runner(ctx, {"V": "vé"})
    for k in list(runner.env):       # every other name spellable over the expandEnv alphabet must be unset
        if k != "V" and set(k) <= set("Vaé${}"):
            del runner.env[k]

    dbg(ctx, "builds done")
    r = f_main.result()
    if r.violated:
        raise MachineryError(f"model-level: {r.violated} violated on FuncLib (the code-shaped layer disagrees with the "
                             f"contract inside the specification; fix the spec before trusting it):\n" + r.tail())
    if not r.ok:
        raise MachineryError("TLC failed on FuncLib:\n" + r.tail())
    cases = load_cases(r)
    rh = f_hist.result()
    if rh.violated:
        raise MachineryError(f"model-level: {rh.violated} violated on FuncLibHist:\n" + rh.tail())
    if not rh.ok:
        raise MachineryError("TLC failed on FuncLibHist:\n" + rh.tail())
    hists = []
    hid = 10_000_000
    for rec in rh.prints("HIST"):
        steps = []
        for st in rec["steps"]:
            steps.append(Case(hid, st["fn"], st["args"], st["expect"], st["oracle"], st["rot"], origin="hist"))
            hid += 1
        hists.append(steps)
    if len(hists) < 1000 or not any(len(h) == 3 for h in hists) == thorough:
        raise MachineryError(f"history model exported {len(hists)} histories (interleaved ones: {any(len(h) == 3 for h in hists)})")
    if not any(h[0].fn == "matchString" and h[0].args[0]["v"] == [] for h in hists) or \
            not any(h[0].key() == h[1].key() for h in hists) or not any(h[0].args != h[1].args and h[0].args[:1] == h[1].args[:1] and len(h[0].args) == 2 for h in hists):
        raise MachineryError("vacuous: histories lack a first-call-with-empty-pattern / repeated / same-first-argument pair")
    w = f_wit.result()
    if w.violated != "ImplMatchesContract":
        raise MachineryError("negated witness: the pre-d879be0 code shape (ExportedImpl = \"byte\") was NOT rejected by "
                             "ImplMatchesContract -- the invariant is vacuous:\n" + w.tail())

    dbg(ctx, "tlc done")
    w2 = f_wit2.result()
    if w2.violated != "ImplMatchesContract":
        raise MachineryError("negated witness 2: a code shape that skips len(upper-case rune) bytes (ExportedImpl = \"upsize\") was NOT "
                             "rejected -- the alphabet has no letter whose case mapping changes its UTF-8 length:\n" + w2.tail())
    # vacuity guards on the exported cases
    documented = {c.fn for c in cases}
    if len(documented) != 44:
        raise MachineryError(f"the exported cases cover {len(documented)} functions, the documented table has 44")
    if len(cases) < (100000 if thorough else 10000):
        raise MachineryError(f"too few cases exported ({len(cases)})")

    def has(pred):
        return any(pred(c) for c in cases)
    guards = {
        "exported of a multi-byte first letter": lambda c: c.fn == "exported" and c.args[0]["v"][:1] == ["ee"] and c.expect["v"][:1] == ["EE"],
        "exported of an initialism (id -> ID)": lambda c: c.fn == "exported" and c.args[0]["v"] == ["i", "d"] and c.expect["v"] == ["I", "D"],
        "exported of an initialism (url -> URL)": lambda c: c.fn == "exported" and c.args[0]["v"] == ["u", "r", "l"] and c.expect["v"] == ["U", "R", "L"],
        "exported of a letter that shrinks when upper-cased (dotless i)": lambda c: c.fn == "exported" and c.args[0]["v"] == ["dli", "a"] and c.expect["v"] == ["I", "a"],
        "exported of a letter that grows when upper-cased": lambda c: c.fn == "exported" and c.args[0]["v"] == ["tua", "a"] and c.expect["v"] == ["TUA", "a"],
        "exported of a 3-byte letter with a 2-byte upper case": lambda c: c.fn == "exported" and c.args[0]["v"][:1] == ["ast"] and c.expect["v"][:1] == ["AST"],
        "firstLower of the Kelvin sign": lambda c: c.fn == "firstLower" and c.args[0]["v"] == ["kel", "a"] and c.expect["v"] == ["k", "a"],
        "lower of the Kelvin sign": lambda c: c.fn == "lower" and c.args[0]["v"] == ["kel"] and c.expect["v"] == ["k"],
        "upper of dotless i": lambda c: c.fn == "upper" and c.args[0]["v"] == ["dli"] and c.expect["v"] == ["I"],
        "firstIsLower of dotless i": lambda c: c.fn == "firstIsLower" and c.args[0]["v"][:1] == ["dli"] and c.expect["v"] is True,
        "exported of the empty string": lambda c: c.fn == "exported" and c.args[0]["v"] == [],
        "exported of an invalid first byte": lambda c: c.fn == "exported" and c.args[0]["v"][:1] == ["xff"],
        "firstIsLower of the empty string": lambda c: c.fn == "firstIsLower" and c.args[0]["v"] == [] and c.expect["v"] is False,
        "firstIsLower true for a multi-byte lower-case letter": lambda c: c.fn == "firstIsLower" and c.args[0]["v"][:1] == ["ee"] and c.expect["v"] is True,
        "firstIsLower false for digit": lambda c: c.fn == "firstIsLower" and c.args[0]["v"][:1] == ["1"] and c.expect["v"] is False,
        "firstIsLower false for underscore": lambda c: c.fn == "firstIsLower" and c.args[0]["v"][:1] == ["_"] and c.expect["v"] is False,
        "firstIsLower false for an uncased letter": lambda c: c.fn == "firstIsLower" and c.args[0]["v"][:1] == ["zh"] and c.expect["v"] is False,
        "zero divisor undefined": lambda c: c.fn in ("div", "mod") and c.expect["t"] == "undef",
        "negative division": lambda c: c.fn == "div" and c.expect.get("v") == -1 and c.args[0]["v"] == -3 and len(c.args) == 2 and c.args[1]["v"] == 2,
        "negative remainder": lambda c: c.fn == "mod" and c.expect.get("v") == -1 and c.args[0]["v"] == -3 and len(c.args) == 2 and c.args[1]["v"] == 2,
        "min not first": lambda c: c.fn == "min" and len(c.args) == 3 and c.expect.get("v") != c.args[0]["v"],
        "min of nothing": lambda c: c.fn == "min" and not c.args and c.expect["t"] == "undef",
        "asymmetric trimPrefix": lambda c: c.fn == "trimPrefix" and c.args[0]["v"] == ["ee"] and c.args[1]["v"] == ["ee", "a"] and c.expect["v"] == ["a"],
        "splitAfterN n=2 with 3 pieces available": lambda c: c.fn == "splitAfterN" and c.args[1]["v"] == 2 and len(c.expect["v"]) == 2 and c.args[0]["v"] == ["a"] and c.args[2]["v"] == ["a", "a", "a"],
        "splitAfterN n=0": lambda c: c.fn == "splitAfterN" and c.args[1]["v"] == 0 and c.expect["v"] == [],
        "replace n=-1 replaces several": lambda c: c.fn == "replace" and c.args[2]["v"] == -1 and c.args[0]["v"] == ["a"] and c.args[3]["v"] == ["a", "a", "a"] and c.args[1]["v"] == ["b"] and c.expect["v"] == ["b", "b", "b"],
        "replace n=1 replaces one": lambda c: c.fn == "replace" and c.args[2]["v"] == 1 and c.args[0]["v"] == ["a"] and c.args[3]["v"] == ["a", "a", "a"] and c.args[1]["v"] == ["b"] and c.expect["v"] == ["b", "a", "a"],
        "upper of an invalid byte": lambda c: c.fn == "upper" and c.args[0]["v"] == ["xff"] and c.expect["v"] == ["fffd"],
        "round half away from zero": lambda c: c.fn == "round" and c.args[0]["v"] == -10 and c.expect["v"] == -3,
        "large operands whose left fold is exact but whose divisor product overflows": lambda c: c.fn == "div" and [a["v"] for a in c.args] == ["9000000000000000000", "4000000000", "4000000000"],
        "divisor product wrapping to zero": lambda c: c.fn == "div" and [a["v"] for a in c.args] == ["1000", "4294967296", "4294967296"],
        "expandEnv of a self-referential variable": lambda c: c.fn == "expandEnv" and c.args[0]["v"] == ["$", "A"] and len(c.args) == 2,
        "expandEnv of a variable whose value holds $$": lambda c: c.fn == "expandEnv" and c.args[0]["v"] == ["$", "V"] and len(c.args) == 2,
        "expandEnv through a 2-cycle": lambda c: c.fn == "expandEnv" and c.args[0]["v"] == ["$", "B"] and len(c.args) == 2,
        "readFile error": lambda c: c.fn == "readFile" and c.expect["t"] == "err",
        "readFile of the empty path": lambda c: c.fn == "readFile" and c.args[0]["v"] == "" and c.expect["t"] == "s",
    }
    for name, g in guards.items():
        if not has(g):
            raise MachineryError(f"vacuous: no exported case with {name}")
    for c in cases:
        if c.subj not in (0, len([a for a in c.args if a["t"] != "env"])) and c.fn not in ("add", "sub", "mul", "div", "mod", "min"):
            raise MachineryError(f"function table: subject of {c.fn} is not its last argument")

    # ---------------------------------------------------------------- 2. the stdlib oracle; spec-vs-stdlib is exit 2
    dbg(ctx, "guards done")
    n_std = run_namesakes(ctx, drv, cases + [c for h in hists for c in h], runner.env)
    spec_bugs = [c for c in cases if c.oracle == "spec+std" and not same(canon_expect(c.expect), c.std)]
    if spec_bugs:
        c = spec_bugs[0]
        raise MachineryError(f"SPEC BUG (not a verdict): FuncLib.tla disagrees with the Go stdlib namesake on {len(spec_bugs)} "
                             f"tuple(s), e.g. {c.expr(None)}: TLA+ {show(canon_expect(c.expect))} stdlib {show(c.std)}")
    keys = json.loads(subprocess.run([str(drv), "keys"], capture_output=True, text=True, timeout=60).stdout or "[]")
    extra_keys = sorted(set(keys) - documented)
    if extra_keys:
        ctx.note("functions in template_funcs.FuncMap that the documented table of FuncLib.tla does not list "
                 f"(not exercised): {extra_keys}")

    # ---------------------------------------------------------------- 3. documented availability
    dbg(ctx, "namesakes done")
    missing = runner.available(documented)
    for f in missing:
        ctx.violation({"kind": "missing-function", "fn": f, "route": "template"},
                      {"what": f"documented template function {f!r} is not defined: a template using it does not parse",
                       "map_keys": keys})
    if set(missing) != documented - set(keys) and keys:
        ctx.note(f"availability probe {missing} vs FuncMap keys {sorted(documented - set(keys))}")
    live_cases = [c for c in cases if c.fn not in missing]
    # the same map in every context where the library is offered: each templated config parameter
    missing_cfg = runner.available_in_config(documented - set(missing))
    for prm, f in missing_cfg:
        ctx.violation({"kind": "missing-function", "fn": f, "route": "config:" + prm},
                      {"what": f"documented template function {f!r} is not defined inside the templated config parameter {prm!r}"})

    # ---------------------------------------------------------------- 4. replay through the binary
    dbg(ctx, "availability done")
    def risky(c):
        return c.expect["t"] in ("undef", "err") or (c.oracle == "std" and c.std[0] == "err")
    safe = [c for c in live_cases if not risky(c)]
    risk = [c for c in live_cases if risky(c)]
    nxt = len(cases)
    extras = extra_cases(ctx.rng, 3000 if thorough else 600, nxt)
    nxt = max(c.i for c in extras) + 10          # ids stay unique whatever is filtered out below
    extras = [c for c in extras if c.fn not in missing]
    totals = [c for c in totality_cases(nxt, runner) if c.fn not in missing]
    ctx.rng.shuffle(safe)      # batches mix functions; order is seed-dependent, verdict is not
    bsz = 1000 if thorough else 400
    # spelling dimension: the same abstract application written as call, pipeline, with typed values, via a variable
    for c in safe + extras:
        if c.args:
            c.sp["template"] = ctx.rng.choices(("lit", "pipe", "typed", "var"), (55, 15, 15, 15))[0]
            c.sp["config"] = ctx.rng.choices(("lit", "pipe", "typed", "var"), (40, 20, 20, 20))[0]
    t0 = time.time()
    # composition: f(f(x)) for the case converters (judged by ShapeOK through the op log)
    twins = {}
    tid = 20_000_000
    for c in safe + extras:
        if c.fn in ("camelcase", "snakecase", "kebabcase") and c.args[0]["t"] == "s":
            tid += 1
            twins[c.i] = Case(tid, c.fn, [{"t": "raw", "v": "(%s %s)" % (c.fn, go_lit(c.args[0]["v"]))}], {"t": "total"}, "total", False,
                              origin="twice")
    realA = runner.eval_all("template", safe + extras + list(twins.values()), bsz)
    if not thorough and len(risk) > 160:   # quick: seeded sample of the one-run-per-application cases
        keep = [c for c in risk if c.fn not in ("div", "mod", "matchString")]
        rest = [c for c in risk if c.fn in ("div", "mod", "matchString")]
        ctx.rng.shuffle(rest)
        risk_run = keep + rest[:160 - len(keep)]
    else:
        risk_run = risk
    realA.update(runner.eval_all("template", risk_run + totals, 1))
    # route B: templated config value.  Outputs are re-parsed as templates by the fixpoint loop, so
    # applications whose arguments contain a brace are left to route A.
    def cfg_ok(c):
        return not any(a["t"] == "s" and ("{" in a["v"] or "}" in a["v"]) for a in c.args) and c.fn != "readFile"
    candB = [c for c in safe + extras if cfg_ok(c)]
    if not thorough:
        candB = candB[:: 3]
    ctx.rng.shuffle(candB)         # every parameter of the rotation sees every kind of application
    realB = runner.eval_all("config", candB, bsz)
    riskB = [c for c in risk_run if cfg_ok(c)][:: (1 if thorough else 4)]
    realB.update(runner.eval_all("config", riskB, 1))
    # histories: one fresh process each
    # histories.  A fresh process per FIRST application (its histories follow one another in that process:
    # a,b1,a,b2,...: each enumerated history is a contiguous sub-history, only the first call is truly the
    # first of the process); quick draws the first applications that get their own process, the histories of
    # the others share a few processes (adjacency kept).  Pure is history-independent, so longer histories
    # than TLC enumerated are judged by the same expected values.
    live_h = [h for h in hists if not any(c.fn in missing for c in h)]
    by_first = {}
    for h in live_h:
        by_first.setdefault(h[0].key(), []).append(h)
    firsts = sorted(by_first)
    ctx.rng.shuffle(firsts)
    n_fresh = len(firsts)      # every pool application is the first call of some process (quick too: ~300 short runs)
    groups = [[c for h in by_first[k] for c in h] for k in firsts[:n_fresh]]
    rest = [h for k in firsts[n_fresh:] for h in by_first[k]]
    groups += [[c for h in rest[k:k + 60] for c in h] for k in range(0, len(rest), 60)]

    def run_group(steps):
        out = {}
        todo = list(steps)
        while todo:
            res = runner.eval_history(todo)
            bad = [k for (k, w), v in res.items() if v[0] in ("err", "crash")]
            for (k, w), v in res.items():
                out[(todo[k].i, w)] = v
            if not bad:
                break
            todo = todo[bad[0] + 1:]          # what followed the failing step gets a process of its own
        return out
    hres = {}
    with cf.ThreadPoolExecutor(max_workers=8) as ex:
        for part in ex.map(run_group, groups):
            hres.update(part)
    # contexts: a sample inside each of the other templated config parameters
    small = [c for c in safe if cfg_ok(c) and sum(len(a["v"]) if a["t"] in ("s", "l") else 1 for a in c.args) <= 3
             and c.expect["t"] in ("s", "b", "i")]
    ctx_real = {}
    n_ctx = 4 if thorough else 1           # applications per function and parameter
    by_fn_small = {}
    for c in small:
        by_fn_small.setdefault(c.fn, []).append(c)
    jobs = []
    for prm in ("dir", "filename"):        # (structname, pkgname, template-schema share route "config")
        pick = [c for f in sorted(by_fn_small) for c in ctx.rng.sample(by_fn_small[f], min(n_ctx, len(by_fn_small[f])))]
        jobs += [(prm, pick[k:k + 4]) for k in range(0, len(pick), 4)]
    with cf.ThreadPoolExecutor(max_workers=8) as ex:
        for (prm, part), got in zip(jobs, ex.map(lambda j: runner.eval_context(*j), jobs)):
            for c in part:
                ctx_real[(prm, c.i)] = (c, got[c.i])
    t_replay = time.time() - t0

    dbg(ctx, "replay done")
    per_fn_viol = {}

    def violate(c, route, kind, got, want, more=None):
        k = (c.fn, kind)
        per_fn_viol[k] = per_fn_viol.get(k, 0) + 1
        if per_fn_viol[k] > VIOL_CAP:
            return
        if route == "config":
            route = "config:" + c.sp.get("cfgparam", "structname")
        ctx.violation({"kind": kind, "fn": c.fn, "route": route, "input": input_class(c)},
                      {"application": c.expr(None), "case": {"fn": c.fn, "args": c.args, "expect": c.expect, "oracle": c.oracle, "rot": c.rot},
                       "observed": show(got), "expected": show(want) if want else None, **(more or {}),
                       "oracle": {"spec": "spec/FuncLib.tla Expect", "spec+std": "spec/FuncLib.tla Expect (= Go stdlib namesake, cross-checked)",
                                  "std": "Go stdlib namesake (drivers/funclib)", "shape": "totality", "total": "totality",
                                  "trace": "spec/FuncLibTrace.tla"}.get(c.oracle, c.oracle)})

    n_eval = 0
    n_err_values = 0
    undecided = 0
    for route, real in (("template", realA), ("config", realB)):
        for c in live_cases + extras + totals:
            if c.i not in real:
                continue
            got = real[c.i]
            c.real[route] = got
            n_eval += 1
            if got[0] == "undecided":
                undecided += 1
                continue
            if got[0] == "err":
                n_err_values += 1
            v = judge(c, got)
            if v:
                violate(c, route, v[0], got, v[1])
    for (prm, _), (c, got) in ctx_real.items():
        n_eval += 1
        v = judge(c, got)
        if v:
            violate(c, "config:" + prm, v[0], got, v[1])
    n_hist_steps = 0
    for steps in live_h:
        hist_txt = [c.expr(None) for c in steps]
        for k, c in enumerate(steps):
            now, end = hres.get((c.i, "now")), hres.get((c.i, "end"))
            if now is None:
                continue
            n_hist_steps += 1
            n_eval += 1
            c.real["template"] = now
            v = judge(c, now)
            more = {"history_in_one_process": hist_txt, "position": k}
            if v:
                violate(c, "template", v[0], now, v[1], dict(more, history=True))
            elif end is not None and not same(end, now):
                violate(c, "template", "reply-changed-after-later-call", end, now, more)
    if undecided:
        ctx.note(f"{undecided} application(s) left undecided after {40} errors in one batch")
        if not ctx.violations and not ctx.known_hits:
            raise MachineryError(f"{undecided} applications undecided but no violation recorded")
    ctx.cov["evaluations"] += n_eval

    # ---------------------------------------------------------------- 5. op log -> TLC (FuncLibTrace.tla)
    dbg(ctx, "compare done")
    own = [c for c in live_cases if c.oracle in ("spec", "spec+std") and c.fn != "readFile"]
    ctx.rng.shuffle(own)
    logged = [c for c in live_cases if c.oracle == "shape"] + extras + own[: (6000 if thorough else 600)] \
        + [c for h in live_h for c in h if c.oracle == "shape" and "template" in c.real]
    events, ev_case = [], []
    for c in logged:
        for route in ("template", "config"):
            got = c.real.get(route)
            if got is None or got[0] in ("crash", "undecided"):
                continue
            if any(a["t"] not in ("s", "i", "l") for a in c.args):
                continue
            ev = {"fn": c.fn, "args": c.args, "reply": reply_event(got), "route": route}
            tw = twins.get(c.i)
            if route == "template" and tw is not None and realA.get(tw.i, ("x",))[0] == "s" and ev["reply"]["t"] == "s":
                ev["reply"]["again"] = bytes_to_toks(realA[tw.i][1])
            events.append(ev)
            ev_case.append(c)
    chunk = 2500
    pool = cf.ThreadPoolExecutor(max_workers=4)
    futs = []
    for k in range(0, len(events), chunk):
        futs.append((k, pool.submit(validate_private, ctx, events[k:k + chunk])))
    # self-test of the binding: a corrupted reply must be rejected exactly there
    # (the window holds only events whose reply already matched the exported TLA+ value, so that a genuine
    #  violation elsewhere in the log cannot disturb the self-test)
    def matched(i):
        c, e = ev_case[i], events[i]
        return (c.origin == "tlc" and c.oracle in ("spec", "spec+std") and c.expect["t"] in ("s", "b", "i", "l")
                and same(c.real[e["route"]], canon_expect(c.expect)))
    good = [i for i in range(len(events)) if matched(i)]
    strs = [i for i in good if events[i]["reply"]["t"] == "s" and events[i]["reply"]["v"]]
    if len(good) < 30 or not strs:
        raise MachineryError("too few matched events to build the trace self-test")
    g = strs[len(strs) // 2]
    before = [i for i in good if i < g][-25:]
    after = [i for i in good if i > g][:2]
    at = len(before)
    bad = [dict(events[i]) for i in before + [g] + after]
    bad[at] = dict(bad[at], reply={"t": "s", "v": bad[at]["reply"]["v"][:-1] + ["x"]})
    f_bad = pool.submit(validate_private, ctx, bad, 300)
    dbg(ctx, "trace submitted")
    n_validated = 0
    trace_rejects = 0
    for k, f in futs:
        evs = events[k:k + chunk]
        base = k
        ok, tr = f.result()
        while not ok:
            if tr.consumed is None:
                raise MachineryError("trace validation gave no CONSUMED line:\n" + tr.tail())
            j = tr.consumed[0]
            c = ev_case[base + j]
            trace_rejects += 1
            n_validated += j
            violate(c, evs[j]["route"], "contract-rejects-reply", c.real[evs[j]["route"]], None,
                    {"rejected_event": evs[j], "trace_spec": "spec/FuncLibTrace.tla"})
            evs = evs[j + 1:]
            base += j + 1
            if not evs or trace_rejects >= 12:
                break
            ok, tr = validate_private(ctx, evs)
        if ok:
            n_validated += len(evs)
    okb, trb = f_bad.result()
    if okb or trb.consumed is None or trb.consumed[0] != at:
        raise MachineryError(f"trace self-test: a corrupted reply at event {at} was not rejected there "
                             f"(accepted={okb}, consumed={trb.consumed})")
    ctx.cov["traces_validated_against_impl"] += n_validated

    dbg(ctx, "trace done")
    # ---------------------------------------------------------------- evidence
    def sample_of(pred):
        for c in live_cases:
            if pred(c) and "template" in c.real:
                return {"application": c.expr(None), "spec_value": show(canon_expect(c.expect)) if c.expect["t"] in "slbi" else c.expect,
                        "stdlib_namesake": show(c.std), "real_template_route": show(c.real.get("template")),
                        "real_config_route": show(c.real.get("config"))}
    for pred in (lambda c: c.fn == "exported" and c.args[0]["v"] == ["ee", "a"],
                 lambda c: c.fn == "trimPrefix" and c.args[0]["v"] == ["ee"] and c.args[1]["v"] == ["ee", "a"],
                 lambda c: c.fn == "div" and [a["v"] for a in c.args] == [-3, 2],
                 lambda c: c.fn == "mod" and c.expect["t"] == "undef" and "template" in c.real,
                 lambda c: c.fn == "splitAfterN" and c.args[1]["v"] == 2 and c.args[2]["v"] == ["a", "xff", "a"] and c.args[0]["v"] == [],
                 lambda c: c.fn == "snakecase" and c.args[0]["v"] == ["a", "B"]):
        s = sample_of(pred)
        if s:
            ctx.sample(s)
    ctx.cov["distinct_nontrivial"] = sum(1 for c in live_cases if c.args and any(a["v"] not in ([], 0, "") for a in c.args))
    ctx.cov["rule"] = ("every argument tuple TLC enumerated from FuncLibMC!CaseChoice, evaluated through the real binary; "
                       "non-trivial = at least one non-empty / non-zero argument")
    by_fn = {}
    for c in live_cases:
        if c.real:
            by_fn[c.fn] = by_fn.get(c.fn, 0) + 1
    unexercised = sorted(documented - set(by_fn) - set(missing))
    if unexercised:
        raise MachineryError(f"documented functions never evaluated: {unexercised}")
    ctx.cov.update({
        "cases_exported_by_tlc": len(cases), "functions": len(documented), "applications_per_function": by_fn,
        "stdlib_namesakes_computed": n_std, "tla_vs_stdlib_disagreements": 0,
        "evaluated_template_route": len(realA), "evaluated_config_route": len(realB),
        "one_per_run_applications": len(risk_run) + len(totals), "one_per_run_skipped_in_quick": len(risk) - len(risk_run),
        "histories_exported_by_tlc": len(live_h), "history_processes": len(groups), "first_applications_with_own_process": min(n_fresh, len(firsts)), "history_steps_judged": n_hist_steps,
        "config_parameter_contexts": {"availability": "44 functions x dir/filename/pkgname/structname/template-schema",
                                      "route_config_rotates_over": list(Runner.CFG_PARAMS),
                                      "dir_and_filename_applications_per_function": n_ctx},
        "spellings": "call / pipeline / typed values / template variable, drawn per application and route",
        "error_values_observed": n_err_values, "non_enumerated_inputs_judged_by_trace_spec": len(extras),
        "totality_only_adversarial_inputs": len(totals), "trace_events": len(events), "trace_rejections": trace_rejects,
        "trace_selftest": f"corrupted reply at event {at} rejected there", "mockery_runs": runner.runs, "reruns_after_error_value": runner.reruns,
        "negated_witness": "ExportedImpl=byte violates ImplMatchesContract (D15 visible to the model)",
        "replay_wall_s": round(t_replay, 1)})
    ctx.assumptions += [
        "small scope: strings over the abstract rune alphabet of FuncLib.tla up to the lengths in FuncLibMC.tla, ints in a small interval, "
        "<= 3 variadic arguments; longer inputs only through the seeded random part of the op log",
        "the documented function map is funcmap.go's FuncMap as read on the pinned tree (44 names, FuncLib!Table); docs/template/index.md "
        "and docs/configuration.md only link to it",
        "string wrappers, lower/upper, trimSpace, ceil/floor/round: the TLA+ definition is first confirmed equal to the Go stdlib "
        "namesake on every tuple (else exit 2), then used as the oracle; base/clean/dir/quoteMeta/matchString/expandEnv/getenv: the "
        "stdlib alone is the oracle -- the specification contributes only the tuples and the argument-order table",
        "exported: a first character without an upper case (digit, underscore, uncased letter, invalid byte) is returned unchanged; "
        "an initialism is matched case-insensitively on the whole string (functions.go, golint list)",
        "camelcase/snakecase/kebabcase (third-party xstrings): totality plus, for valid UTF-8 input, (1) letters/digits preserved up to case "
        "and separators, (2) an all-lower-case-letters word is returned unchanged, (3) snakecase output has no ASCII upper case, space or hyphen, "
        "kebabcase none of ASCII upper case, space, underscore, (4) camelcase of two lower-case words joined by one separator has no separator",
        "zero divisors and min of no arguments are outside the domain: any reply that is not a crash is accepted; getenv/expandEnv/randInt/readFile "
        "depend on the environment the harness sets up (V=vé, a three-entry scratch file system)",
        "a []string argument (join) can only be built inside a template with split/splitAfterN themselves",
        "overflow, huge inputs, wrong argument types, NUL bytes: totality only",
    ]
    return {"level": "model_checking", "exhaustive": False}


if __name__ == "__main__":
    main("C16", run)
