#!/usr/bin/env python3
"""C06 -- generation is deterministic (same exit status on every run, same files with the same bytes on every
successful run, whatever map-iteration order, time or process identity) and idempotent over its own output.

1. spec/Order.tla (on top of Recursive.tla): the code-shaped model of Initialize (twice), GetPackages, collection
   building, the per-file loop and the remote template cache, with every Go map range a nondeterministic pick.
   TLC checks `Deterministic` (every terminal state of every order = the order-free contract outcome) over all
   small worlds x generation profiles, and exports each world with the contract's outcome.
2. Go's map order cannot be forced, so the binding OBSERVES: a selection of the exported worlds (always including
   the order-sensitive ones: nested recursive packages, one template with different template-schema values, many
   files, several mocks per file) is materialised and run k times from identical inputs in the same directory;
   the InitPkg / FileBegin events say which orders the runs drew (evidence: seen / possible).
   Verdict: two runs of one world differing in exit status, or two successful runs differing in any byte or file.
3. Idempotence: mockery is run again (twice) over the tree it produced (force-file-write: true; mocks in the
   source package, in its _test package, in a directory below a recursive package, in a separate tree):
   no byte may change, no file may appear -- no mocks of mocks.
4. The hook trace of every fresh run is validated by TLC against OrderTrace.tla (contract of Order.tla).
5. Histories: the re-run must also restore the clean output when every generated file was edited by hand, and when the
   tree was produced by the OTHER built-in template (same file names) before.

Coverage table (statement clause / quantifier dimension -> where it is explored -> what is still thin)
  same exit status on every run                      failing worlds: schema-violating data, unretrievable schema with mixed
                                                     require-template-schema-exists; k = 3..14 runs (quick), <= 30 (thorough).
  same files, same bytes on success                  probe template dumping imports / file-level and per-mock template-data / methods;
                                                     testify + matryer x goimports / gofmt / noop; whole-tree hash.
  independent of iteration order                     package map: 1-3 model packages (rotations only) or + 9 padding packages (> 8 entries:
                                                     really random), shuffled YAML key order; file map: up to 7 model files + 9 padding
                                                     files; nested recursive pairs + unrelated recursive package; per-file parameters with
                                                     MIXED values across the files of one run (template, template-schema, require-schema,
                                                     formatter, force-file-write); shared custom template; same-named imports first met
                                                     inside one composite type; non-idempotent functions on cross-referenced name templates;
                                                     one mock carrying template-data keys nobody else sets.
                                                     Thin: 2 interfaces per model package (no 200-interface file); remote templates only
                                                     via file://.
  independent of time / process identity             runs span >= 1.2 s, different PIDs.  Absent: coarser clocks (date stamps).
  "fixed environment"                                HOME / TMPDIR / TZ / cwd are deliberately NOT varied between the runs of a world.
  re-run over own output                             12 layouts: in-package (absolute, relative, ./, ../ from a sub-directory, ConfigDir),
                                                     _test file, _test package, sub-directory below recursive packages, separate tree;
                                                     `all` and include-regex selection.
  histories                                          previous output edited by hand; previous output from the other template.
                                                     Absent: previous output from an older layout (other file names -> stale files are
                                                     outside the statement), partial previous output.
"""
import json
import math
import os
import shutil
import sys
import time
from collections import Counter
from pathlib import Path

sys.path.insert(0, os.path.join(os.path.dirname(__file__), "..", "lib"))
sys.path.insert(0, os.path.dirname(__file__))
from vlib import GO_SUM_MOD, REPO, MachineryError, main, tree_hash, write_files  # noqa: E402
from c07 import (LAB, MOD, node_paths, par_map, rec_pkg_config, rec_project_events, rec_root_config,  # noqa: E402
                 corrupt_case, final_coverage_zero, guarded, run_bin, run_level_trace, tick, tlc_job, validate_with_selftest)

PROBE = (Path(__file__).resolve().parent.parent / "probes" / "select" / "order.templ").read_text()
SCHEMA_A = {"$schema": "http://json-schema.org/draft-07/schema#", "type": "object"}
SCHEMA_B = {"$schema": "http://json-schema.org/draft-07/schema#", "type": "object", "required": ["need"]}

# how a world whose profile has mode "none" is rendered with the built-in templates (idempotence layouts)
BUILTIN = [
    {"name": "testify-inpackage-goimports", "template": "testify", "dir": "{{.InterfaceDir}}", "pkgname": "{{.SrcPackageName}}",
     "suffix": ".go", "formatter": "goimports"},
    {"name": "testify-testpackage-gofmt", "template": "testify", "dir": "{{.InterfaceDir}}", "pkgname": "{{.SrcPackageName}}_test",
     "suffix": "_test.go", "formatter": "gofmt"},
    {"name": "testify-subdir-noop", "template": "testify", "dir": "{{.InterfaceDir}}/mocks", "pkgname": "mocks",
     "suffix": ".go", "formatter": "noop"},
    {"name": "matryer-separate-noop", "template": "matryer", "dir": "mocks/{{.SrcPackagePath}}", "pkgname": "mocks",
     "suffix": ".go", "formatter": "noop", "data": {"with-resets": True}},
    {"name": "matryer-inpackage-goimports", "template": "matryer", "dir": "{{.InterfaceDir}}", "pkgname": "{{.SrcPackageName}}",
     "suffix": ".go", "formatter": "goimports"},
    {"name": "testify-inpackage-noop", "template": "testify", "dir": "{{.InterfaceDir}}", "pkgname": "{{.SrcPackageName}}",
     "suffix": ".go", "formatter": "noop", "data": {"unroll-variadic": True}},
    # every per-file parameter takes DIFFERENT values in the files of one run (by package): any run-global state that
    # remembers a previous file's template / formatter / force-file-write becomes order dependent
    {"name": "mixed-per-package", "template": "testify", "dir": "{{.InterfaceDir}}/mocks", "pkgname": "mocks",
     "suffix": ".go", "formatter": "goimports", "mixed": True},
]
# in-package mocks with the destination directory SPELLED in different ways (relative to the config file, with a ./
# prefix, through ConfigDir, absolute), in a regular or a _test.go file, run from the config directory or from a
# sub-directory: the re-run sees its own output as part of the source package under every spelling
BUILTIN += [
    {"name": "testify-inpackage-reldir", "template": "testify", "dir": "{{.InterfaceDirRelative}}", "pkgname": "{{.SrcPackageName}}",
     "suffix": ".go", "formatter": "goimports"},
    {"name": "testify-inpackage-dotreldir-gofmt", "template": "testify", "dir": "./{{.InterfaceDirRelative}}", "pkgname": "{{.SrcPackageName}}",
     "suffix": ".go", "formatter": "gofmt"},
    {"name": "matryer-inpackage-configdir", "template": "matryer", "dir": "{{.ConfigDir}}/{{.InterfaceDirRelative}}", "pkgname": "{{.SrcPackageName}}",
     "suffix": ".go", "formatter": "goimports"},
    {"name": "testify-inpackage-reldir-testfile", "template": "testify", "dir": "{{.InterfaceDirRelative}}", "pkgname": "{{.SrcPackageName}}",
     "suffix": "_test.go", "formatter": "goimports"},
    {"name": "testify-inpackage-absdir-subcwd", "template": "testify", "dir": "{{.InterfaceDir}}", "pkgname": "{{.SrcPackageName}}",
     "suffix": ".go", "formatter": "goimports", "cwd": "w"},
    {"name": "matryer-inpackage-updir-subcwd", "template": "matryer", "dir": "../{{.InterfaceDirRelative}}", "pkgname": "{{.SrcPackageName}}",
     "suffix": ".go", "formatter": "noop", "cwd": "w"},
]
MIXED = [{"template": "testify", "formatter": "goimports", "force-file-write": True},
         {"template": "matryer", "formatter": "noop", "force-file-write": False}]


def src_text(k):
    """Two interfaces per package.  Their signatures pull in several imports, two of which share the package name
    `util` (so import aliases are allocated), in a different order in every other package; in each interface the
    FIRST method (go/types sorts methods by name) meets both `util` packages inside ONE composite type -- map key /
    value, func parameter / result, struct fields, generic instantiation arguments."""
    lab = LAB[k]
    a, b = ("lib1", "lib2") if k % 2 == 0 else ("lib2", "lib1")
    return (f"package p{lab}\n\nimport (\n\t\"context\"\n\t\"io\"\n\t\"time\"\n\n"
            f"\tua \"{MOD}/{a}/util\"\n\tub \"{MOD}/{b}/util\"\n)\n\n"
            f"type I{lab}1 interface {{\n\tAaa(m map[ua.T]ub.T, f func(ub.T, io.Reader) (ua.T, error)) chan map[ub.T][]ua.T\n"
            f"\tDo(ctx context.Context, r io.Reader, d time.Duration, more ...string) (string, error)\n"
            f"\tUse(x ua.T, y ub.T) ua.T\n\tClose() error\n}}\n\n"
            f"type I{lab}2 interface {{\n\tAab(p ub.Pair[ub.T, ua.T], s struct {{\n\t\tX ua.T\n\t\tY ub.T\n\t}}) ua.Pair[ua.T, ub.T]\n"
            f"\tGet(key string) (int, bool)\n\tPut(w io.Writer, at time.Time, y ub.T)\n}}\n\n"
            f"type S{lab} struct{{ N int }}\n")


LIBS = {"lib1/util/t.go": "package util\n\ntype T struct{ A int }\n\ntype Pair[K comparable, V any] struct {\n\tKey K\n\tVal V\n}\n",
        "lib2/util/t.go": "package util\n\ntype T struct{ B string }\n\ntype Pair[K comparable, V any] struct {\n\tKey K\n\tVal V\n}\n"}


def schema_of(c, s):
    mode = c["W"]["g"]["mode"]
    if mode == "none":
        return None
    if mode == "same":
        return "A"
    if mode == "unfetchable":
        return "X"
    return "A" if s % 2 == 1 else "B"


PADS = 9


def build_world(ctx, wi, c, profile, pad=False):
    """Materialise one Order.tla world.  profile = None (probe template; schema modes apply) or a BUILTIN entry.
    pad: also configure PADS unrelated packages that generate nothing (all: false).  They are outside the model; their
    only purpose is to push the package map beyond one hash bucket (8 entries), where Go's per-map hash seed makes the
    relative iteration order of the world's own packages differ from run to run (a small map only rotates)."""
    W, g = c["W"], c["W"]["g"]
    top = ctx.scratch / f"ord{wi}"
    base, runp = top / "base", top / "run"
    base.mkdir(parents=True)
    rels = node_paths(c)
    wdir = "w"
    files = dict(LIBS)
    for k in range(W["n"]):
        files[f"{wdir}/{rels[k]}/x.go"] = src_text(k)
    index, pkgs = {}, {}
    for k in range(W["n"]):
        path = f"{MOD}/{wdir}/{rels[k]}"
        index[path] = (wi, k + 1)
        if not W["on"][k]:
            continue
        extra = {}
        if profile is None:
            extra["template-data"] = {"marker": f"{wdir}:{k + 1}", "nested": {"lvl": {"own": k + 1}}}
            if g["mode"] in ("differ-valid", "differ-invalid"):
                extra["template-schema"] = "file://" + str(runp / f"schema{schema_of(c, k + 1)}.json")
            if g["mode"] == "unfetchable":          # Requires(s) of Order.tla: even settings sources require the schema
                extra["require-template-schema-exists"] = (k + 1) % 2 == 0
        else:
            extra["template-data"] = dict(profile.get("data", {}))
            if profile.get("mixed"):
                extra.update(MIXED[k % 2])
        conf = rec_pkg_config(c, k, wdir, extra)
        ent = {"config": conf}
        if g["ents"] > 0:
            ent["interfaces"] = {f"I{LAB[k]}1": {"configs": [{"structname": f"E{e}{{{{.InterfaceName}}}}"} for e in range(1, g["ents"] + 1)]}}
        pkgs[path] = ent
    if pad:
        for i in range(1, PADS + 1):
            files[f"{wdir}/zpad{i}/x.go"] = f"package zpad{i}\n\ntype Pad{i} interface{{ P{i}() }}\n"
            # where no schema can reject them the padding packages are mocked too: > 8 output files, so the file map is
            # iterated in a really different order every run (their events and files are outside the model)
            pads_generate = g["mode"] in ("none", "same")
            pkgs[f"{MOD}/{wdir}/zpad{i}"] = {"config": {"all": pads_generate, "recursive": False,
                                                         **({} if pads_generate else {"include-interface-regex": ""})}}
    # the order in which the packages are written in the file is part of the (fixed) input; vary it between worlds
    keys = list(pkgs)
    ctx.rng.shuffle(keys)
    pkgs = {k_: pkgs[k_] for k_ in keys}
    conf = {"force-file-write": True, "packages": pkgs}
    conf.update(rec_root_config(c))
    if conf.get("all") is True and (wi + ctx.seed) % 2 == 1:
        # the same selection written as a regex (re-runs must not pick up Mock* types through it either)
        del conf["all"]
        conf["include-interface-regex"] = ".*"
    if profile is None:
        gomod = f"module {MOD}\n\ngo 1.23\n"
        conf.update({"template": "file://" + str(runp / "probe.templ"), "formatter": "noop", "pkgname": "out",
                     "dir": "out/{{.SrcPackagePath}}", "require-template-schema-exists": g["mode"] != "none",
                     "filename": "mocks.txt" if g["layout"] == "perpkg" else "{{.InterfaceName}}.txt",
                     "template-data": {"nested": {"lvl": {"shared": [1, 2, 3], "a": "x"}, "other": {"k": "v"}}}})
        if g["mode"] != "differ-invalid":
            conf["template-data"]["need"] = True
        if g["mode"] == "same":
            conf["template-schema"] = "file://" + str(runp / "schemaA.json")
        if g["mode"] == "unfetchable":
            conf["template-schema"] = "file://" + str(runp / "no-such-schema.json")
        files["probe.templ"] = PROBE
        files["schemaA.json"] = json.dumps(SCHEMA_A)
        files["schemaB.json"] = json.dumps(SCHEMA_B)
        suffix = ".txt"
    else:
        gomod = GO_SUM_MOD.replace("example.com/w", MOD)
        suffix = profile["suffix"]
        conf.update({"template": profile["template"], "formatter": profile["formatter"], "pkgname": profile["pkgname"],
                     "dir": profile["dir"],
                     "filename": ("mocks" if g["layout"] == "perpkg" else "mock_{{.InterfaceName}}") + suffix})
        # a root-level structname other than the default keeps in-package mocks of unexported names apart
    # naming variant (worlds without `configs` entries): dir / filename / pkgname pipe the cross-referenced variables
    # (StructName is itself a template) through functions that are NOT idempotent, so the order in which the
    # templated parameters are resolved matters if the implementation lets it
    nm = 0 if g["ents"] > 0 else 1 + (wi + ctx.seed) % 2
    if nm and not (profile and profile.get("cwd")):
        per = g["layout"] == "periface"
        if profile is None:
            conf["filename"] = ({1: "{{.StructName | firstLower}}.txt",
                                 2: "{{.InterfaceName | snakecase}}_{{.StructName | trimPrefix \"Mock\" | firstLower}}.txt"}[nm] if per
                                else {1: "{{.SrcPackageName | firstUpper}}Mocks.txt", 2: "{{.SrcPackageName | upper | trimSuffix \"X\"}}_all.txt"}[nm])
            conf["dir"] = {1: "out/{{.SrcPackagePath | replaceAll \"/\" \"_\"}}", 2: "out/{{.SrcPackagePath | trimPrefix \"example.com/\"}}"}[nm]
            conf["pkgname"] = "{{.SrcPackageName | upper}}"
        elif per:
            conf["filename"] = {1: "mock_{{.StructName | firstLower}}", 2: "{{.InterfaceName | snakecase}}_{{.StructName | trimPrefix \"Mock\" | firstLower}}"}[nm] + suffix
        else:
            conf["filename"] = {1: "{{.SrcPackageName | firstLower}}_mocks", 2: "{{.SrcPackageName | kebabcase | replaceAll \"-\" \"_\"}}_mocks"}[nm] + suffix
    # one interface of every configured package sets template-data keys that neither the package nor the top level
    # sets (a file-level key of the built-in templates; a free key for the probe, which dumps file-level data per file)
    if conf.get("all") is True or conf.get("include-interface-regex") == ".*":
        extra_data = {"only-on-this-mock": f"w{wi}"} if profile is None else {"mock-build-tags": "verifonly"}
        for k in range(W["n"]):
            path = f"{MOD}/{wdir}/{rels[k]}"
            if path in pkgs and W["on"][k]:
                ifs = pkgs[path].setdefault("interfaces", {})
                ent = ifs.get(f"I{LAB[k]}1")
                if ent is None:
                    ifs[f"I{LAB[k]}1"] = {"config": {"template-data": dict(extra_data)}}
                else:
                    ent["configs"][0]["template-data"] = dict(extra_data)
    files[".mockery.yml"] = json.dumps(conf, indent=1)
    (base / "go.mod").write_text(gomod)
    if profile is not None:
        shutil.copy(REPO / "go.sum", base / "go.sum")
    write_files(base, files)
    # expected output path of file (k, j) -- used to map Collect/FileBegin/Write events to the model's file ids
    fmap = {}
    cwd = runp / profile["cwd"] if profile and profile.get("cwd") else runp
    args = ("--config", str(runp / ".mockery.yml")) if cwd != runp else ()
    for k in range(1, W["n"] + 1):
        src_dir = runp / wdir / rels[k - 1]
        pkgpath = f"{MOD}/{wdir}/{rels[k - 1]}"
        for j in (0, 1, 2):
            if (g["layout"] == "perpkg") != (j == 0):
                continue
            if profile is None:
                d = runp / "out" / pkgpath
                fn = "mocks.txt" if j == 0 else f"I{LAB[k - 1]}{j}.txt"
            else:
                d = Path(profile["dir"].replace("{{.InterfaceDir}}", str(src_dir)).replace("{{.SrcPackagePath}}", pkgpath)
                         .replace("{{.InterfaceDirRelative}}", os.path.relpath(src_dir, runp)).replace("{{.ConfigDir}}", str(runp)))
                if not d.is_absolute():
                    d = Path(os.path.normpath(cwd / d))
                fn = ("mocks" if j == 0 else f"mock_I{LAB[k - 1]}{j}") + suffix
            fmap[str(d / fn)] = (k, j)
    return {"wi": wi, "c": c, "profile": profile, "top": top, "base": base, "run": runp, "index": index, "fmap": fmap, "wdir": wdir,
            "cwd": cwd, "args": args}


GO_TOOL_FILES = ("go.mod", "go.sum")      # inputs the go command may touch; never written by mockery


def fresh(w):
    shutil.rmtree(w["run"], ignore_errors=True)
    shutil.copytree(w["base"], w["run"])


def orders_of(trace):
    """(order of InitPkg in pass 1, in pass 2, order of FileBegin) drawn by one run."""
    p, passes, files = [], [], []
    for e in trace:
        ev = e.get("ev")
        if ev == "InitBegin":
            p = []
        elif ev == "InitPkg":
            p.append(e["pkg"])
        elif ev == "InitEnd":
            passes.append(tuple(p))
        elif ev == "FileBegin":
            files.append(e["file"])
    while len(passes) < 2:
        passes.append(())
    return passes[0], passes[1], tuple(files)


def run_world(ctx, w, cap, min_runs):
    """k fresh runs from identical inputs (same directory, same environment), then two re-runs over the output."""
    cap, min_runs = max(cap, w.get("cap", 0)), max(min_runs, w.get("min_runs", 0))
    runs = []
    t_first = None
    seen1, seenf = set(), set()
    n_conf = sum(w["c"]["W"]["on"])
    n_files = len(w["c"]["outcome"]["files"])
    for r in range(cap):
        fresh(w)
        if r >= 1 and r + 1 >= min_runs and t_first is not None and time.time() - t_first < 1.2:
            time.sleep(1.2 - (time.time() - t_first))       # runs of one world span a change of the wall-clock second
        res = run_bin(ctx, w["cwd"], args=w["args"], timeout=240, tag=f"r{r}")
        if t_first is None:
            t_first = time.time()
        if res.timed_out:
            raise MachineryError(f"mockery timed out on order world {w['wi']}")
        o1, o2, of = orders_of(res.trace)
        seen1.add(o1)
        seenf.add(of)
        runs.append({"res": res, "exit": res.code, "tree": tree_hash(w["run"], skip=GO_TOOL_FILES), "orders": (o1, o2, of), "trace": res.trace,
                     "panic": res.panicked, "brief": res.brief()})
        enough1 = n_conf <= 1 or len(seen1) >= n_conf
        enoughf = n_files <= 1 or len(seenf) >= (2 if res.code != 0 else min(n_files, 3))
        if r + 1 >= min_runs and enough1 and enoughf:
            break
    reruns = []
    if runs[-1]["exit"] == 0 and not (w["profile"] or {}).get("mixed"):
        for r in range(2):
            res = run_bin(ctx, w["cwd"], args=w["args"], timeout=240, tag=f"i{r}")
            if res.timed_out:
                raise MachineryError(f"mockery timed out re-running order world {w['wi']}")
            reruns.append({"res": res, "exit": res.code, "tree": tree_hash(w["run"], skip=GO_TOOL_FILES), "panic": res.panicked, "brief": res.brief(),
                           "selected": [(e["pkg"], e["iface"]) for e in res.trace if e.get("ev") == "Select" and e.get("gen")]})
    w["runs"], w["reruns"] = runs, reruns
    w["seen1"], w["seenf"] = seen1, seenf
    w["histories"] = histories(ctx, w) if reruns and all(x["exit"] == 0 for x in reruns) else []
    return w


def histories(ctx, w):
    """Re-runs over a tree whose previous output is NOT what this configuration wrote:
       edited    every generated file got 60 comment lines appended by hand -> the run must restore the clean output
       switched  the tree was produced by the other built-in template (same file names), then this configuration runs
                 -> the result must equal a fresh run of this configuration.
    Returns [{"what", "exit", "same", "diff"}]."""
    out = []
    clean = tree_hash(w["run"], skip=GO_TOOL_FILES)
    base = tree_hash(w["base"], skip=GO_TOOL_FILES)
    produced = [p for p, h in clean.items() if h != "DIR" and base.get(p) != h]
    if not produced:
        return out
    for p in produced:
        with open(w["run"] / p, "a") as f:
            f.write("\n" + "// edited by hand after generation\n" * 60)
    res = run_bin(ctx, w["cwd"], args=w["args"], timeout=240, tag="edit")
    after = tree_hash(w["run"], skip=GO_TOOL_FILES)
    out.append({"what": "edited", "exit": res.code, "same": res.code == 0 and after == clean, "diff": tree_diff(clean, after), "brief": res.brief()})
    prof = w["profile"]
    if prof and not prof.get("mixed") and not prof.get("data") and w["wi"] % 2 == 0:
        other = "matryer" if prof["template"] == "testify" else "testify"
        conf = json.loads((w["base"] / ".mockery.yml").read_text())
        conf_other = json.loads(json.dumps(conf).replace('"mock-build-tags": "verifonly"', '"mock-build-tags": "verifonly"'))
        conf_other["template"] = other
        fresh(w)
        (w["run"] / ".mockery.yml").write_text(json.dumps(conf_other, indent=1))
        r1 = run_bin(ctx, w["cwd"], args=w["args"], timeout=240, tag="sw1")
        (w["run"] / ".mockery.yml").write_text(json.dumps(conf, indent=1))
        r2 = run_bin(ctx, w["cwd"], args=w["args"], timeout=240, tag="sw2")
        after = tree_hash(w["run"], skip=GO_TOOL_FILES)
        out.append({"what": "switched", "exit": r2.code if r1.code == 0 else -1, "same": r1.code == 0 and r2.code == 0 and after == clean,
                    "diff": tree_diff(clean, after), "brief": (r2 if r1.code == 0 else r1).brief()})
    return out


def tree_diff(a, b):
    return {"only_first": sorted(set(a) - set(b))[:10], "only_second": sorted(set(b) - set(a))[:10],
            "changed": sorted(k for k in set(a) & set(b) if a[k] != b[k])[:10]}


def project_run(w, trace, code):
    """Hook events of one fresh run -> the event alphabet of OrderTrace.tla."""
    wi = w["wi"]
    init = rec_project_events(trace, w["index"], [(wi, w["c"])])[wi]
    out = list(init)

    trace = [e for e in trace if "pkg" not in e or e["pkg"] in w["index"]]      # padding packages are outside the model

    def kj(pkg, iface):
        k = w["index"].get(pkg, (None, 0))[1]
        j = int(iface[-1]) if iface[-1:].isdigit() else 0
        return k, j

    # which model file (k, j) an output path is: learnt from the run's own Collect events (the file NAMES are a
    # matter of the naming variant; the model only says which mocks share a file)
    perpkg = w["c"]["W"]["g"]["layout"] == "perpkg"
    file_id = {}
    current_in_model = True
    for e in trace:
        if e.get("ev") == "Collect":
            k, j = kj(e["pkg"], e["iface"])
            fp = os.path.normpath(e["file"] if os.path.isabs(e["file"]) else os.path.join(str(w["cwd"]), e["file"]))
            file_id.setdefault(fp, (k, 0 if perpkg else j))
    for e in trace:
        ev = e.get("ev")
        if ev == "Select":
            k, j = kj(e["pkg"], e["iface"])
            out.append({"op": "select", "k": k, "j": j, "gen": bool(e["gen"])})
        elif ev == "Collect":
            k, j = kj(e["pkg"], e["iface"])
            s = e.get("struct", "")
            ent = int(s[1]) if len(s) > 1 and s[0] == "E" and s[1].isdigit() else 0
            out.append({"op": "collect", "k": k, "j": j, "e": ent})
        elif ev in ("FileBegin", "Write"):
            fp = os.path.normpath(e["file"] if os.path.isabs(e["file"]) else os.path.join(str(w["cwd"]), e["file"]))
            in_model = fp in file_id                         # every model file that is rendered was collected before
            if ev == "FileBegin":
                current_in_model = in_model
            if not in_model:
                continue                                   # a padding package's file
            fk, fj = file_id.get(fp, (0, 9))
            out.append({"op": "filebegin" if ev == "FileBegin" else "write", "fk": fk, "fj": fj})
        elif ev == "Stage" and not e.get("ok") and current_in_model:
            out.append({"op": "stagefail", "fk": -1, "fj": -1, "stage": e.get("stage", "")})
        elif ev == "Exit":
            out.append({"op": "exit", "code": int(e.get("code", -1))})
    # a failed stage belongs to the file begun last
    last = (0, 9)
    for e in out:
        if e["op"] == "filebegin":
            last = (e["fk"], e["fj"])
        elif e["op"] == "stagefail":
            e["fk"], e["fj"] = last
    # order the init events first (they precede everything else in the real trace as well)
    return out


GUARDS = {
    "nested-recursive": lambda c: any(not c["W"]["on"][k] and len(e["recanc"]) >= 2 and (k + 1) in c["outcome"]["generated"]
                                      for k, e in enumerate(c["expect"])),
    "schemas-differ-invalid": lambda c: c["W"]["g"]["mode"] == "differ-invalid" and c["outcome"]["exit"] == 1 and
    len({schema_of(c, min(c["expect"][k - 1]["allowed"])) for k in c["outcome"]["generated"]}) == 2,
    "schemas-differ-valid": lambda c: c["W"]["g"]["mode"] == "differ-valid" and
    len({f["content"]["schema"] for f in c["outcome"]["files"]}) == 2,
    "many-files": lambda c: len(c["outcome"]["files"]) >= 5 and c["outcome"]["exit"] == 0,
    "several-mocks-per-file": lambda c: c["outcome"]["exit"] == 0 and any(len(f["content"]["mocks"]) >= 3 for f in c["outcome"]["files"]),
    "no-schema": lambda c: c["W"]["g"]["mode"] == "none" and len(c["outcome"]["files"]) >= 2,
    # one template with an unretrievable schema, shared by >= 4 files with mixed require-template-schema-exists
    "unfetchable-mixed": lambda c: c["W"]["g"]["mode"] == "unfetchable" and c["outcome"]["exit"] == 1 and len(c["outcome"]["files"]) >= 4 and
    len({min(c["expect"][k - 1]["allowed"]) % 2 for k in c["outcome"]["generated"]}) == 2,
    "unfetchable-not-required": lambda c: c["W"]["g"]["mode"] == "unfetchable" and c["outcome"]["exit"] == 0 and len(c["outcome"]["files"]) >= 2,
    # a nested pair of recursive packages with a package below both, plus a recursive package unrelated to the pair
    "three-recursive": lambda c: three_recursive(c),
}


def ancestors(W, k):
    out = []
    p = W["par"][k - 1]
    while p:
        out.append(p)
        p = W["par"][p - 1]
    return out


def three_recursive(c):
    W = c["W"]
    rec = [k for k in range(1, W["n"] + 1) if W["on"][k - 1] and W["rec"][k - 1] == "T"]
    if len(rec) < 3:
        return False
    for k, e in enumerate(c["expect"]):
        if W["on"][k] or len(e["recanc"]) < 2 or (k + 1) not in c["outcome"]["generated"]:
            continue
        pair = set(e["recanc"])
        for r in rec:
            if r not in pair and not (pair & set(ancestors(W, r))) and not any(r in ancestors(W, p_) for p_ in pair):
                return True
    return False


def choose(ctx, cases, thorough):
    """quick: 6 probe-template worlds + 6 built-in-template worlds; thorough: ~220."""
    idx = list(range(len(cases)))
    ctx.rng.shuffle(idx)
    per = 14 if thorough else 1
    probe, builtin = [], []

    def take(pred, n, into, extra=lambda c: True):
        got = 0
        for i in idx:
            if got >= n:
                break
            if i in [x for x, _ in into]:
                continue
            if pred(cases[i]) and extra(cases[i]):
                into.append((i, None))
                got += 1

    take(GUARDS["nested-recursive"], 2 * per, probe, lambda c: c["W"]["g"]["mode"] != "none")
    take(GUARDS["schemas-differ-invalid"], 2 * per, probe)
    take(GUARDS["schemas-differ-valid"], 1 * per, probe)
    take(lambda c: GUARDS["many-files"](c) or GUARDS["several-mocks-per-file"](c), 1 * per, probe, lambda c: c["W"]["g"]["mode"] == "same")
    take(GUARDS["unfetchable-mixed"], 2 * per, probe)
    take(GUARDS["unfetchable-not-required"], 1 * per, probe)
    n0 = len(probe)
    take(GUARDS["three-recursive"], 3 * per, probe)
    long_runs = {i for i, _ in probe[n0:]}          # an inconsistent sort needs an unlucky map order: more runs
    if thorough:
        take(lambda c: True, 30, probe)
    b = []
    take(lambda c: GUARDS["no-schema"](c) and GUARDS["nested-recursive"](c), 2 * per, b)
    take(lambda c: GUARDS["no-schema"](c) and GUARDS["several-mocks-per-file"](c), 2 * per, b)
    take(lambda c: GUARDS["no-schema"](c) and "T" in c["W"]["rec"], 1 * per, b)
    take(GUARDS["no-schema"], len(BUILTIN) - 5 if not thorough else 40, b)
    # the first built-in world has nested recursive packages: its mocks go to a directory BELOW the sources, which a
    # re-run discovers as a new sub-package; the other layouts rotate with the seed
    sub = next(p for p in BUILTIN if p["name"] == "testify-subdir-noop")
    mixed = next(p for p in BUILTIN if p.get("mixed"))
    rest = [p for p in BUILTIN if p is not sub and p is not mixed]
    for n, (i, _) in enumerate(b):                  # every layout once per len(BUILTIN) worlds; which world gets which rotates
        if n % len(BUILTIN) == 0:
            builtin.append((i, sub))
        elif n % len(BUILTIN) == 1:
            builtin.append((i, mixed))
        else:
            builtin.append((i, rest[(n % len(BUILTIN) - 2 + ctx.seed) % len(rest)]))
    return probe + builtin, long_runs


def run(ctx):
    thorough = ctx.thorough()
    tier = "thorough" if thorough else "quick"
    t0 = time.time()
    import concurrent.futures as cf
    with cf.ThreadPoolExecutor(max_workers=2) as ex:
        fb = ex.submit(ctx.mockery)
        ft = ex.submit(tlc_job, ctx, "order", "Order", f"Order_{tier}.cfg", 5, 2400, thorough)
        fd = ex.submit(tlc_job, ctx, "orderdeep", "Order", f"Order_deep_{tier}.cfg", 3, 2400, thorough)
        fb.result()
        results = [ft.result(), fd.result()]
    uniq = {}
    for r in results:
        ctx.cov["states"] += r.distinct
        ctx.cov["transitions"] += r.generated
        if r.violated:
            ctx.note(f"model-level: {r.violated} violated on Order.tla/{r.cfg} (prediction only; the runs decide)")
        elif not r.ok:
            raise MachineryError(f"TLC failed on Order/{r.cfg}:\n" + r.tail())
        if thorough and r.cfg.startswith("Order_thorough"):
            z = final_coverage_zero(r, ["Order", "Recursive"])
            if z:
                raise MachineryError(f"vacuous: actions never taken: {z}")
        for c in r.prints("CASE"):                  # TLC may evaluate the exporting constraint twice for a state
            uniq.setdefault(json.dumps(c["W"], sort_keys=True), c)
    tick(ctx, "tlc_and_build", t0)
    cases = [uniq[k] for k in sorted(uniq)]
    if len(cases) < 500:
        raise MachineryError(f"Order exported only {len(cases)} worlds: vacuous")
    for name, pred in GUARDS.items():
        if not any(pred(c) for c in cases):
            raise MachineryError("vacuous: no exported world with " + name)
    if not any(c["outcome"]["exit"] == 1 for c in cases):
        raise MachineryError("vacuous: no world whose contract outcome is a failing run")
    chosen, long_runs = choose(ctx, cases, thorough)
    if ctx.replay:
        det = json.loads(Path(ctx.replay).read_text())["detail"]
        prof = next((p for p in BUILTIN if p["name"] == det.get("profile")), None)
        chosen = [(i, prof) for i, c in enumerate(cases) if c["W"] == det["W"]]
    if len(chosen) < (1 if ctx.replay else 10):
        raise MachineryError(f"only {len(chosen)} worlds chosen for replay")
    cap, min_runs = (30, 6) if thorough else (8, 3)
    t0 = time.time()
    worlds = [build_world(ctx, n, cases[i], prof, pad=(i in long_runs or (n + ctx.seed) % 3 == 0)) for n, (i, prof) in enumerate(chosen)]
    for w, (i, _) in zip(worlds, chosen):
        if i in long_runs:
            w["cap"], w["min_runs"] = (24, 12) if thorough else (14, 10)
    worlds = par_map(lambda w: run_world(ctx, w, cap, min_runs), worlds, workers=10)
    tick(ctx, "runs", t0)
    t0 = time.time()
    events = []
    n_runs = n_ok_multi = n_fail_worlds = n_idem = n_hist = 0
    orders_evidence = []
    for w in worlds:
        c, prof = w["c"], w["profile"]
        pname = prof["name"] if prof else "probe-template"
        g = c["W"]["g"]
        base_sig = {"mode": g["mode"], "layout": g["layout"], "ents": g["ents"], "profile": pname,
                    "dir": prof["dir"] if prof else "out/{{.SrcPackagePath}}"}
        det = {"W": c["W"], "paths": node_paths(c), "profile": pname, "config": json.loads((w["base"] / ".mockery.yml").read_text()),
               "contract_outcome": {"exit": c["outcome"]["exit"], "n_files": len(c["outcome"]["files"])}}
        runs = w["runs"]
        n_runs += len(runs) + len(w["reruns"])
        for rr in runs + w["reruns"]:
            if rr["panic"]:
                ctx.violation({"kind": "panic", **base_sig}, {**det, "run": rr["brief"]})
        exits = Counter(rr["exit"] for rr in runs)
        if len(exits) > 1:
            by = {e: next(rr for rr in runs if rr["exit"] == e) for e in exits}
            ctx.violation({"kind": "nondeterministic-exit", **base_sig},
                          {**det, "exit_statuses": dict(exits),
                           "orders_by_status": {str(e): {"initpkg_pass1": by[e]["orders"][0], "filebegin": by[e]["orders"][2]} for e in by},
                           "stderr_by_status": {str(e): by[e]["brief"]["stderr_tail"][-400:] for e in by}})
        ok_runs = [rr for rr in runs if rr["exit"] == 0]
        for rr in ok_runs[1:]:
            if rr["tree"] != ok_runs[0]["tree"]:
                ctx.violation({"kind": "nondeterministic-output", **base_sig},
                              {**det, "diff": tree_diff(ok_runs[0]["tree"], rr["tree"]),
                               "orders": [{"initpkg_pass1": x["orders"][0], "filebegin": x["orders"][2]} for x in (ok_runs[0], rr)]})
                break
        # idempotence: re-running over the produced tree changes nothing
        if ok_runs and w["reruns"]:
            n_idem += 1
            before = runs[-1]["tree"]
            for n, rr in enumerate(w["reruns"]):
                if rr["exit"] != 0:
                    ctx.violation({"kind": "not-idempotent", "what": "exit", **base_sig}, {**det, "rerun": n + 1, "run": rr["brief"]})
                    break
                if rr["tree"] != before:
                    d = tree_diff(before, rr["tree"])
                    what = "added-files" if d["only_second"] else ("removed-files" if d["only_first"] else "changed-bytes")
                    ctx.violation({"kind": "not-idempotent", "what": what, **base_sig},
                                  {**det, "rerun": n + 1, "diff": d, "selected_in_rerun": rr["selected"][:20]})
                    break
        for h in w.get("histories", []):
            n_hist += 1
            if not h["same"]:
                ctx.violation({"kind": "history-dependent-output", "what": h["what"], **base_sig},
                              {**det, "history": h["what"], "exit": h["exit"], "diff": h["diff"], "run": h["brief"]})
        # drift: the observed outcome vs the contract outcome of Order.tla (not a C06 verdict)
        if exits and set(exits) != {c["outcome"]["exit"]} and len(exits) == 1:
            ctx.note(f"drift: world {w['wi']} ({pname}, {g}) exits {list(exits)[0]}, Order.tla says {c['outcome']['exit']}: "
                     + runs[0]["brief"]["stderr_tail"][-300:])
        if ok_runs and len(c["outcome"]["files"]) >= 2:
            n_ok_multi += 1
        if 1 in exits:
            n_fail_worlds += 1
        n_conf = sum(c["W"]["on"])
        orders_evidence.append({"world": w["wi"], "profile": pname, "mode": g["mode"], "runs": len(runs), "exit": sorted(exits),
                                "padded_with_unrelated_packages": PADS if any("zpad" in p_ for p_ in json.loads((w["base"] / ".mockery.yml").read_text())["packages"]) else 0,
                                "packages_in_map": n_conf, "initpkg_orders_seen": len(w["seen1"]),
                                "initpkg_orders_possible_rotations": n_conf, "initpkg_orders_possible_permutations": math.factorial(n_conf),
                                "files": len(c["outcome"]["files"]), "filebegin_orders_seen": len(w["seenf"]),
                                "filebegin_orders_possible_permutations": math.factorial(len(c["outcome"]["files"]))})
        for n, rr in enumerate(runs):
            cid = f"{w['wi']}:{n}"
            evs = project_run(w, rr["trace"], rr["exit"])
            events.append({"op": "reset", "case": cid, "W": c["W"]})
            events += [dict(e, case=cid) for e in evs]
            events.append({"op": "fin", "case": cid})
    tick(ctx, "judge", t0)
    # vacuity of the observation itself
    if not ctx.replay:
        if n_ok_multi < 4:
            raise MachineryError(f"only {n_ok_multi} worlds produced several files successfully: nothing to compare")
        if n_fail_worlds < 1:
            raise MachineryError("no world with a failing run was observed (the exit-status half would be vacuous)")
        if n_idem < 6:
            raise MachineryError(f"only {n_idem} worlds reached the idempotence re-run")
        if not any(e.get("ev") == "InitPkg" for w in worlds for rr in w["runs"] for e in rr["trace"]) or \
                not any(e.get("ev") == "FileBegin" for w in worlds for rr in w["runs"] for e in rr["trace"]):
            raise MachineryError("no InitPkg / FileBegin events were recorded: the iteration order cannot be observed")
        if not any(o["initpkg_orders_seen"] >= 2 for o in orders_evidence):
            ctx.note("no world was visited in two different package orders: the implementation appears to iterate deterministically")
        if not any(o["filebegin_orders_seen"] >= 2 for o in orders_evidence):
            ctx.note("no world rendered its files in two different orders: the implementation appears to iterate deterministically")
    t0 = time.time()
    def flip_exit(evs):
        for e in evs:
            if e["op"] == "exit":
                e["code"] = 1 - e["code"] if e["code"] in (0, 1) else 0
                return evs
        return None

    def swap_collects(evs):
        idx = [n for n, e in enumerate(evs) if e["op"] == "collect"]
        for a, b in zip(idx, idx[1:]):
            if evs[a]["k"] == evs[b]["k"] and (evs[a]["j"], evs[a]["e"]) != (evs[b]["j"], evs[b]["e"]):
                evs[a], evs[b] = evs[b], evs[a]
                return evs
        return None

    def drop_write(evs):
        for n, e in enumerate(evs):
            if e["op"] == "write":
                return evs[:n] + evs[n + 1:]
        return None
    corrupted = []
    for nm, fn, want in (("exit-code-flipped", flip_exit, lambda w: True),
                         ("mocks-in-file-swapped", swap_collects, lambda w: w["c"]["W"]["g"]["layout"] == "perpkg" and w["runs"][0]["exit"] == 0),
                         ("write-event-dropped", drop_write, lambda w: w["runs"][0]["exit"] == 0)):
        for w in worlds:
            cc = corrupt_case(events, f"{w['wi']}:0", nm, fn) if want(w) else []
            if cc:
                corrupted += cc
                break
    n_ok, rej = validate_with_selftest(ctx, "OrderTrace", "OrderTrace.cfg", events, "order", corrupted, timeout=1800)
    ctx.cov["traces_validated_against_impl"] += n_ok + len(rej)
    for rj in rej:
        wi = int(str(rj["case"]).split(":")[0])
        w = worlds[wi]
        g = w["c"]["W"]["g"]
        ctx.violation({"kind": "order-trace", "op": rj["at"]["op"], "mode": g["mode"], "profile": w["profile"]["name"] if w["profile"] else "probe-template"},
                      {"rejected_at": rj["at"], "index_in_run": rj["index_in_case"], "events": rj["events"][:80], "W": w["c"]["W"],
                       "contract_outcome": {"exit": w["c"]["outcome"]["exit"], "files": [(f["k"], f["j"]) for f in w["c"]["outcome"]["files"]]},
                       "contract": "spec/OrderTrace.tla"})
    tick(ctx, "trace_validation", t0)
    t0 = time.time()
    run_level_trace(ctx, "C06", [rr["res"] for w in worlds for rr in w["runs"] + w["reruns"]], 900000 if thorough else 90000)
    tick(ctx, "run_level_trace", t0)
    ctx.cov["evaluations"] += n_runs
    ctx.cov["worlds_model_checked"] = len(cases)
    ctx.cov["worlds_run"] = len(worlds)
    ctx.cov["runs"] = n_runs
    ctx.cov["worlds_rerun_for_idempotence"] = n_idem
    ctx.cov["reruns_over_edited_or_other_template_output"] = n_hist
    ctx.cov["orders_observed"] = orders_evidence[:40]
    ctx.cov["distinct_nontrivial"] = len(worlds)
    ctx.cov["rule"] = "a world = package tree + configuration + generation profile; non-trivial = several output files or a failing file"
    for w in worlds[:3]:
        ctx.sample({"world": w["c"]["W"], "profile": w["profile"]["name"] if w["profile"] else "probe-template",
                    "runs": [{"exit": rr["exit"], "initpkg_pass1": [p.split("/w/")[-1] for p in rr["orders"][0]],
                              "filebegin": [p.split("/run/")[-1] for p in rr["orders"][2]],
                              "tree_digest": hash(json.dumps(rr["tree"], sort_keys=True)) & 0xffffffff} for rr in w["runs"]],
                    "reruns_changed_nothing": all(x["tree"] == w["runs"][-1]["tree"] for x in w["reruns"])})
    ctx.assumptions += [
        "Go's map iteration order cannot be forced: orders are observed (see orders_observed: seen vs possible)",
        "time dependence is observed only at the resolution of the check's duration (runs of one world span >= 1.2 s)",
        "runs of one world share directory, environment and binary; only PID, time and the run count vary",
        "small scope: trees of at most 3 (quick) / 4 (thorough) packages, two interfaces each",
    ]
    return {"level": "model_checking", "exhaustive": False}


if __name__ == "__main__":
    main("C06", guarded(run))
