#!/usr/bin/env python3
"""C07 -- exactly the configured interfaces and packages are mocked, once per `configs` entry.

Part A (spec/Selection.tla + Discovery.tla): TLC enumerates the decision table
  all x listed x include-regex x exclude-regex x (root | package | both levels) x `interfaces:` sections
over one package that contains every declaration kind, checks the code-shaped model (AST walk, scope lookup,
ShouldGenerateInterface's early returns, Configs expansion) against the contract, and exports every case
together with the contract's expected mocks.  Every case becomes one package of a batch world (cases with the
same top-level settings share one .mockery.yml); the real binary runs with a probe template that lists
(interface, struct, entry marker) per output file; verdict = multiset equality with the contract.
The Select/Collect hook events of every run are validated by TLC against SelectionTrace.tla.

Part B (spec/Recursive.tla): TLC enumerates package trees x node kinds x configured subsets x recursive flags
x exclude-subpkg-regex at both levels, checks the code-shaped Initialize (map order nondeterministic, deepest
first expansion, run twice) against the contract (nearest configured recursive ancestor) and exports worlds;
each is materialised and run (`mockery` with the probe template + `mockery showconfig`); verdict = equality of
(package, interface, struct prefix, marker) with the contract.  InitPkg/Recursive/Exclude/Inject events are
validated against RecursiveTrace.tla.

The regex Match tables the specs carry are recomputed with Go's regexp (drivers/rematch); disagreement = exit 2.

Coverage table (statement clause / quantifier dimension -> where it is explored -> what is still thin)
  all | listed | include | exclude decision rows    Selection.tla: every row x {top, package, both levels + decoy} x 8-11 `interfaces:`
                                                     sections; explicit "" cancelling an inherited regex; package `all` overriding top
                                                     both ways.  Thin: 3 (quick) / 7 patterns; no invalid regex (C09's).
  once per `configs` entry                           forms null / config / configs[0..3]; entries in own or shared files.
  declarations: exported, unexported, generic,       31+ declarations in one package: grouped decl, two files, defined instantiations
   instantiated, embeds-only (local / std / mixed /   (IndexExpr / IndexListExpr), embeds-only x6, files with generated-code headers x3,
   generic / alias), structs, func types, aliases     function / func-literal / method-local types incl. shadowing ones.
  never mocked: non-interfaces, function-local,      structs, func types, basic, alias-to-struct, generic struct + instantiation, locals;
   look-alike names                                   listed names differing only in case ("reader", "GEN"), absent names, listed struct.
  undecided by the statement ("either")              aliases of interfaces, `type X Y`, union / mixed constraints, _test.go decls.
                                                     Absent: `build-tags` (a tagged file becoming part of the package), non-ASCII /
                                                     underscore names vs Unicode classes.
  unconfigured packages                              decoy sibling + directory below a non-recursive package in every selection world;
                                                     unrelated top-level directories (forests) in Recursive.tla.
  recursive: sub-packages with Go files              9 directory kinds at any depth <= 3 (4/5 in "deep"): test-only, empty, tagged-only,
                                                     testdata, _x, .x, vendor, nested module (the last six "either"); container packages
                                                     (recursive package without Go files: was defect D19, fixed by b2c99c5; reverting it is a standing mutant).
  exclusion regex, both levels                       9 lists (single, multi-entry with inline flags / anchors / alternation), top x package
                                                     x both; names that are string prefixes of a sibling ("a"/"ax"), upper-case names.
  nearest configured recursive ancestor              <= 3 configured packages anywhere, rec T/F/unset at both levels, explicit sub-packages,
                                                     nested pairs + unrelated recursive packages, payload (all / structname) per level;
                                                     same package name in every directory of every other world.
                                                     Absent: symlinked directories; `interfaces:` of a recursive parent (not "settings"?).
"""
import concurrent.futures as cf
import json
import os
import re
import shutil
import subprocess
import sys
import time
from collections import Counter, defaultdict
from pathlib import Path

sys.path.insert(0, os.path.join(os.path.dirname(__file__), "..", "lib"))
from vlib import SPEC, MachineryError, RunResult, TLCResult, go_env, main, write_files  # noqa: E402

MOD = "example.com/w"
GOMOD = f"module {MOD}\n\ngo 1.23\n"
UNSET = "<unset>"
PROBES = Path(__file__).resolve().parent.parent / "probes" / "select"


# ---------------------------------------------------------------------------------------------- helpers
# symptoms of the MACHINE failing under the run (disk full, out of memory / processes, go toolchain unable to produce
# export data): such a run says nothing about mockery and must never become a verdict
ENV_FAILURE = re.compile(r"no space left on device|cannot allocate memory|resource temporarily unavailable|too many open files|"
                         r"signal: killed|internal error: package \S+ without types|fork/exec .*: |disk quota exceeded|"
                         r"input/output error|read-only file system|go-build/\S+: no such file or directory|"
                         r"could not import \S+ \(open |cannot find package .* in std", re.I)


def check_environment(res, what):
    m = ENV_FAILURE.search(res.err + res.out)
    if m:
        raise MachineryError(f"the environment failed during {what} ({m.group(0)!r}): " + (res.err + res.out)[-400:])


def run_bin(ctx, cwd, args=(), env=None, timeout=180, tag="t"):
    """Thread-safe variant of ctx.run_mockery (own trace file inside cwd's parent scratch)."""
    binp = ctx.mockery()
    tfile = Path(cwd) / f".trace-{tag}-{time.monotonic_ns()}.ndjson"
    e = go_env(env)
    e["VERIFHOOK_TRACE"] = str(tfile)
    t = time.time()
    to = False
    try:
        p = subprocess.run([str(binp), *args], cwd=cwd, env=e, capture_output=True, text=True, timeout=timeout,
                           errors="replace")
        code, out, err = p.returncode, p.stdout, p.stderr
    except subprocess.TimeoutExpired as ex:
        to, code = True, -9
        out = ex.stdout.decode("utf8", "replace") if isinstance(ex.stdout, bytes) else (ex.stdout or "")
        err = ex.stderr.decode("utf8", "replace") if isinstance(ex.stderr, bytes) else (ex.stderr or "")
    evs = []
    if tfile.exists():
        for ln in tfile.read_text().splitlines():
            try:
                evs.append(json.loads(ln))
            except ValueError:
                pass
        tfile.unlink()
    res = RunResult(code, out, err, time.time() - t, to, evs)
    if code != 0:
        check_environment(res, f"mockery {' '.join(args)} in {cwd}")
    return res


def tlc_job(ctx, name, module, cfg, workers=4, timeout=1500, coverage=False):
    """ctx.tlc without the shared counter, so that several model-checking runs can go in parallel threads.
    (State counts are added to ctx.cov by the caller, in the main thread.)"""
    d = ctx.scratch / f"tlcjob-{name}"
    shutil.copytree(SPEC, d, ignore=shutil.ignore_patterns("states", "*.out", ".tlacache"))
    shutil.copy(d / "cfg" / cfg, d / cfg)
    cmd = ["tlc", "-workers", str(workers), "-metadir", str(d / "meta"), "-config", cfg]
    if coverage:
        cmd += ["-coverage", "1"]
    cmd.append(module + ".tla")
    env = dict(os.environ)
    env["JAVA_TOOL_OPTIONS"] = (env.get("JAVA_TOOL_OPTIONS", "") + " -Xss64m").strip()
    t = time.time()
    try:
        p = subprocess.run(cmd, cwd=d, env=env, capture_output=True, text=True, timeout=timeout, errors="replace")
    except subprocess.TimeoutExpired:
        subprocess.run(["pkill", "-f", str(d / "meta")], capture_output=True)
        raise MachineryError(f"TLC timed out after {timeout}s on {module}/{cfg}")
    res = TLCResult(module, cfg, p.returncode, p.stdout + p.stderr, time.time() - t, d)
    shutil.rmtree(d / "meta", ignore_errors=True)
    return res


def final_coverage_zero(r, modules):
    """Actions with a zero count in the LAST coverage report of a TLC run.  (TLC -coverage 1 also prints interim
    reports every minute; on a slow machine those list actions that simply have not been reached yet, so
    TLCResult.coverage_zero(), which scans the whole output, must not be used for a vacuity verdict.)"""
    chunks = r.text.split("The coverage statistics at")
    last = chunks[-1] if len(chunks) > 1 else ""
    if not last:
        raise MachineryError(f"TLC printed no coverage report for {r.module}/{r.cfg}")
    out = []
    for ln in last.splitlines():
        ln = ln.strip()
        if re.search(r"^<\w+ line .*>: 0:0$", ln) and any(f"module {m}" in ln for m in modules):
            out.append(ln)
    return out


def run_level_trace(ctx, prop, runs, event_budget):
    """Pass whole runs through the shared root trace specification (lib/runtrace.py, spec/MockeryTrace.tla).
    Clauses owned by `prop` are verdicts, the others notes.  Runs are taken in seed order until event_budget hook
    events are reached (TLC needs ~10 s per 30k events)."""
    import runtrace
    runs = [r for r in runs if r is not None and r.trace]
    ctx.rng.shuffle(runs)
    chosen, n = [], 0
    for r in runs:
        if n + len(r.trace) > event_budget and chosen:
            continue
        chosen.append(r)
        n += len(r.trace)
    if not chosen:
        return
    rej = runtrace.validate_runs(ctx, chosen)
    own, other = runtrace.mine(rej, prop)
    for x in own:
        ctx.violation({"kind": "run-trace-rejected", "why": x["why"][0]},
                      {"why": x["why"], "at": x["at"], "event": x["event"], "events": x["events"][:400]})
    for x in other:
        ctx.note(f"run-trace clause of {x['props']} rejected a run: {x['why']}")
    for d in rej.drift:
        ctx.note("drift: " + ", ".join(d["why"]))
    ctx.cov["traces_validated_against_impl"] += rej.validated
    ctx.cov["run_level_traces_validated"] = rej.validated
    ctx.cov["run_level_trace_events"] = n


def par_map(fn, items, workers=12):
    with cf.ThreadPoolExecutor(max_workers=workers) as ex:
        return list(ex.map(fn, items))


def rematch(ctx, pats, subjects):
    drv = ctx.build_driver("rematch")
    d = ctx.mkdir()
    (d / "in.json").write_text(json.dumps({"pats": list(pats), "subjects": list(subjects)}))
    p = subprocess.run([str(drv), str(d / "in.json"), str(d / "out.json")], capture_output=True, text=True, timeout=120)
    if p.returncode != 0:
        raise MachineryError("rematch driver died: " + p.stderr[-400:])
    out = json.loads((d / "out.json").read_text())
    if out["errors"]:
        raise MachineryError(f"pattern universe contains an invalid Go regexp: {out['errors']}")
    return out["match"]


def validate_cases(ctx, module, cfg, events, label, case_key="case", timeout=900):
    """Validate a concatenated trace; on rejection cut the rejected case out and continue (one rejection never
    hides later ones).  Returns (n_cases_accepted, [rejections])."""
    n_ok, rejected = 0, []
    evs = list(events)
    while evs:
        ok, r = ctx.validate_trace(module, cfg, evs, timeout=timeout)
        if ok:
            n_ok += len({e[case_key] for e in evs})
            break
        if r.consumed is None:
            raise MachineryError(f"trace validation of {module} gave no CONSUMED line:\n" + r.tail())
        bad = min(r.consumed[0], len(evs) - 1)
        case = evs[bad][case_key]
        rejected.append({"case": case, "at": evs[bad], "index_in_case": sum(1 for e in evs[:bad] if e[case_key] == case),
                         "events": [e for e in evs if e[case_key] == case], "label": label})
        n_ok += len({e[case_key] for e in evs[:bad] if e[case_key] != case})
        seen_bad = False
        rest = []
        for e in evs:
            if e[case_key] == case:
                seen_bad = True
                continue
            if seen_bad:
                rest.append(e)
        evs = rest
        if len(rejected) >= 8:
            break
    return n_ok, rejected


def corrupt_case(events, case, name, mutate):
    """Copy one (accepted-looking) case of a concatenated trace, apply `mutate(list_of_events) -> list`, and give
    it the id corrupt:<name>.  Used to show that the trace specs reject a trace with one field changed."""
    evs = [dict(e) for e in events if e["case"] == case]
    out = mutate(evs)
    if out is None:
        return []
    return [dict(e, case="corrupt:" + name) for e in out]


def validate_with_selftest(ctx, module, cfg, events, label, corrupted, timeout=2400):
    """validate_cases + binding self-test: every corrupted copy appended at the end must be rejected."""
    names = sorted({e["case"] for e in corrupted})
    n_ok, rej = validate_cases(ctx, module, cfg, list(events) + list(corrupted), label, timeout=timeout)
    got = {r["case"] for r in rej if str(r["case"]).startswith("corrupt:")}
    if len(rej) < 8 and set(names) - got:
        raise MachineryError(f"{module} accepted a corrupted trace ({sorted(set(names) - got)}): the trace specification does not bind")
    ctx.cov.setdefault("corrupted_traces_rejected", []).extend(sorted(got))
    real = [r for r in rej if not str(r["case"]).startswith("corrupt:")]
    return n_ok, real


# ---------------------------------------------------------------------------------------------- Part A: selection
def decl_text(d, k):
    """Concrete Go text of one abstract declaration of Discovery.tla."""
    n, kind = d["name"], d["kind"]
    body = {
        "iface": f"type {n} interface{{ Do{k}(x int) string }}",
        "ifaceGrouped": f"type (\n\t{n} interface{{ Do{k}(x int) string }}\n)",
        "generic": f"type {n}[T any] interface{{ Get() T }}",
        "generic2": f"type {n}[K comparable, V any] interface{{ Lookup(k K) V }}",
        "instDef": f"type {n} Gen[int]",
        "instDef2": f"type {n} Gen2[string, int]",
        "embed": f"type {n} interface {{\n\tEmpty\n\tExtra{k}() error\n}}",
        "empty": f"type {n} interface{{}}",
        "embedsLocal": f"type {n} interface {{\n\tReader\n\tWriter\n}}",
        "embedsStd": f"type {n} interface {{\n\tfmt.Stringer\n}}",
        "embedsMixed": f"type {n} interface {{\n\tReader\n\tio.Closer\n}}",
        "embedsGeneric": f"type {n}[T any] interface {{\n\tGen[T]\n}}",
        "embedsInst": f"type {n} interface {{\n\tGen[int]\n\tGen2[string, int]\n}}",
        "embedsAlias": f"type {n} interface {{\n\tAliasOver\n}}",
        "instAlias": f"type {n} = Gen[string]",
        "namedOver": f"type {n} Second",
        "aliasOver": f"type {n} = Second",
        "union": f"type {n} interface{{ ~int | ~float64 }}",
        "mixed": f"type {n} interface {{\n\t~int\n\tString() string\n}}",
        "struct": f"type {n} struct{{ A int }}",
        "func": f"type {n} func(int) int",
        "aliasStruct": f"type {n} = Conf",
        "genStruct": f"type {n}[T any] struct{{ v T }}",
        "instStruct": f"type {n} Holder[int]",
        "basic": f"type {n} int",
    }[kind]
    sc = d["scope"]
    if sc == "pkg":
        return body
    inner = f"type {n} interface{{ Loc{k}() }}"   # function-local declarations are always interface literals
    use = f"\tvar _ {n}\n"
    if sc == "func":
        return f"func local{k}() {{\n\t{inner}\n{use}}}"
    if sc == "lit":
        return f"var _ = func() {{\n\t{inner}\n{use}}}"
    if sc == "method":
        return f"func (c Conf) local{k}() {{\n\t{inner}\n{use}}}"
    raise MachineryError("unknown scope " + sc)


def package_files(decls):
    by = defaultdict(list)
    for k, d in enumerate(decls):
        by[d["file"]].append(decl_text(d, k))
    names = {"go": "a.go", "go2": "b.go", "test": "c_test.go", "tagged": "d.go",
             "genother": "e_api.pb.go", "genfree": "f_kept.go", "genown": "g_legacy.go"}
    heads = {"tagged": "//go:build verifnever\n\n",
             # files written (or merely labelled) by generators: they are ordinary source files of the package
             "genother": "// Code generated by protoc-gen-go. DO NOT EDIT.\n// versions:\n// \tprotoc-gen-go v1.34.2\n// source: api.proto\n\n",
             "genfree": "// This file is kept in sync with the platform team's template -- DO NOT EDIT it without a review.\n\n",
             "genown": "// Code generated by mockery; DO NOT EDIT.\n// github.com/vektra/mockery\n// template: testify\n\n"}
    files = {}
    for f, texts in by.items():
        head = heads.get(f, "")
        body = "\n\n".join(texts)
        imports = "".join(f'import "{i}"\n' for i in ("fmt", "io") if f"{i}." in body)
        files[names[f]] = head + "package p\n\n" + (imports + "\n" if imports else "") + body + "\n"
    return files


SEL_PROBE = (PROBES / "selection.templ").read_text()


def sel_level(rec):
    c = {}
    if rec["all"] != UNSET:
        c["all"] = rec["all"] == "T"
    if rec["inc"] != UNSET:
        c["include-interface-regex"] = rec["inc"]
    if rec["exc"] != UNSET:
        c["exclude-interface-regex"] = rec["exc"]
    return c


def sel_interfaces(L):
    out = {}
    for e in L:
        if e["form"] == "null":
            out[e["name"]] = None
        elif e["form"] == "config":
            out[e["name"]] = {"config": {"structname": "C0{{.InterfaceName}}"}}
        else:
            ents = []
            for k in range(1, e["n"] + 1):
                ent = {"structname": f"E{k}{{{{.InterfaceName}}}}", "template-data": {"entry": k}}
                if k >= 2:
                    ent["filename"] = f"e{k}.txt"
                ents.append(ent)
            out[e["name"]] = {"configs": ents}
    return out


def build_sel_world(ctx, wi, cases, decls):
    """One batch world: all cases share the top-level record R; one package per case."""
    files = {}
    pk = package_files(decls)
    pkgs = {}
    for ci, c in cases:
        name = f"c{ci:05d}"
        for fn, txt in pk.items():
            files[f"{name}/{fn}"] = txt
        pc = sel_level(c["P"])
        pc["template-data"] = {"case": name}
        ent = {"config": pc}
        ifs = sel_interfaces(c["L"])
        if ifs:
            ent["interfaces"] = ifs
        pkgs[f"{MOD}/{name}"] = ent
    # packages that are not configured: a sibling, and a directory below a configured, non-recursive package
    files["unconfigured/x.go"] = "package unconfigured\n\ntype Reader interface{ Read() }\n"
    first = f"c{cases[0][0]:05d}"
    files[f"{first}/inner/x.go"] = "package inner\n\ntype Reader interface{ Read() }\n"
    d = ctx.scratch / f"sel{wi}"
    d.mkdir()
    (d / "go.mod").write_text(GOMOD)
    write_files(d, files)
    (d / "probe.templ").write_text(SEL_PROBE)
    conf = {"template": "file://" + str(d / "probe.templ"), "require-template-schema-exists": False,
            "formatter": "noop", "dir": str(d / "out") + "/{{.SrcPackagePath}}", "filename": "mocks.txt",
            "pkgname": "out", "packages": pkgs}
    conf.update(sel_level(cases[0][1]["R"]))
    (d / ".mockery.yml").write_text(json.dumps(conf, indent=1))
    return d


def read_probe_tree(out_root):
    """out/<pkg path>/<file>.txt -> {pkgpath: [records]} ; malformed probe output is a machinery error."""
    res = defaultdict(list)
    out_root = Path(out_root)
    if not out_root.exists():
        return res
    for dp, _, fns in os.walk(out_root):
        for fn in sorted(fns):
            rel = os.path.relpath(dp, out_root)
            for ln in (Path(dp) / fn).read_text().splitlines():
                ln = ln.strip()
                if not ln:
                    continue
                try:
                    rec = json.loads(ln)
                except ValueError:
                    raise MachineryError(f"probe output not JSON in {dp}/{fn}: {ln[:200]}")
                rec["_file"] = fn
                res[rel].append(rec)
    return res


def sel_case_verdict(c, recs, run_ok):
    """Compare the probe records of one package with the contract's expectation (both are data; the contract
    itself was evaluated by TLC).  Returns None or (sig-extra, detail)."""
    exp = Counter((m["iface"], m["entry"]) for m in c["expect"]["mocks"])
    free = c["expect"]["free"] if isinstance(c["expect"]["free"], dict) else {}
    obs = Counter((r["iface"], int(r["entry"])) for r in recs)
    obs_strict = Counter({k: v for k, v in obs.items() if k[0] not in free})
    why = c["expect"]["why"] if isinstance(c["expect"]["why"], dict) else {}
    problems = []
    for k in sorted(set(exp) | set(obs_strict)):
        e, o = exp.get(k, 0), obs_strict.get(k, 0)
        if o > e:
            problems.append(("extra", k, e, o))
        elif o < e and run_ok:
            problems.append(("missing", k, e, o))
    per_free = Counter()
    for (n, _), v in obs.items():
        if n in free:
            per_free[n] += v
    for n, v in per_free.items():
        allow = free[n]
        if v > allow or (run_ok and v not in (0, allow)):
            problems.append(("free-count", (n, -1), allow, v))
    if not problems:
        return None
    kind, k, e, o = problems[0]
    name = k[0]
    sig = {"diff": kind, "iface": name, "why": why.get(name, "not-an-interface-of-the-package" if name not in free else "free"),
           "entry": k[1]}
    return sig, {"expected": sorted(exp.elements()), "observed": sorted(obs.elements()), "problems": problems[:6]}


def sel_trace_events(c, cid, evs, code, alone, entry_of_struct):
    out = [{"op": "reset", "case": cid, "R": c["R"], "P": c["P"], "L": c["L"]}]
    for e in evs:
        if e["ev"] == "Select":
            out.append({"op": "select", "case": cid, "iface": e["iface"], "gen": bool(e["gen"])})
        elif e["ev"] == "Collect":
            out.append({"op": "collect", "case": cid, "iface": e["iface"], "entry": entry_of_struct(e["struct"])})
    out.append({"op": "end", "case": cid, "exit": code, "alone": alone})
    return out


def entry_of_struct(s):
    m = re.match(r"^E(\d+)", s)
    return int(m.group(1)) if m else 0


def tick(ctx, label, t0):
    ctx.cov.setdefault("timing_s", {})[label] = round(time.time() - t0, 1)


def sel_model(ctx, r):
    """Parse what TLC exported for Selection; check the abstraction table and the vacuity guards."""
    if r.violated:
        ctx.note(f"model-level: {r.violated} violated on Selection (prediction only; the replay decides)")
    elif not r.ok:
        raise MachineryError("TLC failed on Selection:\n" + r.tail())
    tabs = r.prints("TABLE")
    if not tabs:
        raise MachineryError("Selection: TABLE export missing")
    tab = tabs[0]
    # ---- abstraction table check: the spec's Match sets vs Go's regexp
    names = sorted(tab["names"])
    real = rematch(ctx, list(tab["sets"].keys()), names)
    for p, s in tab["sets"].items():
        got = {n for n in names if real[p][n]}
        if got != set(s):
            raise MachineryError(f"Selection Match table disagrees with Go regexp for {p!r}: spec-only {sorted(set(s) - got)}, "
                                 f"go-only {sorted(got - set(s))}")
    cases = r.prints("CASE")
    cases.sort(key=lambda c: json.dumps([c["R"], c["P"], c["L"]], sort_keys=True))
    if len(cases) < 1000:
        raise MachineryError(f"Selection exported only {len(cases)} cases: vacuous")
    for c in cases:
        for k in ("free", "why"):
            if not isinstance(c["expect"][k], dict):
                c["expect"][k] = {}
    # ---- vacuity: every row of the decision table occurs, multi-entry, absent interface, package overrides top level
    whys = Counter(w for c in cases for w in c["expect"]["why"].values())
    need = {"all", "listed", "regex", "regex:not-excluded", "no:noinc", "no:exc-without-inc", "no:nomatch", "no:excluded"}
    if need - set(whys):
        raise MachineryError(f"vacuous: decision-table rows never exported: {need - set(whys)}")
    if not any(m["entry"] >= 2 for c in cases for m in c["expect"]["mocks"]):
        raise MachineryError("vacuous: no case with several `configs` entries")
    if not any(c["expect"]["exit"] == "any" for c in cases) or not any(c["R"]["all"] == "T" and c["P"]["all"] == "F" for c in cases):
        raise MachineryError("vacuous: no absent-interface case / no package-overrides-top-level case")
    drift = sum(1 for c in cases if Counter((m["iface"], m["entry"]) for m in c["impl"]["mocks"] if m["iface"] not in c["expect"]["free"])
                != Counter((m["iface"], m["entry"]) for m in c["expect"]["mocks"]))
    ctx.cov["selection_decision_rows"] = dict(whys)
    ctx.cov["selection_model_impl_vs_contract_disagreements"] = drift
    return cases, tab["decls"]


def sel_cell(c):
    """decision-table row x where each parameter was written (top level / package / both / nowhere)."""
    def lvl(k):
        r, p = c["R"][k] != UNSET, c["P"][k] != UNSET
        return "both" if r and p else "top" if r else "pkg" if p else "none"
    return (tuple(sorted(set(c["expect"]["why"].values()))), lvl("all"), lvl("inc"), lvl("exc"), len(c["L"]))


def sel_choose(ctx, cases, cap):
    """All cases are model checked; the binary replays all of them (thorough) or a seed-driven sample that keeps
    at least one case of every (decision rows, level placement, interfaces section) cell (quick)."""
    if len(cases) <= cap:
        return list(range(len(cases)))
    idx = list(range(len(cases)))
    ctx.rng.shuffle(idx)
    chosen, cells = [], set()
    for i in idx:                       # one per cell first
        cell = sel_cell(cases[i])
        if cell not in cells:
            cells.add(cell)
            chosen.append(i)
    have = set(chosen)
    for i in idx:
        if len(chosen) >= cap:
            break
        if i not in have:
            chosen.append(i)
    return sorted(chosen)


def sel_batches(cases, chosen, cap=70):
    """Cases with the same top-level record and the same exit class share one world."""
    groups = defaultdict(list)
    for ci in chosen:
        c = cases[ci]
        groups[(json.dumps(c["R"], sort_keys=True), c["expect"]["exit"])].append((ci, c))
    batches = []
    for key in sorted(groups):
        g = groups[key]
        for j in range(0, len(g), cap):
            batches.append(g[j:j + cap])
    return batches


def sel_run(ctx, wi, batch, decls):
    d = build_sel_world(ctx, wi, batch, decls)
    res = run_bin(ctx, d, timeout=300)
    return wi, batch, d, res, read_probe_tree(d / "out") if not res.timed_out else {}


def sel_judge(ctx, cases, results):
    all_events = []
    n_cases = 0
    sample_done = 0
    for wi, batch, d, res, tree in results:
        if res.timed_out:
            raise MachineryError(f"mockery timed out on selection world {wi}")
        if res.panicked:
            ctx.violation({"kind": "selection-panic"}, {"world": wi, "run": res.brief(), "cases": [c for _, c in batch][:3]})
            continue
        alone = all(c["expect"]["exit"] == "zero" for _, c in batch)
        if alone and res.code != 0:
            ctx.violation({"kind": "selection-exit", "exit": res.code},
                          {"world": wi, "run": res.brief(), "R": batch[0][1]["R"], "n_cases": len(batch),
                           "why": "every configured interface exists, the run must succeed"})
        by_pkg_ev = defaultdict(list)
        for e in res.trace:
            if e.get("ev") in ("Select", "Collect") and "pkg" in e:
                by_pkg_ev[e["pkg"]].append(e)
        known = set()
        conf_pkgs = None
        for ci, c in batch:
            name = f"c{ci:05d}"
            rel = f"{MOD}/{name}"
            known.add(rel)
            recs = tree.get(rel, [])
            n_cases += 1
            v = sel_case_verdict(c, recs, res.code == 0)
            if v:
                sig, det = v
                eff_all = c["P"]["all"] if c["P"]["all"] != UNSET else "top:" + c["R"]["all"]
                sig = {"kind": "selection", **sig, "all": eff_all}
                if conf_pkgs is None:
                    conf_pkgs = json.loads((d / ".mockery.yml").read_text())["packages"]
                det.update({"R": c["R"], "P": c["P"], "L": c["L"], "exit": res.code, "package": rel, "config": conf_pkgs[rel],
                            "top_level": sel_level(c["R"])})
                ctx.violation(sig, det)
            elif sample_done < 3 and c["expect"]["mocks"] and (c["L"] or c["P"]["inc"] not in (UNSET, "")) and ci % 7 == 0:
                sample_done += 1
                ctx.sample({"selection_case": {"R": c["R"], "P": c["P"], "L": c["L"]}, "contract_mocks": c["expect"]["mocks"],
                            "observed": sorted((r_["iface"], r_["entry"], r_["struct"]) for r_ in recs)})
            all_events += sel_trace_events(c, ci, by_pkg_ev.get(rel, []), res.code, alone, entry_of_struct)
        for rel in tree:
            if rel not in known:
                ctx.violation({"kind": "unconfigured-package-mocked", "part": "selection"},
                              {"package": rel, "records": tree[rel][:5], "world": wi})
        for pkg in by_pkg_ev:
            if pkg not in known:
                ctx.violation({"kind": "unconfigured-package-selected", "part": "selection"}, {"package": pkg, "world": wi})
    ctx.cov["evaluations"] += n_cases
    ctx.cov["selection_cases_replayed"] = n_cases
    ctx.cov["selection_worlds_run"] = len(results)
    return all_events


# ---------------------------------------------------------------------------------------------- Part B: recursive
LAB = ["r", "a", "b", "c", "d"]
REC_PROBE = (PROBES / "recursive.templ").read_text()


def node_paths(c):
    """relative directory of every node (labels come from the spec: PathLabels)."""
    return ["/".join(e["labels"]) for e in c["expect"]]


def rec_world_files(c, wdir):
    """Concretise one Recursive.tla world below <module>/<wdir>/."""
    W = c["W"]
    files = {}
    rels = node_paths(c)
    for k in range(W["n"]):
        kind, rel = W["kind"][k], f"{wdir}/{rels[k]}"
        # every other world gives ALL its packages the same package name (directory names and import paths still differ)
        pkgname = "samename" if wdir[-1] in "02468" else "p" + LAB[k]
        src = f"package {pkgname}\n\ntype I{LAB[k]} interface{{ M{LAB[k]}(x int) error }}\n\ntype S{LAB[k]} struct{{}}\n"
        if kind == "go":
            files[f"{rel}/x.go"] = src
        elif kind == "test":
            files[f"{rel}/x_test.go"] = src
        elif kind == "empty":
            files[f"{rel}/README.txt"] = "no go files here\n"
        elif kind == "tagged":
            files[f"{rel}/x.go"] = "//go:build verifnever\n\n" + src
        elif kind in ("testdata", "under", "dot", "vendor"):
            files[f"{rel}/x.go"] = src
        elif kind == "submod":
            files[f"{rel}/x.go"] = src
            files[f"{rel}/go.mod"] = f"module {MOD}/{rel}\n\ngo 1.23\n"
        else:
            raise MachineryError("unknown node kind " + kind)
    return files, rels


def rec_pkg_config(c, k, wdir, extra=None):
    W = c["W"]
    conf = {"template-data": {"marker": f"{wdir}:{k + 1}"}}
    if W["rec"][k] != "U":
        conf["recursive"] = W["rec"][k] == "T"
    if W["all"][k] != "U":
        conf["all"] = W["all"][k] == "T"
    if W["sn"][k]:
        conf["structname"] = f"N{k + 1}{{{{.InterfaceName}}}}"
    if W["excl"][k]:
        conf["exclude-subpkg-regex"] = c["patterns"][W["excl"][k] - 1]
    if extra:
        conf.update(extra)
    return conf


def rec_root_config(c):
    root = c["W"]["root"]
    conf = {}
    if root["rec"] != "U":
        conf["recursive"] = root["rec"] == "T"
    if root["all"] != "U":
        conf["all"] = root["all"] == "T"
    if root["excl"]:
        conf["exclude-subpkg-regex"] = c["patterns"][root["excl"] - 1]
    return conf


def build_rec_world(ctx, bi, batch, tag="rec"):
    d = ctx.scratch / f"{tag}{bi}"
    d.mkdir()
    (d / "go.mod").write_text(GOMOD)
    pkgs, index = {}, {}
    files = {}
    for ci, c in batch:
        wdir = f"w{ci:05d}"
        f, rels = rec_world_files(c, wdir)
        files.update(f)
        for k in range(c["W"]["n"]):
            path = f"{MOD}/{wdir}/{rels[k]}"
            index[path] = (ci, k + 1)
            if c["W"]["on"][k]:
                pkgs[path] = {"config": rec_pkg_config(c, k, wdir)}
    write_files(d, files)
    (d / "probe.templ").write_text(REC_PROBE)
    conf = {"template": "file://" + str(d / "probe.templ"), "require-template-schema-exists": False,
            "formatter": "noop", "dir": str(d / "out") + "/{{.SrcPackagePath}}", "filename": "mocks.txt",
            "pkgname": "out", "packages": pkgs}
    conf.update(rec_root_config(batch[0][1]))
    (d / ".mockery.yml").write_text(json.dumps(conf, indent=1))
    return d, index


def rec_project_events(trace, index, cases_in_batch):
    """Per world: the Initialize events that concern its packages, passes delimited by begin/end."""
    per = {ci: [] for ci, _ in cases_in_batch}

    def node(path, ci):
        w, k = index.get(path, (None, 0))
        return k if w == ci else 0

    for e in trace:
        ev = e.get("ev")
        if ev == "InitBegin":
            for ci in per:
                per[ci].append({"op": "begin"})
        elif ev == "InitEnd":
            for ci in per:
                per[ci].append({"op": "end"})
        elif ev in ("InitPkg", "Recursive"):
            w = index.get(e["pkg"], (None, 0))[0]
            if w in per:
                per[w].append({"op": "initpkg" if ev == "InitPkg" else "recursive", "k": node(e["pkg"], w)})
        elif ev in ("Exclude", "Inject"):
            w = index.get(e["parent"], (None, 0))[0]
            if w in per:
                rec = {"op": ev.lower(), "a": node(e["parent"], w), "k": node(e["sub"], w)}
                if ev == "Inject":
                    rec["existed"] = bool(e["existed"])
                per[w].append(rec)
    return per


def rec_check_table(c, table, label, only=None):
    """table: node index (1-based) -> None | {"src": int, "all": bool, "structname": str}; compare with the contract."""
    out = []
    W = c["W"]
    for k in range(1, W["n"] + 1):
        if only is not None and k != only:
            continue
        exp = c["expect"][k - 1]
        t = table.get(k)
        src = t["src"] if t else 0
        if src not in exp["allowed"]:
            diff = "added" if (0 in exp["allowed"] and len(exp["allowed"]) == 1) else ("missing" if src == 0 else "wrong-settings-source")
            out.append(({"diff": diff, "node_kind": W["kind"][k - 1], "configured": bool(W["on"][k - 1]), "at": label},
                        {"node": k, "path": "/".join(exp["labels"]), "observed_source": src, "allowed_sources": exp["allowed"]}))
            continue
        if t and src:
            st = c["expect"][src - 1]["settings"]
            want_sn = st["prefix"] + "{{.InterfaceName}}" if st["prefix"] != "Mock" else "{{.Mock}}{{.InterfaceName}}"
            if "all" in t and bool(t["all"]) != bool(st["all"]):
                out.append(({"diff": "setting-all", "node_kind": W["kind"][k - 1], "configured": bool(W["on"][k - 1]), "at": label},
                            {"node": k, "source": src, "observed_all": t["all"], "contract_all": st["all"]}))
            if "structname" in t and t["structname"] not in (want_sn, st["prefix"] + "I" + LAB[k - 1]):
                out.append(({"diff": "setting-structname", "node_kind": W["kind"][k - 1], "configured": bool(W["on"][k - 1]), "at": label},
                            {"node": k, "source": src, "observed": t["structname"], "contract_prefix": st["prefix"]}))
    return out


def marker_node(m, wdir):
    if isinstance(m, str) and m.startswith(wdir + ":"):
        try:
            return int(m.split(":")[1])
        except ValueError:
            return -1
    return -1


def first_sibling(W, k):
    """0-based k -> 0-based index of the first directory with the same parent, or None (FirstSibling of Recursive.tla)."""
    for j in range(k):
        if W["par"][j] == W["par"][k]:
            return j
    return None


def is_rec(W, k):
    return W["on"][k] and (W["rec"][k] == "T" or (W["rec"][k] == "U" and W["root"]["rec"] == "T"))


def prefix_named(c, pred):
    """some directory is named like its first sibling plus a suffix ("a" / "ax") and pred(W, sibling, node) holds"""
    W = c["W"]
    return any(W["ext"][k] and first_sibling(W, k) is not None and pred(W, first_sibling(W, k), k) for k in range(W["n"]))


REC_GUARDS = {
    # path-prefix confusion: "r/a" vs "r/ax" -- neither contains the other, but one path is a string prefix of the other
    "a sibling named <nested recursive package>x": lambda c: prefix_named(
        c, lambda W, j, k: is_rec(W, j) and W["par"][j] and is_rec(W, W["par"][j] - 1) and W["kind"][k] == "go" and not W["on"][k]),
    "a recursive package named <plain sibling>x": lambda c: prefix_named(c, lambda W, j, k: is_rec(W, k)),
    "a sibling named <excluded package>x": lambda c: prefix_named(
        c, lambda W, j, k: W["kind"][k] == "go" and c["expect"][j]["allowed"] == [0] and c["expect"][k]["allowed"] != [0] and W["kind"][j] == "go"),
    "a sibling named <configured package>x below a recursive package": lambda c: prefix_named(
        c, lambda W, j, k: W["on"][j] and not W["on"][k] and c["expect"][k]["allowed"] != [0]),
    # exclusion lists whose entries would interact if concatenated; names that differ from an entry only in case
    "a multi-entry exclusion list with an inline flag is in force": lambda c: any(
        v in (7, 9) for v in [c["W"]["root"]["excl"]] + c["W"]["excl"]) and any("T" == r_ for r_ in c["W"]["rec"] + [c["W"]["root"]["rec"]]),
    "an upper-case directory below a recursive package with a multi-entry list": lambda c: any(c["W"]["up"]) and any(
        v >= 5 for v in [c["W"]["root"]["excl"]] + c["W"]["excl"]) and any(
        c["W"]["up"][k] and c["W"]["kind"][k] == "go" and e["allowed"] != [0] for k, e in enumerate(c["expect"])),
    "an upper-case directory is excluded by a (?i) entry": lambda c: any(
        c["W"]["up"][k] and c["W"]["kind"][k] == "go" and e["allowed"] == [0] and e["recanc"] for k, e in enumerate(c["expect"])),
    "unrelated recursive packages next to a nested pair": lambda c: sum(1 for k in range(c["W"]["n"]) if is_rec(c["W"], k)) >= 3 and any(
        len(e["recanc"]) >= 2 for e in c["expect"]),
    "several top-level packages": lambda c: sum(1 for p_ in c["W"]["par"] if p_ == 0) >= 2 and sum(c["W"]["on"]) >= 2,
    "a sub-package is added": lambda c: any(not c["W"]["on"][k] and e["allowed"] != [0] and e["strict"] for k, e in enumerate(c["expect"])),
    "a sub-package with Go files is excluded": lambda c: any(
        e["allowed"] == [0] and c["W"]["kind"][k] == "go" and e["strict"] and (c["W"]["root"]["excl"] or any(c["W"]["excl"]))
        and ("T" in c["W"]["rec"] or c["W"]["root"]["rec"] == "T") for k, e in enumerate(c["expect"])),
    "a recursive package whose own directory has no Go files": lambda c: rootless(c),
    "a container package (no Go files of its own) with a sub-package that has Go files": lambda c: rootless(c) and not c.get("mayfail") and any(
        not c["W"]["on"][k] and e["strict"] and e["allowed"] != [0] for k, e in enumerate(c["expect"])),
    "a test-only directory below a recursive package": lambda c: "test" in c["W"]["kind"],
    "a directory go list hides (testdata, _x, .x, vendor, nested module)": lambda c: any(k_ in c["W"]["kind"] for k_ in ("testdata", "under", "dot", "vendor", "submod")),
    "nested recursive packages": lambda c: sum(1 for k in range(c["W"]["n"]) if c["W"]["on"][k] and c["W"]["rec"][k] == "T") >= 2,
    "a configured package below a recursive one": lambda c: any(c["W"]["on"][k] and c["W"]["par"][k] and c["W"]["on"][c["W"]["par"][k] - 1]
                                                                and c["W"]["rec"][c["W"]["par"][k] - 1] == "T" for k in range(c["W"]["n"])),
    "an unconfigured package below two nested recursive packages": lambda c: any(
        not c["W"]["on"][k] and len(e["recanc"]) >= 2 and e["strict"] and len(e["allowed"]) == 1 and e["allowed"][0] != 0
        for k, e in enumerate(c["expect"])),
    "an open case (nearest excludes, farther admits)": lambda c: any(len(e["allowed"]) > 1 and e["strict"] for e in c["expect"]),
    "package-level exclusion differs from top level": lambda c: bool(c["W"]["root"]["excl"]) and any(c["W"]["excl"]),
    "settings inherited from a grand-parent": lambda c: any(len(e["allowed"]) == 1 and e["allowed"][0] not in (0, k + 1, c["W"]["par"][k])
                                                             for k, e in enumerate(c["expect"])),
}


def rec_model(ctx, tlc_results, thorough):
    cases = []
    for fam, r in tlc_results:
        if r.violated:
            ctx.note(f"model-level: {r.violated} violated on Recursive/{fam} (prediction only; the replay decides)")
        elif not r.ok:
            raise MachineryError(f"TLC failed on Recursive/{fam}:\n" + r.tail())
        if thorough:
            z = final_coverage_zero(r, ["Recursive"])
            if z:
                raise MachineryError(f"vacuous: actions of Recursive.tla never taken in family {fam}: {z}")
        uniq = {}
        for c in r.prints("CASE"):                  # TLC may evaluate the exporting constraint twice for a state
            uniq.setdefault(json.dumps(c["W"], sort_keys=True), c)
        for c in uniq.values():
            c["family"] = fam
        cases += list(uniq.values())
    cases.sort(key=lambda c: json.dumps(c["W"], sort_keys=True))
    if len(cases) < 1500:
        raise MachineryError(f"Recursive exported only {len(cases)} worlds: vacuous")
    for name, pred in REC_GUARDS.items():
        if not any(pred(c) for c in cases):
            raise MachineryError("vacuous: no exported world where " + name)
    ctx.cov["recursive_model_impl_vs_contract_disagreements"] = sum(
        1 for c in cases for k, e in enumerate(c["expect"]) if c["impl"][k]["src"] not in e["allowed"])
    # ---- abstraction table: PatMatch (TLA+) vs Go regexp on the concrete paths
    pats = sorted({p for c in cases[:50] for lst in c["patterns"] for p in lst})
    subj = sorted({f"{MOD}/w00000/" + "/".join(e["labels"]) for c in cases for e in c["expect"]})
    real = rematch(ctx, pats, subj)
    for c in cases:
        for e in c["expect"]:
            path = f"{MOD}/w00000/" + "/".join(e["labels"])
            for xi, lst in enumerate(c["patterns"]):
                got = any(real[p][path] for p in lst)
                if got != e["xm"][xi]:
                    raise MachineryError(f"Recursive.tla PatMatch disagrees with Go regexp: list {lst} on {path}: spec {e['xm'][xi]}, go {got}")
    return cases


def rec_choose(ctx, cases, cap):
    """Every world is checked at model level; the binary replays all of them when they fit, otherwise a quota per
    interesting situation and a seed-driven sample of the rest."""
    if len(cases) <= cap:
        return list(range(len(cases)))
    chosen = set()
    idx = list(range(len(cases)))
    ctx.rng.shuffle(idx)
    for name, pred in REC_GUARDS.items():
        got = 0
        for i in idx:
            if got >= max(25, cap // 40):
                break
            if pred(cases[i]):
                chosen.add(i)
                got += 1
    for i in idx:
        if len(chosen) >= cap:
            break
        chosen.add(i)
    return sorted(chosen)


def rootless(c):
    """a configured (recursive) package whose own directory has no Go files"""
    return any(c["W"]["on"][k] and c["W"]["kind"][k] != "go" for k in range(c["W"]["n"]))


def rec_batches(cases, chosen, cap=60):
    groups = defaultdict(list)
    for ci in chosen:
        # worlds whose exit status the contract leaves open (mayfail) never share a run with the others
        groups[(json.dumps(cases[ci]["W"]["root"], sort_keys=True), bool(cases[ci].get("mayfail")))].append((ci, cases[ci]))
    batches = []
    for key in sorted(groups):
        g = groups[key]
        for j in range(0, len(g), cap):
            batches.append(g[j:j + cap])
    return batches


def rec_run(ctx, bi, batch):
    d, index = build_rec_world(ctx, bi, batch)
    sc = run_bin(ctx, d, args=("showconfig",), timeout=600, tag="sc")
    res = run_bin(ctx, d, timeout=600, tag="run")
    tree = read_probe_tree(d / "out") if not res.timed_out else {}
    return bi, batch, d, index, sc, res, tree


def rec_world_verdict(c, wdir, shown, tree):
    """Compare the package table printed by showconfig (after the first Initialize) and the mocks written by the
    run (after the second) with the contract's allowed settings sources.  Returns [(sig, detail)]."""
    rels = node_paths(c)
    W = c["W"]
    t_sc, t_run, problems = {}, {}, []
    for k in range(1, W["n"] + 1):
        path = f"{MOD}/{wdir}/{rels[k - 1]}"
        if path in shown:
            conf = (shown[path] or {}).get("config") or {}
            t_sc[k] = {"src": marker_node((conf.get("template-data") or {}).get("marker"), wdir),
                       "all": conf.get("all"), "structname": conf.get("structname")}
        if path in tree:
            recs = tree[path]
            srcs = {marker_node(r_["marker"], wdir) for r_ in recs}
            names = Counter(r_["iface"] for r_ in recs)
            if len(srcs) != 1 or names != Counter({"I" + LAB[k - 1]: 1}):
                problems.append(({"diff": "mock-multiset", "node_kind": W["kind"][k - 1], "configured": bool(W["on"][k - 1]), "at": "run"},
                                 {"node": k, "records": recs, "why": "one interface, one mock, one settings source"}))
                continue
            t_run[k] = {"src": srcs.pop(), "all": True, "structname": recs[0]["struct"]}
    problems += rec_check_table(c, t_sc, "showconfig")
    # after the run: a package is mocked iff it is in the table with all = true
    for k in range(1, W["n"] + 1):
        exp = c["expect"][k - 1]
        base = {"node_kind": W["kind"][k - 1], "configured": bool(W["on"][k - 1]), "at": "run"}
        if k in t_run:
            src = t_run[k]["src"]
            if src <= 0 or src not in exp["allowed"] or not c["expect"][src - 1]["settings"]["all"]:
                problems.append(({"diff": "mocked-but-not-selected", **base},
                                 {"node": k, "observed_source": src, "allowed_sources": exp["allowed"]}))
            else:
                problems += rec_check_table(c, {k: t_run[k]}, "run", only=k)
        elif exp["strict"] and W["kind"][k - 1] == "go":
            must = [s_ for s_ in exp["allowed"] if s_ and c["expect"][s_ - 1]["settings"]["all"]]
            if 0 not in exp["allowed"] and len(must) == len(exp["allowed"]):
                problems.append(({"diff": "not-mocked", **base}, {"node": k, "allowed_sources": exp["allowed"]}))
    return problems, t_sc, t_run


def rec_judge(ctx, cases, results):
    import yaml
    all_events = []
    n_worlds = 0
    sampled = 0
    for bi, batch, d, index, sc, res, tree in results:
        if res.timed_out or sc.timed_out:
            raise MachineryError(f"mockery timed out on recursive batch {bi}")
        for rr, what in ((sc, "showconfig"), (res, "run")):
            if rr.panicked:
                ctx.violation({"kind": "recursive-panic", "cmd": what}, {"batch": bi, "run": rr.brief()})
        if sc.code != 0 or res.code != 0:
            if all(c.get("mayfail") for _, c in batch):
                ctx.cov["recursive_worlds_with_open_exit_status_that_failed"] = ctx.cov.get("recursive_worlds_with_open_exit_status_that_failed", 0) + len(batch)
                continue                     # a configured package with nothing to mock anywhere: failing is allowed
            # the world the error message names (a batch holds many): that one goes into the replay file
            failing = None
            for m in re.finditer(r"/(w\d{5,})/", (sc if sc.code != 0 else res).err + (sc if sc.code != 0 else res).out):
                failing = next(((ci, c) for ci, c in batch if f"w{ci:05d}" == m.group(1)), None)
                if failing:
                    break
            fw = failing[1] if failing else batch[0][1]
            ctx.violation({"kind": "recursive-exit", "cmd": "showconfig" if sc.code != 0 else "run",
                           "recursive_package_without_go_files": rootless(fw)},
                          {"batch": bi, "showconfig": sc.brief(), "run": res.brief(), "W": fw["W"], "paths": node_paths(fw),
                           "world_named_by_the_error": bool(failing), "world_dir": f"w{failing[0]:05d}" if failing else None,
                           "why": "every configured package of this run has Go files of its own or, being recursive, in a "
                                  "sub-package go list finds: the run must succeed"})
            continue
        try:
            shown = yaml.safe_load(sc.out)["packages"] or {}
        except Exception as ex:  # noqa: BLE001
            raise MachineryError(f"showconfig output not YAML: {ex}: {sc.out[:300]}")
        ev_sc = rec_project_events(sc.trace, index, batch)
        ev_run = rec_project_events(res.trace, index, batch)
        for path in list(shown) + list(tree):
            if path not in index:
                ctx.violation({"kind": "unconfigured-package-mocked", "part": "recursive"}, {"package": path, "batch": bi})
        conf_pkgs = None
        for ci, c in batch:
            n_worlds += 1
            wdir = f"w{ci:05d}"
            problems, t_sc, t_run = rec_world_verdict(c, wdir, shown, tree)
            for sig, det in problems:
                sig = {"kind": "recursive", "family": c["family"], **sig}
                if conf_pkgs is None:
                    conf_pkgs = json.loads((d / ".mockery.yml").read_text())["packages"]
                det.update({"W": c["W"], "paths": node_paths(c),
                            "expect": [{"allowed": e["allowed"], "settings": e["settings"]} for e in c["expect"]],
                            "config": {p_: v for p_, v in conf_pkgs.items() if f"/{wdir}/" in p_}, "top_level": rec_root_config(c)})
                ctx.violation(sig, det)
            if not problems and sampled < 2 and REC_GUARDS["settings inherited from a grand-parent"](c) and sum(c["W"]["on"]) >= 2:
                sampled += 1
                ctx.sample({"recursive_world": {"paths": node_paths(c), **c["W"]}, "contract_allowed_sources": [e["allowed"] for e in c["expect"]],
                            "showconfig_sources": {k: v["src"] for k, v in t_sc.items()}, "mock_sources": {k: v["src"] for k, v in t_run.items()}})
            for tag_, evs in (("sc", ev_sc[ci]), ("run", ev_run[ci])):
                cid = f"{ci}:{tag_}"
                all_events.append({"op": "reset", "case": cid, "W": c["W"]})
                all_events += [dict(e, case=cid) for e in evs]
                all_events.append({"op": "fin", "case": cid})
    ctx.cov["evaluations"] += n_worlds
    ctx.cov["recursive_worlds_replayed"] = n_worlds
    ctx.cov["recursive_batches_run"] = len(results)
    return all_events


def thin(ctx, events, cap):
    ids = sorted({e["case"] for e in events}, key=str)
    if len(ids) <= cap:
        return events
    ctx.rng.shuffle(ids)
    keep = set(ids[:cap])
    return [e for e in events if e["case"] in keep]


def run(ctx):
    thorough = ctx.thorough()
    tier = "thorough" if thorough else "quick"
    t0 = time.time()
    # ---- 1. model checking (three TLC runs in parallel) while the binary and the regexp driver are built
    def builds():
        ctx.mockery()
        ctx.build_driver("rematch")
    with cf.ThreadPoolExecutor(max_workers=5) as ex:
        fb = ex.submit(builds)
        fs = ex.submit(tlc_job, ctx, "sel", "SelectionMC", f"Selection_{tier}.cfg", 4 if not thorough else 6, 2400, thorough)
        fd = ex.submit(tlc_job, ctx, "disc", "Recursive", f"Recursive_discovery_{tier}.cfg", 3 if not thorough else 5, 2400, thorough)
        fi = ex.submit(tlc_job, ctx, "inh", "Recursive", f"Recursive_inherit_{tier}.cfg", 3 if not thorough else 5, 2400, thorough)
        fp = ex.submit(tlc_job, ctx, "deep", "Recursive", f"Recursive_deep_{tier}.cfg", 3 if not thorough else 4, 2400, thorough)
        fb.result()
        r_sel, r_disc, r_inh, r_deep = fs.result(), fd.result(), fi.result(), fp.result()
    for r in (r_sel, r_disc, r_inh, r_deep):
        ctx.cov["states"] += r.distinct
        ctx.cov["transitions"] += r.generated
    tick(ctx, "tlc_and_build", t0)
    t0 = time.time()
    if thorough:
        z = final_coverage_zero(r_sel, ["Selection"])
        if z:
            raise MachineryError(f"vacuous: actions of Selection.tla never taken: {z}")
    sel_cases, decls = sel_model(ctx, r_sel)
    rec_cases = rec_model(ctx, [("discovery", r_disc), ("inherit", r_inh), ("deep", r_deep)], thorough)
    tick(ctx, "parse_exports", t0)
    # ---- 2. replay through the binary
    sel_chosen = sel_choose(ctx, sel_cases, len(sel_cases) if thorough else 1400)
    rec_chosen = rec_choose(ctx, rec_cases, 7000 if thorough else 600)
    if ctx.replay:
        sel_chosen, rec_chosen = replay_filter(ctx, sel_cases, rec_cases)
    t0 = time.time()
    jobs = [("rec", bi, b) for bi, b in enumerate(rec_batches(rec_cases, rec_chosen))] + \
           [("sel", wi, b) for wi, b in enumerate(sel_batches(sel_cases, sel_chosen))]

    def do(job):
        kind, i, batch = job
        return (kind, sel_run(ctx, i, batch, decls)) if kind == "sel" else (kind, rec_run(ctx, i, batch))

    results = par_map(do, jobs, workers=14)
    tick(ctx, "runs", t0)
    t0 = time.time()
    sel_events = sel_judge(ctx, sel_cases, [r for k, r in results if k == "sel"])
    rec_events = rec_judge(ctx, rec_cases, [r for k, r in results if k == "rec"])
    tick(ctx, "judge", t0)
    # ---- 3. code -> spec: hook traces against the contract
    t0 = time.time()
    sel_events = thin(ctx, sel_events, 20000 if thorough else 900)
    rec_events = thin(ctx, rec_events, 20000 if thorough else 1200)
    if sel_events:
        def flip_gen(evs):
            for e in evs:
                if e["op"] == "select" and e["gen"]:
                    e["gen"] = False
                    return evs
            return None

        def drop_collect(evs):
            if evs[-1].get("exit") != 0:
                return None
            for n_, e in enumerate(evs):
                if e["op"] == "collect":
                    return evs[:n_] + evs[n_ + 1:]
            return None
        corrupted = []
        for nm, fn in (("select-decision-flipped", flip_gen), ("collect-event-dropped", drop_collect)):
            for cid in sorted({e["case"] for e in sel_events}):
                cc = corrupt_case(sel_events, cid, nm, fn) if sel_cases[cid]["expect"]["exit"] == "zero" and sel_cases[cid]["expect"]["mocks"] else []
                if cc:
                    corrupted += cc
                    break
        n_ok, rej = validate_with_selftest(ctx, "SelectionTrace", "SelectionTrace.cfg", sel_events, "selection", corrupted)
        ctx.cov["traces_validated_against_impl"] += n_ok + len(rej)
        for rj in rej:
            c = sel_cases[rj["case"]]
            ctx.violation({"kind": "selection-trace", "op": rj["at"]["op"], "iface": rj["at"].get("iface", "")},
                          {"rejected_at": rj["at"], "events": rj["events"], "R": c["R"], "P": c["P"], "L": c["L"],
                           "contract": "spec/SelectionTrace.tla"})
    if rec_events:
        def flip_existed(evs):
            for e in evs:
                if e["op"] == "inject" and not e["existed"]:
                    e["existed"] = True
                    return evs
            return None

        def drop_inject(evs):
            for n_, e in enumerate(evs):
                if e["op"] == "inject" and not e["existed"]:
                    return evs[:n_] + evs[n_ + 1:]
            return None

        def wrong_parent(evs):
            for e in evs:
                if e["op"] == "inject" and not e["existed"] and e["a"] != 1:
                    e["a"] = 1
                    return evs
            return None
        corrupted = []
        strict_single = lambda c: all(len(e["allowed"]) == 1 for e in c["expect"])  # noqa: E731
        for nm, fn in (("inject-existed-flipped", flip_existed), ("inject-event-dropped", drop_inject), ("inject-from-wrong-ancestor", wrong_parent)):
            for cid in sorted({e["case"] for e in rec_events}):
                c = rec_cases[int(cid.split(":")[0])]
                if not strict_single(c) or (nm == "inject-from-wrong-ancestor" and not REC_GUARDS["an unconfigured package below two nested recursive packages"](c)):
                    continue
                cc = corrupt_case(rec_events, cid, nm, fn)
                if cc:
                    corrupted += cc
                    break
        n_ok, rej = validate_with_selftest(ctx, "RecursiveTrace", "RecursiveTrace.cfg", rec_events, "recursive", corrupted)
        ctx.cov["traces_validated_against_impl"] += n_ok + len(rej)
        for rj in rej:
            ci = int(str(rj["case"]).split(":")[0])
            ctx.violation({"kind": "recursive-trace", "op": rj["at"]["op"], "cmd": str(rj["case"]).split(":")[1]},
                          {"rejected_at": rj["at"], "events": rj["events"], "W": rec_cases[ci]["W"], "paths": node_paths(rec_cases[ci]),
                           "allowed_sources": [e["allowed"] for e in rec_cases[ci]["expect"]], "contract": "spec/RecursiveTrace.tla"})
    tick(ctx, "trace_validation", t0)
    t0 = time.time()
    whole = [r[3] for k, r in results if k == "sel"] + [x for k, r in results if k == "rec" for x in (r[4], r[5])]
    run_level_trace(ctx, "C07", whole, 200000 if thorough else 30000)
    tick(ctx, "run_level_trace", t0)
    ctx.cov["distinct_nontrivial"] = len(sel_cases) + len(rec_cases)
    ctx.cov["recursive_worlds_exported"] = len(rec_cases)
    ctx.cov["recursive_export_rule"] = "every world is model checked; those with WHash % ExportMod = 0 (cfg) are exported for replay"
    ctx.cov["rule"] = ("one case = one package configuration over the all-kinds package (Selection) or one package tree + "
                       "configuration (Recursive); all are model checked, the binary replays every Selection case and "
                       "the stated number of Recursive worlds")
    ctx.assumptions += [
        "regexes are drawn from a small pattern universe; its Match tables are recomputed with Go's regexp at start-up",
        "declarations the statement does not decide (aliases of interfaces, `type X Y` over a named interface, "
        "constraint-only interfaces, _test.go declarations) may be mocked or not, but never more than once per entry",
        "directories `go list ./...` hides (testdata, _x, .x, vendor, nested module) and directories whose files are all "
        "excluded by build constraints may or may not count as sub-packages",
        "a sub-package excluded by its nearest recursive ancestor but admitted by a farther one may be absent or carry the "
        "settings of an admitting ancestor",
        "small scope: trees of at most 4 (quick) / 5 (thorough) directories (every directory kind and exclusion placement "
        "up to 3 / 4, recursion-only configurations at 4 / 5), at most 3 configured packages",
    ]
    return {"level": "model_checking", "exhaustive": len(rec_chosen) == len(rec_cases) and not ctx.replay}


def replay_filter(ctx, sel_cases, rec_cases):
    """--replay <file>: re-run exactly the failing case (the expectation is recomputed by TLC, not read back)."""
    det = json.loads(Path(ctx.replay).read_text())["detail"]
    if "W" in det:
        idx = [i for i, c in enumerate(rec_cases) if c["W"] == det["W"]]
        return [], idx
    if "R" in det:
        idx = [i for i, c in enumerate(sel_cases) if (c["R"], c["P"], c["L"]) == (det["R"], det["P"], det["L"])]
        return idx, []
    raise MachineryError("replay file has neither a Selection case nor a Recursive world")


def guarded(fn):
    """An operating-system failure of the harness itself (disk full, too many processes, ...) is a machinery error
    (exit 2), never a Python traceback with exit status 1."""
    def wrapped(ctx):
        try:
            return fn(ctx)
        except OSError as ex:
            raise MachineryError(f"operating system error in the harness: {ex!r}")
    return wrapped


if __name__ == "__main__":
    main("C07", guarded(run))
