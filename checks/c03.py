#!/usr/bin/env python3
"""C03 -- testify-style generated mocks route arguments, callbacks and return values faithfully.

1. TLC checks spec/TestifyMock.tla (contract layer = property C03; code-shaped layer = mock_testify.templ on
   top of testify v1.10.0's expectation store) over signature classes x Expect/Call/Cleanup histories and
   exports every generated Call/Cleanup transition with a representative history; the expected reply of every
   step is computed by the contract operators in TLA+ and exported with the case.
2. For every signature class a source interface is written, the REAL mockery (built from the working tree)
   generates the testify mock (unroll-variadic true/false/unset through template-data), a Go driver
   (drivers/testifydrv/rt + one generated adapter per class) is linked against ALL fresh mocks and replays the
   behaviours with a recording TestingT; each step logs reply | panic | failnow, callbacks and Errorf.
   Every class is mocked three times: into an output file of its own, and into two SHARED output files together
   with the other classes (different template-data per mock, interleaved by unroll setting; one file in that
   name order, one in the reverse order), so per-file template state leaking between mocks is observable.
3. Python compares step by step with the exported expectation; the whole op log, plus long random histories
   that TLC did not produce, is validated by TLC against spec/TestifyMockTrace.tla (contract acceptance).
   Verdicts come from TLC's judgement of real replies; the Python comparison must agree (self-consistency).

COVERAGE TABLE (property clause / quantifier dimension -> where it is explored -> what stays a single point or absent)

  methods: arity, kinds      -> TestifyMockMC classes: arity 0..3 (+variadic); kinds string int bool struct | ptr slice
                                named-slice map func chan named-iface any error; generic I[K comparable, V any]
                                (K, V in parameters, variadics and results); 1..2 methods per mock (same signature);
                                shared-file layouts add never-called methods of OTHER shapes before and after.
                                ABSENT: arity > 3, types of third packages / replace-type (C13), arrays, named func
                                types, embedded interfaces, in-package mocks (qualifier logic is C01/C02), >2 methods.
  parameter / result names   -> template-sensitive names that compile today (ok ret run args returnFunc _a0 mock m _m _c
                                variadicArgs i a _ Run Return RunAndReturn Call On); named results (ok, run).
                                ABSENT: names that do not compile (C01).
  values incl. nil/zero      -> V0 nil/zero everywhere, V1/V2 distinct PER POSITION, V3 nil look-alikes (typed nil pointer in
                                an interface-kind value, empty non-nil slice/map) as arguments, variadic... (V0 elements),
                                results; untyped nil for EVERY nillable kind through the raw Call.Return (rawret).
                                SINGLE POINT: V3 only in the all-positions vector; no NaN / uncomparable map keys.
  variadic arguments         -> none / one nil-or-zero element / three elements; absent vs empty vs nil slice spelling;
                                element kinds string int ptr any (+generic V); registration by spread from one reused,
                                overwritten buffer; for ...interface{} / ...any (+generic V) SLICE LOOK-ALIKES as ONE element
                                (a []interface{} value {V1,V2} / empty / {nil} / nil, alone and next to a scalar) under every
                                setup style, matched by Anything, by value in the mock's form and in the other mode's form
                                (Mode "look"; quick: a seeded half of the transitions).  ABSENT: look-alikes at fixed
                                positions / as results, slices of OTHER element types inside ...interface{}.
  setup styles               -> Return, raw Call.Return, Run+Return, Run only, nothing, RunAndReturn, Return(whole
                                function), Return(slice-form function; contract lenient), Return(per-result providers),
                                Return(value, providers...) mixed.  ABSENT: re-configuring one expectation (Return twice),
                                Maybe/Unset/NotBefore/After/WaitUntil/Panic, matchers other than Anything/equal value.
  unroll-variadic settings   -> true / false / unset at interface level, alone in a file and interleaved in shared files in both
                                name orders; a multi-package CONFIG WORLD (TestifyMockMC CfgPkgs: recursive parent with true,
                                explicitly listed sub-package, unrelated sibling without the setting; interface-level overrides),
                                every variadic class mocked where the effective setting is its own.  SINGLE POINT: that one
                                package tree; top level unset (the rest of the inheritance lattice is C08's).
  histories                  -> single: 1 full-alphabet expectation x <= 2 calls; pair: 2 plain expectations (Once) x <= 3
                                calls, registration after calls, exhaustion then the next expectation, 2 methods interleaved;
                                multi: other instances of the mock type on the same TestingT (created before / after, clean /
                                holding an unmet expectation); the test's own Errorf and an unexpected call before cleanup;
                                random histories <= 14 (25) ops with Times(2,3), <= 3 (4) expectations.
                                SINGLE POINT: Times(n>1) exhaustive only in thorough/wide; ABSENT: calls after cleanup,
                                re-entrant calls from callbacks, several goroutines (C05), mocks of DIFFERENT types on one T.
  no match / no return       -> failnow (Errorf > 0, no return) / panic naming exactly the called method (2 methods).
  cleanup                    -> yes / no / either (testify's equal-arguments shortcut left open), independent of Failed().
  TestingT surface           -> the testing.TB methods; ABSENT: a TestingT WITHOUT the optional methods (Failed, Name ...).
"""
import json
import os
import re
import shutil
import subprocess
import sys
import time
from concurrent.futures import ThreadPoolExecutor

sys.path.insert(0, os.path.join(os.path.dirname(__file__), "..", "lib"))
from vlib import MachineryError, TLCResult, SPEC, VERIF, go_env, main, tla_unescape  # noqa: E402

MOD = "example.com/w"
METHODS = ["", "Alpha", "Beta"]
GO = {"string": "string", "int": "int", "bool": "bool", "ptr": "*rt.T", "slice": "[]int", "map": "map[string]int",
      "func": "func() int", "chan": "chan int", "iface": "rt.Rd", "any": "interface{}", "error": "error",
      "nslice": "rt.NS", "struct": "rt.S"}


# --------------------------------------------------------------------------------------------- TLC helper
def run_tlc(ctx, tag, module, cfg_text, *, files=None, workers=1, simulate=None, depth=None, seed=None,
            timeout=900, deadlock=False, dfs=False, coverage=False):
    """Like Ctx.tlc but safe to call from several threads (own directory per tag); cfg given as text."""
    d = ctx.scratch / f"tlc-{tag}"
    d.mkdir(parents=True)
    for f in SPEC.glob("TestifyMock*.tla"):      # only this family's modules (other agents edit spec/ concurrently)
        shutil.copy(f, d / f.name)
    for rel, content in (files or {}).items():
        (d / rel).write_text(content)
    (d / "run.cfg").write_text(cfg_text)
    cmd = ["tlc", "-workers", str(workers), "-metadir", str(d / "meta"), "-config", "run.cfg"]
    if not deadlock:
        cmd.append("-deadlock")
    if coverage:
        cmd += ["-coverage", "1"]
    if simulate:
        cmd += ["-simulate", simulate]
        if depth:
            cmd += ["-depth", str(depth)]
        cmd += ["-seed", str(seed if seed is not None else ctx.seed)]
    cmd.append(module + ".tla")
    env = dict(os.environ)
    jto = env.get("JAVA_TOOL_OPTIONS", "") + " -Xss64m -Xmx4g"
    if dfs:
        jto += " -Dtlc2.tool.queue.IStateQueue=StateDeque"
    env["JAVA_TOOL_OPTIONS"] = jto.strip()
    t = time.time()
    try:
        p = subprocess.run(cmd, cwd=d, env=env, capture_output=True, text=True, timeout=timeout, errors="replace")
    except subprocess.TimeoutExpired:
        subprocess.run(["pkill", "-f", str(d / "meta")], capture_output=True)
        raise MachineryError(f"TLC timed out after {timeout}s on {module}/{tag}")
    res = TLCResult(module, tag, p.returncode, p.stdout + p.stderr, time.time() - t, d)
    if not os.environ.get("VERIF_KEEP"):
        shutil.rmtree(d / "meta", ignore_errors=True)
    return res


def run_tlc_export(ctx, tag, *a, **kw):
    """run_tlc for an exporting job: the CASE lines (large) are parked in a file until their batch is processed."""
    r = run_tlc(ctx, tag, *a, **kw)
    keep, n = [], 0
    with open(ctx.scratch / f"cases-{tag}.txt", "w") as f:
        for ln in r.text.splitlines():
            if '<<"CASE", "' in ln:
                f.write(ln + "\n")
                n += 1
            else:
                keep.append(ln)
    r.text = "\n".join(keep)
    r.cases_file = ctx.scratch / f"cases-{tag}.txt"
    return r


def cfg_text(name, **subst):
    s = (SPEC / "cfg" / name).read_text()
    for k, v in subst.items():
        s, n = re.subn(r"^(\s*)" + re.escape(k) + r"\s*(=|<-).*$", lambda m: f"{m.group(1)}{k} {v}", s, flags=re.M)
        if n != 1:
            raise MachineryError(f"cfg {name}: cannot substitute {k}")
    return s


def gen_module(ids, base="ThoroughClasses"):
    return ("---- MODULE TestifyMockGen ----\nEXTENDS TestifyMockMC\nGenClasses == {c \\in " + base + " : c.id \\in {" +
            ", ".join(json.dumps(i) for i in ids) + "}}\n====\n")


def split(xs, n):
    n = max(1, min(n, len(xs)))
    return [xs[i::n] for i in range(n)]


# --------------------------------------------------------------------------------------------- world
def iface_src(classes, names=None, noise=False):
    """names: optional {class id: interface name} (default I_<id>).  noise: surround the class's methods by
    methods of OTHER shapes that are never called (per-mock template state must not leak between methods)."""
    out = ["package src", "", 'import "example.com/w/rt"', "", "var _ rt.T", ""]
    for c in classes:
        g = (lambda k: {"string": "K", "any": "V"}.get(k, GO[k]) if c.get("gen") else GO[k])
        ps = [f"{n} {g(k)}" for n, k in zip(c["names"], c["pk"])]
        if c["vk"] != "none":
            ps.append(f"{c['names'][-1]} ...{g(c['vk'])}")
        rs = [g(k) for k in c["rk"]]
        if c.get("rn"):
            rs = [f"{n} {t}" for n, t in zip(c["rn"], rs)]
        res = "" if not rs else (" " + rs[0] if len(rs) == 1 and not c.get("rn") else " (" + ", ".join(rs) + ")")
        iname = (names or {}).get(c["id"], "I_" + c["id"])
        out.append(f"type {iname}{'[K comparable, V any]' if c.get('gen') else ''} interface {{")
        if noise:
            out.append("\tAaa(x rt.Rd) (int, error)" if c["vk"] != "none" else "\tAaa(n int, vs ...interface{}) error")
        for m in METHODS[1:c["nm"] + 1]:
            out.append(f"\t{m}({', '.join(ps)}){res}")
        if noise:
            out.append("\tZzz(b bool, more ...string)" if c["rk"] else "\tZzz() (string, error)")
        out.append("}")
        out.append("")
    return "\n".join(out)


def mockery_conf(classes):
    ifs = {}
    for c in classes:
        conf = {"dir": f"mocks/{c['id']}", "pkgname": "m" + c["id"], "structname": "MockI", "filename": "mock.go"}
        if c["unroll"] in ("true", "false"):
            conf["template-data"] = {"unroll-variadic": c["unroll"] == "true"}
        ifs["I_" + c["id"]] = {"config": conf}
    return {"template": "testify", "formatter": "gofmt", "packages": {MOD + "/src": {"interfaces": ifs}}}


def shared_layouts(alive, group=40):
    """Several classes' interfaces with DIFFERENT template-data rendered into ONE output file, in both name
    orders.  The classes are interleaved by their unroll-variadic setting (true, false, unset, true, ...), so
    that within a file every setting both precedes and follows every other one; layout A<g> names the
    interfaces in that order, layout B<g> in the reverse order (mockery renders a file's mocks sorted by
    interface name).  Returns {layout: {class id: interface name}}."""
    by = {"true": [], "false": [], "unset": []}
    for c in sorted(alive, key=lambda c: c["id"]):
        by[c["unroll"]].append(c)
    seq = []
    while any(by.values()):
        for k in ("true", "false", "unset"):
            if by[k]:
                seq.append(by[k].pop(0))
    out = {}
    for g in range(0, len(seq), group):
        part = seq[g:g + group]
        gi = g // group
        out[f"A{gi}"] = {c["id"]: f"A{gi}x{r:03d}_{c['id']}" for r, c in enumerate(part)}
        out[f"B{gi}"] = {c["id"]: f"B{gi}x{len(part) - 1 - r:03d}_{c['id']}" for r, c in enumerate(part)}
    return out


def shared_conf(classes, layouts):
    byid = {c["id"]: c for c in classes}
    ifs = {}
    for lay, names in layouts.items():
        for cid, iname in names.items():
            conf = {"dir": f"mocks/sh{lay}", "pkgname": "sh" + lay, "structname": "Mock{{.InterfaceName}}", "filename": "mocks.go"}
            if byid[cid]["unroll"] in ("true", "false"):
                conf["template-data"] = {"unroll-variadic": byid[cid]["unroll"] == "true"}
            ifs[iname] = {"config": conf}
    return {"template": "testify", "formatter": "gofmt", "packages": {MOD + "/srcsh": {"interfaces": ifs}}}


def config_world(ctx, w, alive):
    """The configuration world of TestifyMockMC (CfgPkgs / CfgPlaces): ONE config file with several packages, the
    unroll-variadic setting at package level / inherited through `recursive` / at interface level as TLC placed it.
    Returns layouts {"C<pkg>": {class id: interface name}}; the mock of a class in a package must behave as the
    class (TLA+: CfgEffective = the class's unroll)."""
    pkgs = {p["name"]: p for p in getattr(ctx, "cfgpkgs", [])}
    alive_ids = {c["id"]: c for c in alive}
    places = [x for x in getattr(ctx, "cfgplaces", []) if x["class"] in alive_ids]
    if not pkgs or not places:
        return {}
    for x in places:
        if x["eff"] != alive_ids[x["class"]]["unroll"]:
            raise MachineryError(f"configuration world: class {x['class']} placed where the effective setting is {x['eff']}")

    def path(n):
        return (path(pkgs[n]["parent"]) + "/" if pkgs[n]["parent"] else "cw/") + n
    lays, conf_pk = {}, {}
    for n, p in sorted(pkgs.items()):
        mine = [x for x in places if x["pkg"] == n]
        names = {x["class"]: "W_" + x["class"] for x in mine}
        d = w / path(n)
        d.mkdir(parents=True, exist_ok=True)
        (d / "src.go").write_text(iface_src([alive_ids[x["class"]] for x in mine], names).replace("package src", "package " + n, 1))
        pc = {}
        if p["recursive"]:
            pc["recursive"] = True
        if p["td"] != "unset":
            pc["template-data"] = {"unroll-variadic": p["td"] == "true"}
        entry = {"config": pc} if pc else {}
        ifs = {names[x["class"]]: {"config": {"template-data": {"unroll-variadic": x["itd"] == "true"}}} for x in mine if x["itd"] != "unset"}
        if ifs:
            entry["interfaces"] = ifs
        conf_pk[MOD + "/" + path(n)] = entry
        lays["C" + n] = names
    conf = {"template": "testify", "formatter": "gofmt", "all": True, "dir": "mocks/shC{{.SrcPackageName}}", "pkgname": "shC{{.SrcPackageName}}",
            "structname": "Mock{{.InterfaceName}}", "filename": "mocks.go", "packages": conf_pk}
    (w / ".mockery.yml").write_text(json.dumps(conf))
    ctx.cfgworld_conf = conf
    res = ctx.run_mockery(w, timeout=300, trace=False)
    if res.code != 0 or not all((w / "mocks" / ("sh" + lay) / "mocks.go").exists() for lay in lays):
        ctx.violation({"kind": "config-world-mocks-not-generated"}, {"config": conf, "mockery": res.brief()})
        return {}
    code, out, err = ctx.go(w, "build", *[f"./mocks/sh{lay}" for lay in sorted(lays)], timeout=900)
    if code != 0:
        ctx.violation({"kind": "config-world-mocks-do-not-compile"}, {"config": conf, "compile_errors": err.splitlines()[:8]})
        return {}
    return lays


def gen_adapter(c, layout="", iname=None):
    cid, pk, vk, rk = c["id"], c["pk"], c["vk"], c["rk"]
    regid = cid
    if layout:
        regid = cid + "@" + layout
        c = dict(c, id=cid + "_" + layout)
        cid = c["id"]
    np_, nr, var = len(pk), len(rk), c["vk"] != "none"
    A = "ad_" + cid
    inst = "[string, interface{}]" if c.get("gen") else ""
    params = [f"p{i} {GO[k]}" for i, k in enumerate(pk)] + ([f"pv ...{GO[vk]}"] if var else [])
    sigp = ", ".join(params)
    rts = [GO[k] for k in rk]

    def ressig(ts):
        return "" if not ts else (" " + ts[0] if len(ts) == 1 else " (" + ", ".join(ts) + ")")
    absf = "[]string{" + ", ".join(f"rt.A_{k}({i}, p{i})" for i, k in enumerate(pk)) + "}"
    absv = f"absv_{cid}(pv)" if var else "nil"
    retvals = ", ".join(f"rt.C_{k}({20 + i}, op.Rets[{i}])" for i, k in enumerate(rk))
    mockpkg = f"sh{layout}" if layout else cid
    mockty = f"Mock{iname}" if layout else "MockI"
    o = ["// Code generated by /verif/checks/c03.py for signature class " + regid + "; DO NOT EDIT.", "package adapters", "",
         "import (", '\t"example.com/w/rt"', f'\tmk "example.com/w/mocks/{mockpkg}"']
    if var:
        o.append('\t"github.com/stretchr/testify/mock"')
    o += [")", "", f"type {A} struct {{", f"\tm   *mk.{mockty}{inst}", "\tlog *rt.Log", "\tbuf []interface{}", "}", "",
          f"func init() {{\n\trt.Register({json.dumps(regid)}, func(t *rt.RecT, log *rt.Log) rt.Adapter {{ return &{A}{{m: mk.New{mockty}{inst}(t), log: log, buf: make([]interface{{}}, 0, 8)}} }})\n}}", ""]
    if var:
        o += [f"func absv_{cid}(pv []{GO[vk]}) []string {{", "\tout := []string{}", "\tfor _, e := range pv {",
              f"\t\tout = append(out, rt.A_{vk}(9, e))", "\t}", "\treturn out", "}", "",
              f"func cv_{cid}(vs []string) []{GO[vk]} {{", f"\tout := make([]{GO[vk]}, 0, len(vs))", "\tfor _, v := range vs {",
              f"\t\tout = append(out, rt.C_{vk}(9, v))", "\t}", "\treturn out", "}", "",
              f"func mv_{cid}(it rt.Item) interface{{}} {{", "\tswitch it.K {", '\tcase "any":', "\t\treturn mock.Anything",
              '\tcase "elem":', f"\t\treturn rt.C_{vk}(9, it.V)", "\t}", f"\treturn cv_{cid}(it.S)", "}", ""]
    o += [f"func (a *{A}) Expect(op *rt.Op) {{", "\tswitch op.M {"]
    for mi in range(1, c["nm"] + 1):
        o += [f"\tcase {mi}:", f"\t\ta.expect{METHODS[mi]}(op)"]
    o += ["\tdefault:", '\t\tpanic("rt: no such method")', "\t}", "}", "",
          f"func (a *{A}) Call(op *rt.Op) []string {{", "\tswitch op.M {"]
    for mi in range(1, c["nm"] + 1):
        o += [f"\tcase {mi}:", f"\t\treturn a.call{METHODS[mi]}(op)"]
    o += ["\t}", '\tpanic("rt: no such method")', "}", ""]
    for mi in range(1, c["nm"] + 1):
        M = METHODS[mi]
        # ---- expect
        o.append(f"func (a *{A}) expect{M}(op *rt.Op) {{")
        o.append(f"\tif len(op.Ms) < {np_} {{\n\t\tpanic(\"rt: too few matchers\")\n\t}}")
        args = []
        for i, k in enumerate(pk):
            o.append(f"\tx{i} := rt.Matcher(op.Ms[{i}], func() interface{{}} {{ return rt.C_{k}({i}, op.Ms[{i}].V) }})")
            args.append(f"x{i}")
        if var:
            # registration by spread from ONE backing buffer per mock, reused by every registration and overwritten
            # after each: the expectation store must hold the values as they were at registration time
            o += ["\ttr := a.buf[:0]", f"\tfor _, it := range op.Ms[{np_}:] {{", f"\t\ttr = append(tr, mv_{cid}(it))", "\t}",
                  "\tdefer func() {", "\t\tfull := tr[:cap(tr)]", "\t\tfor i := range full {", "\t\t\tfull[i] = rt.Poison", "\t\t}", "\t}()"]
            args.append("tr...")
        elif True:
            o.append(f"\tif len(op.Ms) != {np_} {{\n\t\tpanic(\"rt: too many matchers\")\n\t}}")
        o.append(f"\tc := a.m.EXPECT().{M}({', '.join(args)})")

        def cb(name, ts, body_ret):
            lines = [f"func({sigp}){ressig(ts)} {{", f"\t\t\ta.log.Cb({json.dumps(name)}, {absf}, {absv})"]
            if body_ret:
                lines.append("\t\t\treturn " + body_ret)
            lines.append("\t\t}")
            return "\n".join(lines)
        o.append("\tswitch op.Style {")
        o += ['\tcase "ret":', f"\t\tc.Return({retvals})"]
        rawvals = ", ".join(f"rt.Raw(op.Rets[{i}], func() interface{{}} {{ return rt.C_{k}({20 + i}, op.Rets[{i}]) }})" for i, k in enumerate(rk))
        o += ['\tcase "rawret":', f"\t\tc.Call.Return({rawvals})"]
        o += ['\tcase "runret":', f"\t\tc.Run({cb('run', [], None)}).Return({retvals})"]
        o += ['\tcase "run":', f"\t\tc.Run({cb('run', [], None)})"]
        o += ['\tcase "rar":', f"\t\tc.RunAndReturn({cb('rar', rts, retvals if nr else None)})"]
        if nr:
            o += ['\tcase "whole":', f"\t\tc.Call.Return({cb('whole', rts, retvals)})"]
            if var:    # the legacy provider form: the variadic arguments as one slice parameter
                sigs = ", ".join([f"p{i} {GO[k]}" for i, k in enumerate(pk)] + [f"pv []{GO[vk]}"])
                o += ['\tcase "wslice":', f"\t\tc.Call.Return(func({sigs}){ressig(rts)} {{\n\t\t\ta.log.Cb(\"whole\", {absf}, {absv})\n\t\t\treturn {retvals}\n\t\t}})"]
            provs = ", ".join(cb(f"p{i}", [rts[i]], f"rt.C_{k}({20 + i}, op.Rets[{i}])") for i, k in enumerate(rk))
            o += ['\tcase "per":', f"\t\tc.Call.Return({provs})"]
            if nr > 1:
                mix = ", ".join([f"rt.C_{rk[0]}(20, op.Rets[0])"] + [cb(f"p{i}", [rts[i]], f"rt.C_{k}({20 + i}, op.Rets[{i}])") for i, k in enumerate(rk) if i > 0])
                o += ['\tcase "permix":', f"\t\tc.Call.Return({mix})"]
        o += ['\tcase "none":', "\tdefault:", '\t\tpanic("rt: style not applicable: " + op.Style)', "\t}"]
        o += ["\tif op.Rem == 1 {", "\t\tc.Once()", "\t} else if op.Rem > 1 {", "\t\tc.Times(op.Rem)", "\t}", "}", ""]
        # ---- call
        o.append(f"func (a *{A}) call{M}(op *rt.Op) []string {{")
        cargs = []
        for i, k in enumerate(pk):
            o.append(f"\tx{i} := rt.C_{k}({i}, op.F[{i}])")
            cargs.append(f"x{i}")
        lhs = ", ".join(f"r{i}" for i in range(nr))
        for i, t in enumerate(rts):
            o.append(f"\tvar r{i} {t}")
        asg = (lhs + " = ") if nr else ""
        if var:
            o += ["\tswitch {", '\tcase len(op.V) > 0:', f"\t\t{asg}a.m.{M}({', '.join(cargs + [f'cv_{cid}(op.V)...'])})",
                  '\tcase op.Form == "nil":', f"\t\t{asg}a.m.{M}({', '.join(cargs + [f'[]{GO[vk]}(nil)...'])})",
                  '\tcase op.Form == "empty":', f"\t\t{asg}a.m.{M}({', '.join(cargs + [f'[]{GO[vk]}{{}}...'])})",
                  "\tdefault:", f"\t\t{asg}a.m.{M}({', '.join(cargs)})", "\t}"]
        else:
            o.append(f"\t{asg}a.m.{M}({', '.join(cargs)})")
        o.append("\treturn []string{" + ", ".join(f"rt.A_{k}({20 + i}, r{i})" for i, k in enumerate(rk)) + "}")
        o += ["}", ""]
    return "\n".join(o)


def cls_sig(c):
    return {"variadic": c["vk"] != "none", "unroll": c["unroll"], "multi_result": len(c["rk"]) > 1, "results": len(c["rk"]) > 0,
            "generic": bool(c.get("gen"))}


def build_world(ctx, classes):
    """interfaces -> real mockery -> fresh mocks -> adapters -> driver binary.
    Returns (driver path, classes that made it into the driver)."""
    files = {"src/src.go": iface_src(classes), "main.go": 'package main\n\nimport (\n\t_ "example.com/w/adapters"\n\t"example.com/w/rt"\n)\n\nfunc main() { rt.Main() }\n',
             "rt/rt.go": (VERIF / "drivers" / "testifydrv" / "rt" / "rt.go").read_text()}
    w = ctx.new_world(files, module=MOD, name="world")
    (w / ".mockery.yml").write_text(json.dumps(mockery_conf(classes)))
    t0 = time.time()
    res = ctx.run_mockery(w, timeout=300, trace=False)
    alive = list(classes)
    if res.code != 0:
        # which interface(s) cannot be generated?  one run per class, own config file
        alive = []
        shutil.rmtree(w / "mocks", ignore_errors=True)
        for c in classes:
            (w / ".mockery.yml").write_text(json.dumps(mockery_conf([c])))
            r1 = ctx.run_mockery(w, timeout=120, trace=False)
            if r1.code == 0 and (w / "mocks" / c["id"] / "mock.go").exists():
                alive.append(c)
            else:
                sig = {"kind": "mock-not-generated", **cls_sig(c)}
                ctx.violation(sig, {"class": c, "interface": iface_src([c]), "mockery": r1.brief(),
                                    "why": "mockery fails on a valid interface of this signature class: no mock to route anything"})
        if len(alive) == len(classes):
            raise MachineryError("mockery failed on all classes together but on none alone:\n" + (res.err + res.out)[-1500:])
    for c in alive:
        if not (w / "mocks" / c["id"] / "mock.go").exists():
            raise MachineryError(f"mockery exited 0 but wrote no mock for class {c['id']}")
    ctx.timing["mockery"] = round(time.time() - t0, 1)
    # ---- compile the mocks; a mock that does not type-check cannot route anything
    t0 = time.time()
    code, out, err = ctx.go(w, "build", "./mocks/...", timeout=900)
    if code != 0:
        bad = set(re.findall(r"^mocks/([A-Za-z0-9_]+)/mock\.go:\d+", err, flags=re.M))
        if not bad:
            raise MachineryError("go build of the generated mocks failed without a locatable package:\n" + err[-1500:])
        for c in alive:
            if c["id"] in bad:
                errs = [ln for ln in err.splitlines() if ln.startswith(f"mocks/{c['id']}/")][:4]
                sig = {"kind": "mock-does-not-compile", **cls_sig(c)}
                ctx.violation(sig, {"class": c, "interface": iface_src([c]), "compile_errors": errs,
                                    "mock": (w / "mocks" / c["id"] / "mock.go").read_text()[:6000]})
        alive = [c for c in alive if c["id"] not in bad]
    # ---- the same classes again, many per output file (per-file template state must not leak between mocks)
    layouts = shared_layouts(alive)
    (w / "srcsh").mkdir()
    src = iface_src([], None).replace("package src", "package srcsh")
    for lay, names in layouts.items():
        src += "\n".join(iface_src([c for c in alive if c["id"] in names], names, noise=True).split("\n")[6:])
    (w / "srcsh" / "src.go").write_text(src)
    (w / ".mockery.yml").write_text(json.dumps(shared_conf(alive, layouts)))
    t1 = time.time()
    res = ctx.run_mockery(w, timeout=300, trace=False)
    ctx.timing["mockery_shared"] = round(time.time() - t1, 1)
    if res.code != 0:
        ctx.violation({"kind": "shared-file-mocks-not-generated"},
                      {"layouts": layouts, "mockery": res.brief(),
                       "why": "every one of these interfaces is mocked fine into a file of its own, but not when they share output files"})
        layouts = {}
    else:
        code, out, err = ctx.go(w, "build", *[f"./mocks/sh{lay}" for lay in sorted(layouts)], timeout=900)
        if code != 0:
            bad = set(re.findall(r"^mocks/sh([AB]\d+)/mocks\.go:\d+", err, flags=re.M))
            if not bad:
                raise MachineryError("go build of the shared-file mocks failed without a locatable package:\n" + err[-1500:])
            for lay in sorted(bad):
                errs = [ln for ln in err.splitlines() if ln.startswith(f"mocks/sh{lay}/")][:6]
                ctx.violation({"kind": "shared-file-mocks-do-not-compile", "order": lay[0]},
                              {"layout": layouts[lay], "compile_errors": errs,
                               "why": "each mock compiles in a file of its own; the shared output file does not"})
                del layouts[lay]
    layouts.update(config_world(ctx, w, alive))
    (w / "adapters").mkdir()
    for c in alive:
        (w / "adapters" / f"ad_{c['id']}.go").write_text(gen_adapter(c))
    for lay, names in layouts.items():
        for c in alive:
            if c["id"] in names:
                (w / "adapters" / f"ad_{c['id']}_{lay}.go").write_text(gen_adapter(c, lay, names[c["id"]]))
    ctx.layouts = layouts
    for attempt in range(3):
        code, out, err = ctx.go(w, "build", "-o", "drv", ".", timeout=900)
        if code == 0:
            break
        badfiles = set(re.findall(r"^adapters/(ad_[A-Za-z0-9_]+)\.go:\d+", err, flags=re.M))
        for bf in badfiles:
            (w / "adapters" / f"{bf}.go").unlink(missing_ok=True)
        bad = {bf[3:].split("_")[0] for bf in badfiles}
        for lay in list(ctx.layouts):
            for cid in list(ctx.layouts[lay]):
                if f"ad_{cid}_{lay}" in badfiles or cid in {bf[3:] for bf in badfiles}:
                    del ctx.layouts[lay][cid]
        if not bad or attempt == 2:
            raise MachineryError("building the driver failed:\n" + err[-2500:])
        # the adapter uses only the documented typed API (EXPECT().M(...).Run/Return/RunAndReturn/Call.Return/Once/Times)
        for c in alive:
            if c["id"] in bad:
                errs = [ln for ln in err.splitlines() if ln.startswith(f"adapters/ad_{c['id']}.go")][:4]
                ctx.violation({"kind": "mock-api-mismatch", **cls_sig(c)},
                              {"class": c, "compile_errors": errs, "why": "the generated mock does not offer the documented typed expecter API"})
        alive = [c for c in alive if c["id"] not in {bf[3:] for bf in badfiles}]
    ctx.timing["go_build"] = round(time.time() - t0, 1)
    return w / "drv", alive, w


# --------------------------------------------------------------------------------------------- cases
def parse_prints(text, tag):
    out = []
    pat = '<<"' + tag + '", "'
    for ln in text.splitlines():
        i = ln.find(pat)
        if i < 0:
            continue
        s = ln[i + len(pat):]
        j = s.rfind('">>')
        if j >= 0:
            out.append(json.loads(tla_unescape(s[:j])))
    return out


def op_key(o):
    if o["op"] == "expect":
        return json.dumps(["e", o["m"], o["ms"], o["style"], o["rets"], o["rem"]])
    if o["op"] == "call":
        return json.dumps(["c", o["m"], o["f"], o["v"], o["form"]])
    if o["op"] == "bystander":
        return '"b-%s"' % o["kind"]
    return '"u"' if o["op"] == "usererrorf" else '"x"'


def dedupe_prefixes(cases):
    """Drop cases whose op sequence is a strict prefix of (or equal to) another case's."""
    keyed = [(c, [op_key(o) for o in c["ops"]]) for c in cases]
    keyed.sort(key=lambda x: -len(x[1]))
    seen = set()
    out = []
    for c, ks in keyed:
        full = c["class"] + "|" + "|".join(ks)
        if full in seen:
            continue
        out.append(c)
        acc = c["class"]
        for k in ks:
            acc = acc + "|" + k
            seen.add(acc)
    out.sort(key=lambda c: (c["class"], [op_key(o) for o in c["ops"]]))
    return out


def vals_of(kind):
    if kind in ("any", "iface", "error", "slice", "nslice", "map"):
        return ["V0", "V1", "V2", "V3"]
    return ["V0", "V1"] if kind == "bool" else ["V0", "V1", "V2"]


ANY = {"k": "any", "v": "", "s": []}


def elem(v):
    return {"k": "elem", "v": v, "s": []}


def slc(q):
    return {"k": "slice", "v": "", "s": list(q)}


def random_history(rng, c, max_ops, max_exp):
    """A random op history over the wide alphabet; no expectations are computed here -- TLC judges the log."""
    np_, nr, var = len(c["pk"]), len(c["rk"]), c["vk"] != "none"
    unrolled = c["unroll"] == "true"
    styles = (["ret", "runret", "rar", "none", "run"] + (["whole", "per", "rawret"] if nr else []) + (["wslice"] if nr and var and not (nr == 1 and c["rk"][0] == "any") else [])
              + (["permix"] if nr > 1 else []))
    ops, exps = [], []
    n = rng.randint(3, max_ops)

    def rand_fixed(bias):
        return [rng.choice([bias] * 3 + vals_of(k)) if bias in vals_of(k) else rng.choice(vals_of(k)) for k in c["pk"]]

    def rand_var():
        alpha = ["V1", "V1", "V2", "V0"] + (["W1", "WE", "WN", "W0"] if c["vk"] == "any" else [])     # + slice look-alikes
        return [rng.choice(alpha) for _ in range(rng.choice([0, 0, 1, 1, 1, 2, 2, 3]))] if var else []
    while len(ops) < n:
        if rng.random() < 0.06:
            ops.append({"op": "usererrorf"})
            continue
        if rng.random() < 0.06 and sum(1 for o in ops if o["op"] == "bystander") < 2:
            ops.append({"op": "bystander", "kind": rng.choice(["clean", "unmet"])})
            continue
        if len(exps) < max_exp and (not exps or rng.random() < 0.35):
            base = rand_fixed("V1")
            ms = [ANY if (k == "func" or rng.random() < 0.4) else elem(v) for k, v in zip(c["pk"], base)]
            vm, q = [], []
            if var:
                q = rand_var()
                r = rng.random()
                if r < 0.25:
                    vm = []
                elif r < 0.45:
                    vm = [ANY]
                elif (r < 0.8) == unrolled:     # the form that fits the mode most of the time, the other one sometimes
                    vm = [ANY if rng.random() < 0.3 else elem(v) for v in q]
                else:
                    vm = [slc(q)]
            style = rng.choice(styles)
            rets = [rng.choice(vals_of(k)) for k in c["rk"]] if style in ("ret", "rawret", "runret", "rar", "whole", "wslice", "per", "permix") else []
            e = {"op": "expect", "m": rng.randint(1, c["nm"]), "ms": ms + vm, "style": style, "rets": rets,
                 "rem": rng.choice([0, 0, 0, 1, 1, 2, 3]), "_f": base, "_v": q if var else []}
            exps.append(e)
            ops.append(e)
        else:
            if exps and rng.random() < 0.7:
                e = rng.choice(exps)
                f = [v if rng.random() < 0.85 else rng.choice(vals_of(k)) for k, v in zip(c["pk"], e["_f"])]
                v = list(e["_v"]) if (var and rng.random() < 0.7) else rand_var()
                m = e["m"]
            else:
                f, v, m = rand_fixed("V1"), rand_var(), rng.randint(1, c["nm"])
            form = rng.choice(["absent", "nil", "empty"]) if (var and not v) else "absent"
            ops.append({"op": "call", "m": m, "f": f, "v": v, "form": form})
    ops.append({"op": "cleanup"})
    return {"class": c["id"], "np": np_, "ops": [{k: v for k, v in o.items() if not k.startswith("_")} for o in ops], "random": True}


# --------------------------------------------------------------------------------------------- replay
def run_driver(ctx, drv, cases, tag):
    d = ctx.mkdir("replay-" + tag)
    inp = {"cases": [{"class": c["class"] + ("@" + c["layout"] if c.get("layout") else ""), "np": c.get("np", 0),
                      "ops": [{k: v for k, v in o.items() if k in ("op", "m", "ms", "style", "rets", "rem", "f", "v", "form", "kind")}
                                                    for o in c["ops"]]} for c in cases]}
    (d / "cases.json").write_text(json.dumps(inp))
    try:
        p = subprocess.run([str(drv), str(d / "cases.json"), str(d / "log.ndjson")], capture_output=True, text=True, timeout=900)
        if p.returncode != 0 and "fatal error: concurrent map" in p.stderr:
            # the driver replays independent cases on several goroutines; package-level state in GENERATED code is not
            # this property's business (C05): replay sequentially instead
            ctx.note("generated code has unsynchronised package-level state (concurrent map access): replayed sequentially")
            p = subprocess.run([str(drv), str(d / "cases.json"), str(d / "log.ndjson")], capture_output=True, text=True,
                               timeout=1800, env=dict(os.environ, C03_SEQUENTIAL="1"))
    except subprocess.TimeoutExpired:
        raise MachineryError("the replay driver hung (timeout)")
    if p.returncode != 0:
        raise MachineryError(f"the replay driver died (exit {p.returncode}): " + (p.stderr or p.stdout)[-800:])
    per = [dict() for _ in cases]
    for ln in (d / "log.ndjson").read_text().splitlines():
        e = json.loads(ln)
        per[e["case"]][e["step"]] = e
    if not os.environ.get("VERIF_KEEP"):
        shutil.rmtree(d, ignore_errors=True)
    return per


def project(c_op, ev):
    """Observed reply of one step -> the projection the contract talks about."""
    r = ev.get("reply") or {}
    if c_op["op"] == "call":
        return {"kind": r.get("kind", ""), "vals": list(r.get("vals") or []), "names": METHODS[c_op["m"]] in (r.get("msg") or ""),
                "cbs": [{"fn": x["fn"], "f": list(x["f"] or []), "v": list(x["v"] or [])} for x in (r.get("cbs") or [])],
                "errorf": r.get("errorf", 0)}
    return {"reported": bool(r.get("reported")), "ncleanups": r.get("ncleanups", 0)}


def reply_ok(want, got):
    if want.get("lenient") and got["kind"] == "panic" and not got["cbs"]:
        return True
    if want["kind"] != got["kind"]:
        return False
    if want["kind"] == "values" and want["vals"] != got["vals"]:
        return False
    if want["kind"] == "panic" and want["names"] and not got["names"]:
        return False
    if want["kind"] == "failnow" and got["errorf"] <= 0:
        return False
    key = lambda x: json.dumps([x["fn"], x["f"], x["v"]])  # noqa: E731
    return sorted(map(key, want["cbs"])) == sorted(map(key, got["cbs"]))


def cleanup_ok(want, got):
    return (want != "yes" or got["reported"]) and (want != "no" or not got["reported"]) and got["ncleanups"] >= 1


def trace_events(cases, per, byid, offset=0):
    """Driver log -> events for TestifyMockTrace (inputs from the case, replies from the real run)."""
    evs = []
    for ci, c in enumerate(cases):
        if any(e["op"] == "error" for e in per[ci].values()):
            continue
        evs.append({"op": "reset", "case": ci + offset, "step": -1, "class": {k: byid[c["class"]][k] for k in ("id", "names", "pk", "vk", "rk", "unroll", "nm", "gen", "rn")}})
        for si, o in enumerate(c["ops"]):
            if o["op"] == "expect":
                evs.append({"op": "expect", "case": ci + offset, "step": si, "m": o["m"], "ms": o["ms"], "style": o["style"], "rets": o["rets"], "rem": o["rem"]})
            elif o["op"] == "usererrorf":
                evs.append({"op": "usererrorf", "case": ci + offset, "step": si})
            elif o["op"] == "bystander":
                evs.append({"op": "bystander", "case": ci + offset, "step": si, "kind": o["kind"]})
            elif si in per[ci]:
                pr = project(o, per[ci][si])
                if o["op"] == "call":
                    evs.append({"op": "call", "case": ci + offset, "step": si, "m": o["m"], "f": o["f"], "v": o["v"], "reply": pr})
                else:
                    evs.append({"op": "cleanup", "case": ci + offset, "step": si, "reply": pr})
            else:
                raise MachineryError(f"driver log has no event for case {ci} step {si}")
    return evs


def validate_chunks(ctx, evs, tag, nproc):
    """TLC trace validation, the trace cut at case boundaries into nproc chunks validated in parallel.
    Returns list of MISMATCH records (global case numbers) and the number of events consumed."""
    bounds = [i for i, e in enumerate(evs) if e["op"] == "reset"]
    if not bounds:
        return [], 0
    per = max(1, (len(bounds) + nproc - 1) // nproc)
    chunks = []
    for k in range(0, len(bounds), per):
        a = bounds[k]
        b = bounds[k + per] if k + per < len(bounds) else len(evs)
        chunks.append(evs[a:b])
    cfg = (SPEC / "cfg" / "TestifyMockTrace.cfg").read_text()

    def one(i):
        txt = "".join(json.dumps(e, sort_keys=True) + "\n" for e in chunks[i])
        r = run_tlc(ctx, f"{tag}-{i}", "TestifyMockTrace", cfg, files={"trace.ndjson": txt}, workers=1, dfs=True, timeout=1500)
        return r
    with ThreadPoolExecutor(max_workers=nproc) as ex:
        rs = list(ex.map(one, range(len(chunks))))
    mism, consumed = [], 0
    for i, r in enumerate(rs):
        if r.consumed is None or "REJECTED" not in r.text:
            raise MachineryError(f"trace validation crashed ({tag}-{i}):\n" + r.tail())
        if r.consumed[0] != len(chunks[i]):
            at = chunks[i][min(r.consumed[0], len(chunks[i]) - 1)]
            raise MachineryError(f"trace validation stopped at event {r.consumed[0]} of {len(chunks[i])} ({tag}-{i}): {json.dumps(at)[:400]}\n" + r.tail(15))
        consumed += r.consumed[0]
        if not os.environ.get("VERIF_KEEP"):
            shutil.rmtree(r.dir, ignore_errors=True)
        ms = parse_prints(r.text, "MISMATCH")
        m = re.search(r'<<"REJECTED", (\d+)>>', r.text)
        uniq = {(x["case"], x["step"]): x for x in ms}
        if m is None or int(m.group(1)) != len(ms) or (len(ms) == 0) != r.ok:
            raise MachineryError(f"trace validation: inconsistent rejection count ({tag}-{i}):\n" + r.tail(15))
        mism += list(uniq.values())
    return mism, consumed


def trace_selftest(ctx, allc, per, byid, bad_cases):
    picks = {}
    for ci, c in enumerate(allc):
        if c.get("random") or ci in bad_cases or any(e["op"] == "error" for e in per[ci].values()):
            continue
        if any(o["op"] == "call" and o.get("dev", "none") != "none" for o in c["ops"]):
            continue
        for si, o in enumerate(c["ops"]):
            if o["op"] == "call" and o["expect"]["kind"] == "values" and o["expect"]["vals"] and "vals" not in picks:
                picks["vals"] = (ci, si)
                break
            if o["op"] == "call" and o["expect"]["cbs"] and "cbs" not in picks and picks.get("vals", (None,))[0] != ci:
                picks["cbs"] = (ci, si)
                break
            if o["op"] == "cleanup" and o["expect"] in ("yes", "no") and "cleanup" not in picks and ci not in [p[0] for p in picks.values()]:
                picks["cleanup"] = (ci, si)
                break
        if len(picks) == 3:
            break
    if len(picks) < 3:
        raise MachineryError("trace self-test: no suitable accepted cases to corrupt")
    order = sorted(picks.values())
    sub = [allc[ci] for ci, _ in order]
    evs = json.loads(json.dumps(trace_events(sub, [per[ci] for ci, _ in order], byid)))     # private copy
    want = set()
    for what, (ci, si) in picks.items():
        k = order.index((ci, si))
        want.add((k, si))
        for e in evs:
            if e["case"] == k and e["step"] == si:
                r = e["reply"]
                if what == "vals":
                    r["vals"][0] = "V2" if r["vals"][0] != "V2" else "V1"
                elif what == "cbs":
                    r["cbs"] = r["cbs"][1:]
                else:
                    r["reported"] = not r["reported"]
    mism, _ = validate_chunks(ctx, evs, "selftest", 1)
    got = {(m["case"], m["step"]) for m in mism}
    if got != want:
        raise MachineryError(f"trace self-test: corrupted replies {sorted(want)} but the trace specification rejected {sorted(got)}")
    return {"corrupted_fields": sorted(picks), "rejected_exactly_those": True}


def new_guard():
    return {"failnow": 0, "panic_naming": 0, "nil_return": 0, "callback": 0, "cleanup_yes": 0, "cleanup_no": 0,
            "variadic_slice_match": 0, "variadic_elem_match": 0, "once_exhausted": 0, "second_expectation": 0,
            "nil_iface_arg_through_run": 0, "nil_iface_arg_through_rar_no_result": 0, "whole_provider_variadic_multi_unrolled": 0,
            "whole_provider_variadic_multi_slice_mode": 0, "slice_form_provider_accepted_by_impl": 0, "slice_form_provider_refused_by_impl": 0,
            "unmet_after_unexpected_call_failed_the_test": 0, "unmet_after_users_errorf": 0, "all_met_in_failed_test": 0,
            "untyped_nil_return_of_map_slice_func_chan_ptr": 0, "mixed_value_and_provider_return": 0, "nil_lookalike_returned": 0,
            "nil_lookalike_argument_seen_by_callback": 0, "other_instance_unmet_while_own_met": 0, "other_instance_clean_while_own_unmet": 0,
            "other_instance_created_first": 0, "slice_lookalike_alone_seen_by_run_unrolled": 0, "slice_lookalike_alone_seen_by_run_rolled": 0,
            "slice_lookalike_alone_seen_by_provider": 0, "slice_lookalike_matched_by_value": 0, "slice_lookalike_beside_scalar_seen_by_callback": 0}


def count_guards(guard, cases, byid):
    for c in cases:
        k = byid[c["class"]]
        for oi, o in enumerate(c["ops"]):
            if o["op"] == "call":
                e = o["expect"]
                guard["failnow"] += e["kind"] == "failnow"
                guard["panic_naming"] += e["kind"] == "panic" and e["names"]
                guard["nil_return"] += e["kind"] == "values" and "V0" in e["vals"]
                guard["callback"] += len(e["cbs"]) > 0
                nil_if = o["matched"] > 0 and any(kk in ("iface", "any", "error") and x == "V0" for kk, x in zip(k["pk"], o["f"]))
                guard["nil_iface_arg_through_run"] += nil_if and o["style"] in ("run", "runret")
                guard["nil_iface_arg_through_rar_no_result"] += nil_if and o["style"] == "rar" and not k["rk"]
                vm = k["vk"] != "none" and len(k["rk"]) > 1 and o["style"] in ("rar", "whole")
                guard["whole_provider_variadic_multi_unrolled"] += vm and k["unroll"] == "true"
                guard["whole_provider_variadic_multi_slice_mode"] += vm and k["unroll"] != "true"
                guard["slice_form_provider_accepted_by_impl"] += o["style"] == "wslice" and o["impl"]["kind"] == "values"
                guard["slice_form_provider_refused_by_impl"] += o["style"] == "wslice" and o["impl"]["kind"] == "panic"
                guard["second_expectation"] += o["matched"] >= 2
                guard["untyped_nil_return_of_map_slice_func_chan_ptr"] += o["style"] == "rawret" and e["kind"] == "values" and any(
                    v == "V0" and kk in ("map", "slice", "nslice", "func", "chan", "ptr") for kk, v in zip(k["rk"], e["vals"]))
                guard["mixed_value_and_provider_return"] += o["style"] == "permix" and e["kind"] == "values"
                guard["nil_lookalike_returned"] += e["kind"] == "values" and "V3" in e["vals"]
                guard["nil_lookalike_argument_seen_by_callback"] += bool(e["cbs"]) and "V3" in o["f"]
                look = [x for x in o["v"] if x.startswith("W")]
                if look and e["cbs"]:
                    fns = {x["fn"] for x in e["cbs"]}
                    alone = len(o["v"]) == 1
                    runlike = bool(fns & {"run"}) or ("rar" in fns and not k["rk"])
                    guard["slice_lookalike_alone_seen_by_run_unrolled"] += alone and runlike and k["unroll"] == "true"
                    guard["slice_lookalike_alone_seen_by_run_rolled"] += alone and runlike and k["unroll"] != "true"
                    guard["slice_lookalike_alone_seen_by_provider"] += alone and bool(fns - {"run"}) and bool(k["rk"])
                    guard["slice_lookalike_beside_scalar_seen_by_callback"] += not alone
                if look and o["matched"] > 0:
                    tail = c["ops"][[i for i, q in enumerate(c["ops"]) if q["op"] == "expect"][o["matched"] - 1]]["ms"][len(k["pk"]):]
                    guard["slice_lookalike_matched_by_value"] += any(t["k"] != "any" for t in tail)
                if k["vk"] != "none" and o["matched"] > 0 and o["v"]:
                    guard["variadic_elem_match" if k["unroll"] == "true" else "variadic_slice_match"] += 1
            elif o["op"] == "cleanup":
                before = c["ops"][:oi]
                guard["cleanup_yes"] += o["expect"] == "yes"
                guard["cleanup_no"] += o["expect"] == "no"
                guard["unmet_after_unexpected_call_failed_the_test"] += o["expect"] == "yes" and any(q["op"] == "call" and q["matched"] == 0 for q in before)
                guard["unmet_after_users_errorf"] += o["expect"] == "yes" and any(q["op"] == "usererrorf" for q in before)
                guard["all_met_in_failed_test"] += o["expect"] == "no" and o["failed"]
                bys = [q["kind"] for q in before if q["op"] == "bystander"]
                own_exp = any(q["op"] == "expect" for q in before)
                own_met = own_exp and any(q["op"] == "call" and q["matched"] > 0 for q in before)
                guard["other_instance_unmet_while_own_met"] += "unmet" in bys and own_met and o["expect"] == "yes"
                guard["other_instance_clean_while_own_unmet"] += bys == ["clean"] and own_exp and not own_met and o["expect"] == "yes"
                guard["other_instance_created_first"] += bool(before) and before[0]["op"] == "bystander"
        calls = [o for o in c["ops"] if o["op"] == "call"]
        for a, b in zip(calls, calls[1:]):
            guard["once_exhausted"] += a["matched"] > 0 and b["matched"] != a["matched"] and (a["f"], a["v"], a["m"]) == (b["f"], b["v"], b["m"])


def process_batch(ctx, st, cases, tag):
    """Replay one batch of behaviours on the real mocks (own-file and shared-file), compare step by step with the
    contract's exported expectation, let TLC judge the op log, record verdicts; nothing of the batch is kept."""
    byid, thorough = st["byid"], st["thorough"]
    israndom = bool(cases) and bool(cases[0].get("random"))
    if not israndom:
        count_guards(st["guard"], cases, byid)
        st["seen_classes"] |= {c["class"] for c in cases}
    live = [c for c in cases if c["class"] in st["alive_ids"]]
    # the shared-file mocks get every behaviour that exercises the template (single-expectation mode, simulated and
    # random histories); the pair / wide modes are about testify's ordering and run on the own-file mocks only
    shared = []
    for lay, names in sorted(ctx.layouts.items()):
        for c in live:
            if c["class"] in names and (c.get("random") or c.get("mode") in ("single", "sim", "multi", "look")):
                if lay.startswith("C") and not thorough and ctx.rng.random() >= 0.4:
                    continue        # configuration-world mocks: a seeded part of the behaviours in the quick tier
                shared.append(dict(c, layout=lay))
                st["cfgworld"] += lay.startswith("C")
    allc = live + shared
    if not allc:
        return
    st["batches"] += 1
    st["random" if israndom else "live"] += len(live)
    st["shared"] += len(shared)
    t0 = time.time()
    per = run_driver(ctx, st["drv"], allc, tag)
    st["t_driver"] += time.time() - t0
    ctx.cov["evaluations"] += len(allc)
    st["nontrivial"] += sum(1 for c in allc if sum(1 for o in c["ops"] if o["op"] != "cleanup") >= 2)

    py_bad = {}     # (case, step) -> observed, Python's step-wise comparison on the TLC-exported cases
    for ci, c in enumerate(allc):
        errs = [e for e in per[ci].values() if e["op"] == "error"]
        if errs:
            if any("no adapter" in e["error"] for e in errs):
                raise MachineryError("driver: " + errs[0]["error"])
            st["setup_errors"] += 1
            k = byid[c["class"]]
            sto = c["ops"][errs[0]["step"]] if errs[0]["step"] >= 0 else {}
            ctx.violation({"kind": "setup-panicked", "style": sto.get("style", ""), **cls_sig(k)},
                          {"class": k, "ops": c["ops"], "error": errs[0]})
            continue
        if c.get("random"):
            continue
        for si, o in enumerate(c["ops"]):
            if o["op"] in ("expect", "usererrorf", "bystander"):
                continue
            if si not in per[ci]:
                raise MachineryError(f"driver log has no event for case {ci} step {si}")
            got = project(o, per[ci][si])
            if o["op"] == "call":
                ok = reply_ok(o["expect"], got)
                if ok and not reply_ok(o["impl"], got):
                    st["drift"] += 1
                    if st["drift"] <= 3:
                        ctx.note("drift: code satisfies the contract but differs from the code-shaped layer: " + json.dumps({"class": c["class"], "op": o, "got": got})[:600])
            else:
                ok = cleanup_ok(o["expect"], got)
                if ok and got["reported"] != o["impl"]:
                    st["drift"] += 1
            if not ok:
                py_bad[(ci, si)] = got

    # ---- TLC judges the op log.  thorough: every replayed case; quick: every random history, every case the
    # step-wise comparison rejected, and a seeded sample of the rest (the step-wise comparison covers all of them)
    t0 = time.time()
    if thorough:
        chosen = list(range(len(allc)))
    else:
        bad_cases = {ci for ci, _ in py_bad}
        chosen = [ci for ci, c in enumerate(allc) if c.get("random") or ci in bad_cases
                  or ctx.rng.random() < (0.03 if c.get("layout") else 0.12)]
    sub = [allc[ci] for ci in chosen]
    evs = trace_events(sub, [per[ci] for ci in chosen], byid)
    for e in evs:
        e["case"] = chosen[e["case"]]
    # self-test of the trace specification on this very log (once per run): three accepted cases with one recorded
    # field corrupted each (a returned value, the callback log, the cleanup report) must be rejected exactly there
    st_fut = None
    if st["selftest"] is None and not israndom:
        st_fut = st["pool"].submit(trace_selftest, ctx, allc, per, byid, set(ci for ci, _ in py_bad))
    mism, consumed = validate_chunks(ctx, evs, "tv-" + tag, 8)
    if st_fut is not None:
        st["selftest"] = st_fut.result()
    st["t_tv"] += time.time() - t0
    ctx.cov["traces_validated_against_impl"] += sum(1 for e in evs if e["op"] == "reset")
    st["steps"] += sum(1 for e in evs if e["op"] in ("call", "cleanup"))
    st["consumed"] += consumed
    tlc_bad = {(m["case"], m["step"]): m for m in mism}
    chosen_set = set(chosen)
    exported_keys = {k for k in tlc_bad if not allc[k[0]].get("random")}
    py_keys = {k for k in py_bad if k[0] in chosen_set}
    if exported_keys != py_keys:
        only_t = sorted(exported_keys - py_keys)[:3]
        only_p = sorted(py_keys - exported_keys)[:3]
        k0 = (only_t + only_p)[0]
        dbg = {"ops": allc[k0[0]]["ops"][:k0[1] + 1], "tlc": tlc_bad.get(k0), "got": project(allc[k0[0]]["ops"][k0[1]], per[k0[0]][k0[1]])}
        raise MachineryError("the trace specification and the step-wise comparison disagree on TLC-exported cases: "
                             f"only TLC {only_t}, only step-wise {only_p}\n" + json.dumps(dbg)[:6000])
    verdicts = dict(tlc_bad)
    for (ci, si) in py_bad:
        if (ci, si) not in verdicts:       # cannot happen (rejected cases are always validated); kept for safety
            o = allc[ci]["ops"][si]
            verdicts[(ci, si)] = {"style": o.get("style", ""), "expect": o["expect"], "impl": o["impl"], "dev": o.get("dev", "none")}
    st["rejected"] += len(verdicts)
    for (ci, si), m in sorted(verdicts.items()):
        c = allc[ci]
        k = byid[c["class"]]
        o = c["ops"][si]
        got = project(o, per[ci][si])
        if o["op"] == "call":
            sig = {"kind": "reply-mismatch", "op": "call", "style": m["style"], "expected": m["expect"]["kind"], "observed": got["kind"],
                   "dev": m["dev"], "as_predicted": reply_ok(m["impl"], got), **cls_sig(k)}
        else:
            sig = {"kind": "cleanup-mismatch", "op": "cleanup", "expected": m["expect"], "observed": got["reported"],
                   "test_had_failed": bool(o.get("failed")), **cls_sig(k)}
        sig["layout"] = ("config-world" if c["layout"].startswith("C") else "shared-file") if c.get("layout") else "own-file"
        if len(ctx.violations) > 100:
            ctx.violation(sig, {"class": k, "step": si, "note": "details recorded for the first 100 violations only"})
            continue
        detail = {"class": k, "interface": iface_src([k]), "layout": c.get("layout", "own file"),
                  "config_world": getattr(ctx, "cfgworld_conf", None) if str(c.get("layout", "")).startswith("C") else None,
                  "shared_file_order": sorted(ctx.layouts.get(c.get("layout"), {}).values()), "history": [{x: y for x, y in q.items() if x not in ("impl",)} for q in c["ops"][:si + 1]],
                  "step": si, "contract_expects": m["expect"], "code_shaped_model_predicts": m["impl"], "real_mock_did": got,
                  "raw": per[ci][si].get("reply"), "source": "random history" if c.get("random") else "TLC-exported transition",
                  "how": "bin/check C03 regenerates the mock for this class with the working tree's mockery and replays the history"}
        ctx.violation(sig, detail)
    if len(ctx.cov["samples"]) < 4:
        pick = [c for c in live if c.get("random") or any(o["op"] == "call" and o["expect"]["kind"] == "values" and o["expect"]["cbs"] for o in c["ops"])]
        for c in pick[:: max(1, len(pick) // 2)][:2]:
            ci = allc.index(c)
            ctx.sample({"class": byid[c["class"]], "ops": [{k: v for k, v in o.items() if k not in ("impl", "dev", "matched")} for o in c["ops"]],
                        "real": [project(o, per[ci][si]) for si, o in enumerate(c["ops"]) if si in per[ci]]})


# --------------------------------------------------------------------------------------------- main
def run(ctx):
    thorough = ctx.thorough()
    ctx.timing = {}
    pool = ThreadPoolExecutor(max_workers=12)
    # ------------------------------------------------------------ 0. the signature classes (from the spec)
    base = "ThoroughClasses" if thorough else "QuickClasses"
    r0 = run_tlc(ctx, "classes", "TestifyMockMC", cfg_text("TestifyMock_quick.cfg", Classes="<- " + base, MaxExp="= 0", MaxCalls="= 0"), timeout=600)
    if not r0.ok:
        raise MachineryError("TLC could not enumerate the signature classes:\n" + r0.tail())
    byid = {}
    for c in parse_prints(r0.text, "CLASS"):
        byid[c["id"]] = c
    classes = [byid[k] for k in sorted(byid)]
    if len(classes) < 20:
        raise MachineryError(f"only {len(classes)} signature classes")
    pair_ids = sorted(set(parse_prints(r0.text, "PAIR")) & set(byid)) if not thorough else sorted(byid)
    multi_ids = sorted(set(parse_prints(r0.text, "MULTI")) & set(byid))
    if len(pair_ids) < 5 or len(multi_ids) < 5:
        raise MachineryError("no classes for the pair mode")
    ctx.cfgpkgs = parse_prints(r0.text, "CFGPKG")
    ctx.cfgplaces = [x for x in parse_prints(r0.text, "CFGPLACE") if x["class"] in byid]
    inh = {(x["pkg"], x["eff"]) for x in ctx.cfgplaces if x["itd"] == "unset"}
    if len(ctx.cfgpkgs) < 3 or len({e for _, e in inh}) < 2 or not any(x["itd"] != "unset" and x["itd"] != "true" for x in ctx.cfgplaces):
        raise MachineryError("vacuous: the configuration world has no inherited / overridden unroll-variadic placements")
    look_ids = sorted(set(parse_prints(r0.text, "LOOK")) & set(byid))
    if len(look_ids) < 4 or not {"true", "false", "unset"} <= {byid[i]["unroll"] for i in look_ids}:
        raise MachineryError("no classes for the slice look-alike mode")

    # ------------------------------------------------------------ 1. TLC (in the background) ...
    jobs = []
    t_tlc = time.time()
    ids = sorted(byid)
    if not thorough:
        for gi, g in enumerate(split(ids, 5)):
            jobs.append(("single", pool.submit(run_tlc_export, ctx, f"single{gi}", "TestifyMockGen",
                                               cfg_text("TestifyMock_quick.cfg", Classes="<- GenClasses"),
                                               files={"TestifyMockGen.tla": gen_module(g)}, timeout=600)))
        for gi, g in enumerate(split(pair_ids, 3)):
            jobs.append(("pair", pool.submit(run_tlc_export, ctx, f"pair{gi}", "TestifyMockGen",
                                             cfg_text("TestifyMock_quickpair.cfg", Classes="<- GenClasses"),
                                             files={"TestifyMockGen.tla": gen_module(g)}, timeout=600)))
        jobs.append(("multi", pool.submit(run_tlc_export, ctx, "multi0", "TestifyMockGen",
                                          cfg_text("TestifyMock_multi.cfg", Classes="<- GenClasses"),
                                          files={"TestifyMockGen.tla": gen_module(multi_ids)}, timeout=600)))
        jobs.append(("look", pool.submit(run_tlc_export, ctx, "look0", "TestifyMockGen",
                                         cfg_text("TestifyMock_look.cfg", Classes="<- GenClasses"),
                                         files={"TestifyMockGen.tla": gen_module(look_ids)}, timeout=600)))
    else:
        for gi, g in enumerate(split(look_ids, 2)):
            jobs.append(("look", pool.submit(run_tlc_export, ctx, f"look{gi}", "TestifyMockGen",
                                             cfg_text("TestifyMock_look.cfg", Classes="<- GenClasses"),
                                             files={"TestifyMockGen.tla": gen_module(g)}, timeout=2400)))
        for gi, g in enumerate(split(ids, 4)):
            jobs.append(("single", pool.submit(run_tlc_export, ctx, f"single{gi}", "TestifyMockGen",
                                               cfg_text("TestifyMock_thorough.cfg", Classes="<- GenClasses"),
                                               files={"TestifyMockGen.tla": gen_module(g)}, timeout=2400, coverage=(gi == 0))))
        wide_ids = sorted(set(parse_prints(r0.text, "WIDE")) & set(byid))
        if len(wide_ids) < 10:
            raise MachineryError("no classes for the wide alphabets")
        for gi, g in enumerate(split(wide_ids, 4)):
            jobs.append(("wide", pool.submit(run_tlc_export, ctx, f"wide{gi}", "TestifyMockGen",
                                             cfg_text("TestifyMock_thorough.cfg", Classes="<- GenClasses", Level="= 2", MaxCalls="= 1"),
                                             files={"TestifyMockGen.tla": gen_module(g)}, timeout=2400)))
        # several expectations against each other: the curated classes and every third class of the shape product
        extra = [i for i in ids if i.startswith("t")]
        pair_thorough = [i for i in ids if not i.startswith("t")] + extra[::3]
        for gi, g in enumerate(split(pair_thorough, 3)):
            jobs.append(("pair", pool.submit(run_tlc_export, ctx, f"pair{gi}", "TestifyMockGen",
                                             cfg_text("TestifyMock_quickpair.cfg", Classes="<- GenClasses"),
                                             files={"TestifyMockGen.tla": gen_module(g)}, timeout=2400)))
        for gi, g in enumerate(split(ids, 2)):
            jobs.append(("multi", pool.submit(run_tlc_export, ctx, f"multi{gi}", "TestifyMockGen",
                                              cfg_text("TestifyMock_multi.cfg", Classes="<- GenClasses"),
                                              files={"TestifyMockGen.tla": gen_module(g)}, timeout=2400)))
        for gi, g in enumerate(split(ids, 2)):
            jobs.append(("sim", pool.submit(run_tlc_export, ctx, f"sim{gi}", "TestifyMockGen",
                                            cfg_text("TestifyMock_sim.cfg", Classes="<- GenClasses"),
                                            files={"TestifyMockGen.tla": gen_module(g)}, simulate="num=6000", depth=26,
                                            seed=ctx.seed * 10 + gi, timeout=2400)))

    # ------------------------------------------------------------ 2. ... while the real mocks are generated and built
    ctx.mockery()
    drv, alive, world = build_world(ctx, classes)
    alive_ids = {c["id"] for c in alive}
    if len(alive) < len(classes) // 2:
        raise MachineryError(f"only {len(alive)} of {len(classes)} classes produced a usable mock")

    st = {"byid": byid, "drv": drv, "alive_ids": alive_ids, "thorough": thorough, "pool": pool, "guard": new_guard(),
          "modes": {}, "exported": 0, "live": 0, "shared": 0, "random": 0, "steps": 0, "consumed": 0, "rejected": 0, "drift": 0,
          "setup_errors": 0, "nontrivial": 0, "cfgworld": 0, "seen_classes": set(), "selftest": None, "t_driver": 0.0, "t_tv": 0.0, "batches": 0}
    only = os.environ.get("C03_JOBS")      # development aid: restrict the TLC jobs that are used
    pending = []
    for kind, fut in jobs:
        if only and kind not in only.split(","):
            fut.cancel()
            continue
        r = fut.result()
        if r.violated:
            # a model-level counterexample is about the model, not about mockery: machinery
            raise MachineryError(f"TLC: {r.violated} violated on TestifyMock ({r.cfg}):\n" + r.tail())
        if not r.ok:
            raise MachineryError(f"TLC failed on TestifyMock ({r.cfg}):\n" + r.tail())
        ctx.cov["states"] += r.distinct
        ctx.cov["transitions"] += r.generated
        if thorough and r.cfg == "single0":
            z = [ln for ln in r.coverage_zero() if re.search(r"<(Expect|Call|Cleanup|UserErrorf|Init) ", ln)]
            if z:
                raise MachineryError("vacuous: spec actions never taken: " + "; ".join(z))
        cs = parse_prints(r.cases_file.read_text(), "CASE")
        r.cases_file.unlink()
        if kind == "look" and not thorough:     # quick: a seeded half of the look-alike transitions (thorough: all)
            cs = [c for c in cs if ctx.rng.random() < 0.5]
        st["modes"][kind] = st["modes"].get(kind, 0) + len(cs)
        st["exported"] += len(cs)
        for c in cs:
            c["mode"] = kind
            c["np"] = len(byid[c["class"]]["pk"])
        if thorough:                        # one batch per TLC job keeps the memory bounded
            process_batch(ctx, st, dedupe_prefixes(cs), r.cfg)
        else:
            pending += cs
    ctx.timing["tlc_wall_incl_batches" if thorough else "tlc_wall"] = round(time.time() - t_tlc, 1)
    if pending:
        process_batch(ctx, st, dedupe_prefixes(pending), "all")
    pending = None
    # ------------------------------------------------------------ 3. random long histories (judged by TLC only)
    n_rand, max_ops, max_exp = (60, 25, 4) if thorough else (6, 14, 3)
    process_batch(ctx, st, [random_history(ctx.rng, c, max_ops, max_exp) for c in alive for _ in range(n_rand)], "random")
    # ---- vacuity guards on what TLC exported
    zero = [k for k, v in st["guard"].items() if v == 0]
    if zero:
        raise MachineryError(f"vacuous: the exported behaviours never contain {zero}")
    if st["seen_classes"] != set(byid):
        raise MachineryError(f"vacuous: no behaviour exported for classes {sorted(set(byid) - st['seen_classes'])}")
    if not st["shared"] and not ctx.violations:
        raise MachineryError("no behaviour replayed on shared-file mocks")
    if not st["cfgworld"] and not ctx.violations:
        raise MachineryError("no behaviour replayed on configuration-world mocks")
    # keep the replay files few but the signatures distinct
    if len(ctx.violations) > 20:
        seen, keep = set(), []
        for sig, det in ctx.violations:
            sj = json.dumps(sig, sort_keys=True)
            if sj not in seen:
                seen.add(sj)
                keep.append((sig, det))
        ctx.violations[:] = keep + [v for v in ctx.violations if v not in keep][:max(0, 20 - len(keep))]

    # ------------------------------------------------------------ evidence
    import resource
    ctx.timing["python_max_rss_mb"] = resource.getrusage(resource.RUSAGE_SELF).ru_maxrss // 1024
    ctx.timing["children_max_rss_mb"] = resource.getrusage(resource.RUSAGE_CHILDREN).ru_maxrss // 1024
    ctx.timing["driver"] = round(st["t_driver"], 1)
    ctx.timing["trace_validation"] = round(st["t_tv"], 1)
    ctx.cov["distinct_nontrivial"] = st["nontrivial"]
    ctx.cov["trace_spec_selftest"] = st["selftest"]
    ctx.cov["rule"] = ("every Call/Cleanup transition TLC generated on TestifyMock.tla (one representative history each, prefixes merged) "
                       "+ seeded random histories; non-trivial = at least two operations before cleanup")
    ctx.cov.update({"signature_classes": len(classes), "classes_replayed": len(alive), "tlc_exported_transitions": st["exported"],
                    "behaviours_replayed": st["live"], "random_histories": st["random"], "behaviours_replayed_on_shared_file_mocks": st["shared"], "of_which_on_configuration_world_mocks": st["cfgworld"],
                    "shared_files": {lay: len(n) for lay, n in ctx.layouts.items()}, "steps_judged_by_tlc": st["steps"],
                    "trace_events_consumed": st["consumed"], "replies_rejected": st["rejected"], "exported_by_mode": st["modes"],
                    "vacuity": st["guard"], "impl_drift_steps": st["drift"], "setup_errors": st["setup_errors"], "batches": st["batches"],
                    "timing_s": ctx.timing})
    ctx.assumptions += [
        "testify v1.10.0 (pinned in go.mod) Arguments.Diff / findExpectedCall / checkExpectation transcribed into TestifyMock.tla and trusted",
        "small scope: per class <= 1 full-alphabet expectation x <= 2 calls (single), <= 2 plain expectations x <= 3 calls (pair); random histories <= %d ops" % max_ops,
        "the recording TestingT has the testing.TB method surface (Failed() true after Errorf/FailNow); a test that has already failed is part of the histories",
        "variadic matchers are registered by spread from one reused buffer per mock that is overwritten after every registration",
        "slice look-alike values ([]interface{} {V1,V2} / empty / {nil} / nil) only as variadic elements of ...interface{} / ...any methods; as values they ARE the slice of their elements (testify's ObjectsAreEqual), the model identifies the two",
        "only mock.Anything and equal-value matchers; no Maybe/NotBefore/WaitUntil/After; sequential use",
        "parameter names that do not compile today (r0, tmpRet, _va, _mock, _e, ...) are C01's business and not used here"]
    return {"level": "model_checking", "exhaustive": False}


def replay(ctx):
    """bin/check C03 --replay <file>: regenerate the mock of the recorded class with the working tree's mockery,
    replay the recorded history, let the contract (TLC, TestifyMockTrace) judge the real replies."""
    rec = json.loads(open(ctx.replay).read())
    det = rec["detail"]
    if "class" not in det:
        raise MachineryError("replay file records a file-level finding (shared output file): run the tier again instead")
    k = det["class"]
    ctx.timing = {}
    # the whole class set of the recorded tier is materialised again: a shared-file behaviour depends on its neighbours
    base = "ThoroughClasses" if rec.get("tier") == "thorough" else "QuickClasses"
    r0 = run_tlc(ctx, "classes", "TestifyMockMC", cfg_text("TestifyMock_quick.cfg", Classes="<- " + base, MaxExp="= 0", MaxCalls="= 0"), timeout=600)
    byid = {c["id"]: c for c in parse_prints(r0.text, "CLASS")}
    byid[k["id"]] = k
    ctx.cfgpkgs = parse_prints(r0.text, "CFGPKG")
    ctx.cfgplaces = [x for x in parse_prints(r0.text, "CFGPLACE") if x["class"] in byid]
    ctx.mockery()
    drv, alive, _ = build_world(ctx, [byid[i] for i in sorted(byid)])
    if k["id"] not in {c["id"] for c in alive}:
        return {"level": "model_checking", "exhaustive": False}       # the violation (not generated / does not compile) is recorded
    if "history" not in det:
        raise MachineryError("replay file has no history (class-level finding): it compiled this time")
    case = {"class": k["id"], "ops": det["history"], "random": True}
    lay = det.get("layout")
    if lay in ctx.layouts and k["id"] in ctx.layouts[lay]:
        case["layout"] = lay
    per = run_driver(ctx, drv, [case], "replay")
    evs = trace_events([case], per, byid)
    mism, _ = validate_chunks(ctx, evs, "replay", 1)
    ctx.cov["evaluations"] += 1
    ctx.cov["traces_validated_against_impl"] += 1
    ctx.cov["distinct_nontrivial"] = 1
    ctx.cov["rule"] = "one recorded history replayed"
    for m in mism:
        o = case["ops"][m["step"]]
        got = project(o, per[0][m["step"]])
        ctx.sample({"step": m["step"], "contract_expects": m["expect"], "real_mock_did": got})
        if o["op"] == "call":
            sig = {"kind": "reply-mismatch", "op": "call", "style": m["style"], "expected": m["expect"]["kind"], "observed": got["kind"],
                   "dev": m["dev"], "as_predicted": reply_ok(m["impl"], got), **cls_sig(k)}
        else:
            sig = {"kind": "cleanup-mismatch", "op": "cleanup", "expected": m["expect"], "observed": got["reported"], **cls_sig(k)}
        ctx.violation(sig, {"class": k, "history": case["ops"][:m["step"] + 1], "step": m["step"], "contract_expects": m["expect"], "real_mock_did": got})
    if not mism:
        ctx.sample({"replayed": ctx.replay, "verdict": "the contract accepts every reply of the recorded history"})
    return {"level": "model_checking", "exhaustive": False}


def guarded(ctx):
    try:
        if getattr(ctx, "replay", None):
            return replay(ctx)
        return run(ctx)
    except (MachineryError, subprocess.TimeoutExpired):
        raise
    except Exception as e:   # a bug in the harness is never a verdict
        import traceback
        raise MachineryError("internal error in checks/c03.py: " + repr(e) + "\n" + traceback.format_exc()[-1500:])


if __name__ == "__main__":
    main("C03", guarded)
