#!/usr/bin/env python3
"""C14 -- the data model handed to custom templates describes the interfaces faithfully.

Contract: spec/DataModel.tla (value of every boolean / fixed-string accessor per signature; the method set of
spec/Sig.tla each method once; names valid, distinct, not capturing; type parameters reproduced).

Binding: the programs TLC enumerated (Codegen/Sig families) are rendered in-package and out-of-package through the
probe template probes/datamodel/probe.templ, which assembles -- purely from the documented data model -- (a) an
interface Re_I from the Declarations under exactly the reported imports, (b) a forwarding wrapper from ArgList /
ReturnArgTypeList / ReturnStatement / Call, (c) identity checks for ArgTypeList / ArgTypeListEllipsis / Signature /
ArgCallList*, ReturnArgList / ReturnArgNameList, (d) declarations of every offered name next to the signature's
types, (e) the type-parameter list.  An assertion file concretised from the spec demands I <-> Re_I mutual
assignability, that the wrapper implements I, and that the constraints admit the same type arguments.  The Go
toolchain decides.  The dump the probe writes is turned into events and validated by TLC against
spec/DataModelTrace.tla (each method once; booleans as the contract says; names distinct / valid / uncaptured).

COVERAGE TABLE
  several per file       Multi family (orders generic->plain, plain->generic, generic(K,V)->generic(T), unexported in between): per-interface
                         expectation (PROG.dms), per-interface assertions; nothing may be inherited from the interface rendered before.
  imports exact          probe output under noop: a reported import no string uses is "imported and not used"; anonymous interfaces embedding
                         a foreign / stdlib interface whose methods mention a third package (one stratum per embedded interface).
  each method once       dump validated by TLC (DataModelTrace.tla) against Sig.tla MethodSet, all families incl. Ext, universe embeds.
  strings denote types   probe sections decl / fwd / lists / named / names / paramacc / tparam compiled in-package, in a separate package and in
                         the external _test package, with an assertion file from the spec.  ABSENT: AcceptsContext with a non-stdlib package
                         named context; accessors called with out-of-range ArgCallListSlice bounds.
  one variable, pkg twice  spec/DataModelShapes.tla Repeat: p.G[p.G[q.T]], map[p.E]p.G[q.T], func(p.T) p.G[q.T], struct fields, LG2[p.E, p.G[q.T]], behind
                         pointers/slices/chans; as parameter+result+variadic element, as the SOLE mention of q, and as type-parameter constraint.
  adjacent equal types   spec/DataModelShapes.tla Adjacent: (a, b E), (a, b E, cs ...E), (p int, xs, ys []E, zs ...E), (dst []E, src ...E), named and
                         unnamed, results too; probe section paramlists ties ArgTypeListEllipsis / ArgTypeList to the per-parameter accessors.
                         ABSENT: a TLC-side textual relation ArgList = join(MethodArg) (would be stronger than "denote"; the toolchain decides).
  every Param accessor   for .Params AND .Returns (Variadic, TypeStringEllipsis, TypeStringVariadicUnderlying, MethodArg, CallName, Nillable,
                         Var.*): DataModel.tla ExpParam / ExpResult.  POINT: IsSlice is dumped but has no contract value (named slice types absent).
  names                  distinct / valid / not capturing, user-written and GENERATED (GenPre), blank identifiers.
  type-parameter data    count, constraint equivalence both ways via zzC1 / zzC2, multi-element and recursive constraints.
                         ABSENT: TypeParam.Constraint (types.Type) is not inspected directly, only through the ensure line of C01.
"""
import json
import os
import re
import subprocess
import sys
import threading
import time

sys.path.insert(0, os.path.join(os.path.dirname(__file__), "..", "lib"))
from vlib import VERIF, MachineryError, main  # noqa: E402
import codegen_worlds as cw  # noqa: E402

GOSTR = re.compile(r'"(?:[^"\\]|\\.)*"')
_SIMPLE = {"a": 7, "b": 8, "f": 12, "n": 10, "r": 13, "t": 9, "v": 11, "\\": 92, '"': 34, "'": 39}


def go_unquote(tok):
    s = tok[1:-1]
    out = bytearray()
    i = 0
    while i < len(s):
        c = s[i]
        if c != "\\":
            out += c.encode("utf-8")
            i += 1
            continue
        n = s[i + 1]
        if n in _SIMPLE:
            out.append(_SIMPLE[n]); i += 2
        elif n == "x":
            out.append(int(s[i + 2:i + 4], 16)); i += 4
        elif n == "u":
            out += chr(int(s[i + 2:i + 6], 16)).encode("utf-8"); i += 6
        elif n == "U":
            out += chr(int(s[i + 2:i + 10], 16)).encode("utf-8"); i += 10
        elif n in "01234567":
            out.append(int(s[i + 1:i + 4], 8)); i += 4
        else:
            raise MachineryError("bad escape in probe dump: " + tok)
    return out.decode("utf-8", errors="replace")


def parse_dump(text):
    """//DM lines of one probe output -> {"imports": [...], "data": {...}, "ifaces": [{..., "methods": [...]}]}"""
    d = {"imports": [], "data": None, "ifaces": []}
    cur = None
    for ln in text.splitlines():
        if not ln.startswith("//DM "):
            continue
        kind = ln.split(" ", 2)[1]
        strs = [go_unquote(t) for t in GOSTR.findall(ln)]
        flags = dict(re.findall(r"(\w+)=(true|false)", GOSTR.sub("", ln)))
        flags = {k: v == "true" for k, v in flags.items()}
        if kind == "import":
            d["imports"].append({"path": strs[0], "qualifier": strs[1], "stmt": strs[2]})
        elif kind == "data":
            d["data"] = {"pkgname": strs[0], "srcq": strs[1]}
        elif kind == "iface":
            cur = {"name": strs[0], "struct": strs[1], "tconstraint": strs[2], "tinst": strs[3], "tparams": [], "methods": [], "ended": False}
            d["ifaces"].append(cur)
        elif kind == "tparam":
            cur["tparams"].append({"name": strs[0], "type": strs[1]})
        elif kind == "method":
            cur["methods"].append({"name": strs[0], "returnStatement": strs[1], "flags": flags, "params": [], "results": [], "strings": None})
        elif kind == "strings":
            keys = ["Declaration", "Signature", "ArgList", "ArgTypeList", "ArgTypeListEllipsis", "ArgCallList", "ArgCallListNoEllipsis",
                    "ReturnArgTypeList", "ReturnArgNameList", "ReturnArgList", "Call"]
            cur["methods"][-1]["strings"] = dict(zip(keys, strs))
        elif kind in ("param", "result"):
            cur["methods"][-1]["params" if kind == "param" else "results"].append(
                {"name": strs[0], "type": strs[1], "ellipsis": strs[2], "under": strs[3], "arg": strs[4], "call": strs[5], "callplain": strs[6],
                 "varname": strs[7], "vartype": strs[8], "variadic": flags.get("variadic"), "nillable": flags.get("nillable"),
                 "isslice": flags.get("isslice")})
        elif kind == "end":
            cur["ended"] = True
    return d


def render_passert(cs, prog):
    """assertion file for the probe output, concretised from the program (spec side)"""
    insrc = cs.cfg["place"] == "samepkg"

    def qual(p):
        if p == "SRC":
            return "" if insrc else "zsrc"
        return "z" + p.lower()
    r = cw.Renderer(qual)
    body = []
    for name in (prog.get("targets") or [prog["target"]]):      # every interface rendered into this file
        tps = prog["decls"][name]["tps"]
        tpdecl = cw.tparams_text(r, tps)
        tpuse = "[" + ", ".join(cw.conc_ident(tp["n"]) for tp in tps) + "]" if tps else ""
        n = cw.conc_ident(name)
        src = ("" if insrc else "zsrc.") + n + tpuse
        body += ["type zzSrc_%s%s interface{ %s } // A:harness" % (n, tpdecl, src),
                 "func zzM1_%s%s(a %s) Re_%s%s { return a } // A:assign" % (n, tpdecl, src, n, tpuse),
                 "func zzM2_%s%s(a Re_%s%s) %s { return a } // A:assign" % (n, tpdecl, n, tpuse, src),
                 "func zzW_%s%s(a %s) %s { return &Fw_%s%s{Inner: a} } // A:wrapper" % (n, tpdecl, src, src, n, tpuse),
                 "func zzC1_%s%s() { var _ Re_%s%s } // A:constraint" % (n, tpdecl, n, tpuse)]
    imps = []
    if not insrc:
        imps.append("\tzsrc \"%s\"" % cs.pkgpath)
    for p in sorted(r.used):
        imps.append("\t%s \"%s\"" % (qual(p), cw.PKGS[p][0]))
    out = ["// C14 assertions for %s (%s)" % (cs.pid, cs.cid), "package " + cs.outpkg, ""]
    if imps:
        out += ["import ("] + imps + [")", ""]
    return "\n".join(out + body + [""])


def passert_name(cs):
    return "zz_passert_ext_test.go" if cs.cfg["place"] == "ext_test" else "zz_passert.go"


def vars_bad(ev):
    """(only to LABEL a rejection TLC reported) which Param accessor of the event disagrees with the exported expectation?
    -> (accessor, the variable is not variadic but its type string contains "...") or None"""
    for vs, es in ((ev["params"], ev["exp_params"]), (ev["results"], ev["exp_results"])):
        if len(vs) != len(es):
            return ("count", False)
        for v, e in zip(vs, es):
            dots = (not e["variadic"]) and "..." in v["type"]
            if v["variadic"] != e["variadic"]:
                return ("variadic", dots)
            if e["nillable"] != "any" and v["nillable"] != (e["nillable"] == "true"):
                return ("nillable", dots)
            if not e["variadic"]:
                for acc, want in (("ellipsis", v["type"]), ("under", v["type"]), ("arg", v["name"] + " " + v["type"]), ("call", v["name"])):
                    if v[acc] != want:
                        return (acc, dots)
    return None


def section_of(world, relfile, line):
    try:
        ln = (world / relfile).read_text(errors="replace").splitlines()[int(line) - 1]
    except (OSError, IndexError, ValueError):
        return "?"
    m = re.search(r"// ([SA]):(\w+)", ln)
    return m.group(2) if m else "?"


def pick_programs(ctx, sp, tier):
    pids = cw.select_programs(ctx, sp, tier, scale=0.7 if tier == "quick" else 1.0)
    return pids


def load_shapes(ctx, tier, out):
    """C14's own families (spec/DataModelShapes.tla: Repeat, Adjacent) through Codegen.tla: PROG / PRED as for every other
    family, plus the DMCLASS lines (which programs contain the situations, decided by DataModel.tla predicates)."""
    try:
        cfg = "DataModelShapes_thorough.cfg" if tier == "thorough" else "DataModelShapes_quick.cfg"
        r = ctx.tlc("DataModelShapes", cfg, workers=1, timeout=1500 if tier == "thorough" else 400)
        out["r"] = r
    except BaseException as ex:      # re-raised by the caller (this runs in a thread)
        out["exc"] = ex


def merge_shapes(ctx, sp, out, tier):
    if "exc" in out:
        raise out["exc"]
    r = out["r"]
    if r.violated:
        raise MachineryError("Codegen.tla over DataModelShapes: %s violated at model level:\n%s" % (r.violated, cw.short_tail(r)))
    if not r.ok:
        raise MachineryError("TLC failed on DataModelShapes:\n%s" % cw.short_tail(r, 30))
    mine = []
    for x in r.prints("PROG"):
        pid = x["prog"]["pid"]
        if not x["wellformed"]:
            raise MachineryError("DataModelShapes produced an ill-formed program (not legal Go): " + pid)
        if pid in sp.progs:
            raise MachineryError("program ids are not unique: " + pid)
        sp.progs[pid] = x
        mine.append(pid)
    n = 0
    for x in r.prints("PRED"):
        if isinstance(x["imports"], list):
            x["imports"] = {}
        sp.preds[(x["pid"], x["tmpl"], bool(x["inpkg"]), bool(x["ens"]))] = x
        n += 1
    if not mine or n != 6 * len(mine):
        raise MachineryError("DataModelShapes export incomplete: %d programs, %d predictions" % (len(mine), n))
    klass = {x["pid"]: x for x in r.prints("DMCLASS")}
    if not set(mine) <= set(klass):
        raise MachineryError("DMCLASS lines missing for %d programs" % len(set(mine) - set(klass)))
    sp.tlc["datamodelshapes"] = {"generated": r.generated, "distinct": r.distinct, "wall": round(r.wall, 1), "programs": len(mine)}
    # harness job: which of the enumerated programs are executed.  Adjacent: all.  Repeat: thorough all; quick a seeded
    # 2 of the package pairs per (kind, position) stratum
    by = {}
    for pid in sorted(mine):
        pr = sp.progs[pid]["prog"]
        by.setdefault((pr["fam"], pr["feat"], pr["pos"]) if pr["fam"] == "repeat" else (pr["fam"], pid), []).append(pid)
    sel = []
    for st in sorted(by):
        k = len(by[st]) if tier == "thorough" or st[0] != "repeat" else min(2, len(by[st]))
        sel += ctx.rng.sample(by[st], k)
    return sel, klass


def run(ctx):
    tier = ctx.tier
    shp = {}
    th = threading.Thread(target=load_shapes, args=(ctx, tier, shp))
    th.start()
    time.sleep(1.0)          # ctx.tlc numbers its scratch directories: let the first call pick its own
    sp = cw.load_space(ctx, tier)
    th.join()
    cw.T(ctx, "space loaded")
    ctx.mockery()
    cw.T(ctx, "binary built")
    drv = ctx.build_driver("gofileinfo")
    pids = pick_programs(ctx, sp, tier)
    shape_pids, klass = merge_shapes(ctx, sp, shp, tier)
    pids += shape_pids
    cw.T(ctx, "DataModelShapes merged (%d programs run)" % len(shape_pids))
    base = {}
    for c in sp.cfgs:
        cfg = c["cfg"]
        if (cfg["tmpl"] == "testify" and cfg["fmt"] == "noop" and cfg["gomod"] == "plain" and not cfg["boilerplate"] and not cfg["buildtags"]
                and cfg["unroll"] == "unset" and cfg["ovr"] == "none" and cfg["place"] in ("samepkg", "subpkg", "ext_test")):
            base[cfg["place"]] = c
    if set(base) != {"samepkg", "subpkg", "ext_test"}:
        raise MachineryError("configuration export lacks the probe placements")
    # in-package, separate package, and -- where the signature mentions the package under test, or for a third of the
    # others -- the same-directory external test package (destination path == source path, but not in-package)
    pairs = []
    for pid in pids:
        prog = sp.progs[pid]["prog"]
        pls = ["samepkg", "subpkg"] if not prog.get("extpkg") else ["subpkg"]
        if not prog.get("extpkg") and (prog["localtypes"] or len(cw.reachable_decls(prog)) > 1 or ctx.rng.random() < 0.33):
            pls.append("ext_test")
        pairs += [(pid, base[pl]) for pl in pls]
    replay = cw.replay_pairs(ctx, sp)
    if replay:
        pairs = replay
    worlds = cw.build_worlds(ctx, sp, pairs)
    world, cases = worlds["plain"]
    probe = world / "probe.templ"
    probe.write_text((VERIF / "probes" / "datamodel" / "probe.templ").read_text())
    cw.T(ctx, "worlds built (%d cases)" % len(pairs))
    errs, _ = cw.typecheck(ctx, world, "sources", mode="build")
    cw.T(ctx, "sources type-check")
    if errs:
        raise MachineryError("concretised source packages do not type-check (harness bug): %s" % json.dumps(dict(list(errs.items())[:3])))
    entries = {cw.ekey(cs): (cs.cid, cw.mockery_entry(cs, template="file://" + str(probe),
                                                      extra={"require-template-schema-exists": False, "formatter": "noop"})) for cs in cases}
    # two placements of the same program are two cases with their own package: keys are unique
    res = cw.run_chunks(ctx, world, entries, "p", chunk=60, par=4)
    n_out = 0
    live = []
    not_eval = []
    for cs in cases:
        cs.mockery = res.get(cs.cid, (None, {"why": "no result"}))
        if cs.mockery[0] is None:
            not_eval.append(cs.cid)
            continue
        if not cs.pred["expect"]["guarantee"] and not cs.prog["guarantee"]:
            n_out += 1
            continue
        exported_ok = cs.cfg["place"] == "samepkg" or cs.pred["expect"]["guarantee"]
        if not exported_ok:
            n_out += 1       # types / target not nameable from another package: outside the guarantee
            continue
        live.append(cs)
    for cs in live:
        if cs.mockery[0]:
            (world / cs.outdir / passert_name(cs)).write_text(render_passert(cs, cs.prog))
    cw.T(ctx, "probe runs done")
    errs = cw.typecheck_detailed(ctx, world, "probe output")
    cw.T(ctx, "toolchain done")

    # ---------------------------------------------------------------- dump -> events (code -> spec)
    dumps = {}
    exprs, names = set(), set()
    for cs in live:
        if not cs.mockery[0]:
            continue
        d = parse_dump((world / cs.outdir / cs.outfile).read_text(errors="replace"))
        dumps[cs.cid] = d
        for x in d["ifaces"]:
            for m in x["methods"]:
                for p in m["params"] + m["results"]:
                    exprs.add(p["type"])
                    names.add(p["name"])
    # SrcPkgQualifier is outside the strings the statement lists; recorded only (it is the root of finding N1)
    dangling = sum(1 for d in dumps.values() if d["data"] and d["data"]["srcq"] and
                   d["data"]["srcq"].rstrip(".") not in {i["qualifier"] for i in d["imports"]})
    ctx.cov["srcpkgqualifier_not_among_reported_imports"] = dangling
    wd = ctx.mkdir()
    (wd / "in.json").write_text(json.dumps({"exprs": sorted(exprs), "names": sorted(names)}))
    p = subprocess.run([str(drv), "-exprs", str(wd / "in.json"), str(wd / "out.json")], capture_output=True, text=True, timeout=300)
    if p.returncode != 0:
        raise MachineryError("gofileinfo -exprs died: " + p.stderr[-400:])
    ana = json.loads((wd / "out.json").read_text())
    events = []
    for cs in live:
        d = dumps.get(cs.cid)
        if d is None:
            continue
        dms = {cw.conc_ident(n_): v for n_, v in sp.progs[cs.pid]["dms"].items()}
        events.append({"ev": "reset", "case": cs.cid})
        for x in d["ifaces"]:
            dm = dms.get(x["name"])                 # the expectation of THIS interface (several may share the file)
            if dm is None:
                raise MachineryError("probe rendered an interface the program does not declare: %s in %s" % (x["name"], cs.pid))
            exp_by = {cw.conc_ident(m["name"]): m for m in dm["methods"]}
            events.append({"ev": "begin", "case": cs.cid, "iface": x["name"], "ntparams": len(x["tparams"]), "exp_ntparams": len(dm["tparams"]),
                           "exp_methods": sorted(exp_by)})
            for m in x["methods"]:
                e = exp_by.get(m["name"])
                rep = {"nparams": len(m["params"]), "nreturns": len(m["results"]), "variadic": m["flags"].get("variadic"),
                       "returnsError": m["flags"].get("returnsError"), "hasParams": m["flags"].get("hasParams"),
                       "hasReturns": m["flags"].get("hasReturns"), "acceptsContext": m["flags"].get("acceptsContext"),
                       "returnStatement": m["returnStatement"]}
                expd = {k: e[k] for k in rep} if e else {}
                used = set()
                for pr in m["params"] + m["results"]:
                    a = ana["exprs"].get(pr["type"], {"ok": False})
                    if a.get("ok"):
                        used |= set(a["idents"]) | set(a["quals"])
                nms = [pr["name"] for pr in m["params"] + m["results"]]
                def proj(v):
                    # Var.Name / Var.TypeString / CallName false must agree with Name / TypeString
                    ok = v["varname"] == v["name"] and v["vartype"] == v["type"] and v["callplain"] == v["name"]
                    return {"name": v["name"], "type": v["type"] if ok else "<Var accessors disagree>", "ellipsis": v["ellipsis"], "under": v["under"],
                            "arg": v["arg"], "call": v["call"], "variadic": bool(v["variadic"]), "nillable": bool(v["nillable"])}
                events.append({"ev": "method", "case": cs.cid, "name": m["name"], "rep": rep, "exp": expd, "names": nms,
                               "params": [proj(v) for v in m["params"]], "results": [proj(v) for v in m["results"]],
                               "exp_params": e["params"] if e else [], "exp_results": e["results"] if e else [],
                               "valid": [bool(ana["names"].get(n_)) for n_ in nms], "used": sorted(used)})
            if x["ended"]:
                events.append({"ev": "end", "case": cs.cid})
    # always-on binding self-test: three corrupted copies of an accepted recording must be rejected by the contract
    tmpl_case = next((cs.cid for cs in live if cs.cid in dumps and len(cs.pred["methods"]) >= 1 and not cs.pred["modelissues"]
                      and cs.prog["idclass"] in ("ordinary", "common") and cs.prog["fam"] == "ident"), None)
    corrupt = []
    if tmpl_case:
        base_ev = [e for e in events if e["case"] == tmpl_case]
        mi = next(i for i, e in enumerate(base_ev) if e["ev"] == "method")
        for tag, fn in (("twice", lambda ev: ev[:mi + 1] + [ev[mi]] + ev[mi + 1:]),
                        ("dropped", lambda ev: ev[:mi] + ev[mi + 1:]),
                        ("flag", lambda ev: ev[:mi] + [dict(ev[mi], rep=dict(ev[mi]["rep"], variadic=not ev[mi]["rep"]["variadic"]))] + ev[mi + 1:]),
                        ("result-variadic", lambda ev: ev[:mi] + [dict(ev[mi], results=[dict(r_, variadic=True) for r_ in ev[mi]["results"]] or [{"name": "x", "type": "int", "ellipsis": "int", "under": "int", "arg": "x int", "call": "x", "variadic": True, "nillable": False}])] + ev[mi + 1:]),
                        ("dupname", lambda ev: ev[:mi] + [dict(ev[mi], names=ev[mi]["names"] + ev[mi]["names"][:1], valid=ev[mi]["valid"] + [True])] + ev[mi + 1:])):
            cid = "selftest-" + tag
            corrupt.append(cid)
            events += [dict(e, case=cid) for e in fn(base_ev)]
    rejected_cases = {}
    for i in cw.validate_events(ctx, "DataModelTrace", "DataModelTrace.cfg", events):
        rejected_cases.setdefault(events[i]["case"], events[i])
    missed = [c_ for c_ in corrupt if c_ not in rejected_cases]
    if missed or (not corrupt and len(dumps) > 20 and not replay):
        raise MachineryError("binding self-test: corrupted recordings were accepted by DataModelTrace.tla: %s" % (missed or "none built"))
    for c_ in corrupt:
        rejected_cases.pop(c_)
    ctx.cov["selftest_corrupted_recordings_rejected"] = len(corrupt)
    n_ok = sum(1 for e in events if e["ev"] == "reset") - len(rejected_cases) - len(corrupt)
    ctx.cov["traces_validated_against_impl"] += n_ok + len(rejected_cases)
    cw.T(ctx, "dump validated by TLC (%d events)" % len(events))

    # ---------------------------------------------------------------- verdicts
    n_eval = 0
    for cs in live:
        sig = cs.sig()
        sig["template"] = "probe"
        ok_m, det = cs.mockery
        detail = {"case": cs.brief(), "source": cw.source_text(cs), "expected_data": sp.progs[cs.pid]["dm"]}
        n_eval += 1
        tags = set(cs.pred["modelissues"])
        for e_ in cs.pred["issues"]:          # template-independent deviations of the code-shaped model
            tags |= set(e_["tags"]) & {"tparam-case", "param-vs-tparam"}
        for t_ in tags:
            sig["tag:" + t_] = True
        if not ok_m:
            ctx.violation(dict(sig, kind="probe-run-failed", errclass="exit"), dict(detail, mockery=det))
            continue
        e = errs.get(cs.outdir)
        if e:
            fname, line, msg = e
            sec = section_of(world, fname, line)
            if sec == "harness" or (os.path.basename(fname) == passert_name(cs) and sec == "?"):
                raise MachineryError("C14 assertion scaffolding does not type-check for %s: %s" % (cs.cid, e))
            sig2 = dict(sig, kind="toolchain", section=sec, errclass=cw.errclass(msg), errsubject=cw.err_subject("%s:%d: %s" % (fname, line, msg), cs))
            ctx.violation(sig2, dict(detail, error=e, generated=(world / cs.outdir / cs.outfile).read_text(errors="replace")[:7000],
                                     assertions=(world / cs.outdir / passert_name(cs)).read_text()))
            continue
        if cs.cid in rejected_cases:
            ev = rejected_cases[cs.cid]
            why = "?"
            if ev["ev"] == "method":
                nm = ev["names"]
                why = ("booleans" if ev["rep"] != ev["exp"] else "param-accessors" if vars_bad(ev) else "names-invalid" if not all(ev["valid"]) else
                       "names-duplicate" if len(set(nm)) != len(nm) else "names-capture" if set(nm) & set(ev["used"]) else "method-unexpected-or-twice")
            elif ev["ev"] == "end":
                why = "method-missing"
            elif ev["ev"] == "begin":
                why = "tparams"
            extra = {}
            if why == "param-accessors":
                extra = {"accessor": vars_bad(ev)[0], "nonvariadic_type_has_ellipsis": vars_bad(ev)[1]}
            ctx.violation(dict(sig, kind="contract-rejects-dump", why=why, **extra), dict(detail, rejected_event=ev, spec="spec/DataModelTrace.tla"))
    if not_eval and not ctx.violations:
        raise MachineryError("%d cases were not evaluated and no violation explains it" % len(not_eval))
    if n_eval < 100 and not getattr(ctx, "replay", None):
        raise MachineryError("vacuous: only %d cases evaluated" % n_eval)
    kinds = {cs.prog["fam"] for cs in live}
    if not replay and not {"shape", "ident", "pkgs", "generic", "embed", "unnamed", "repeat", "adjacent"} <= kinds:
        raise MachineryError("vacuous: families missing from the executed sample: %s" % kinds)
    if not replay:
        # the widened input classes really ran (classification by DataModel.tla predicates, exported as DMCLASS)
        ran = {}
        for cs in live:
            k = klass.get(cs.pid)
            if k is None or cs.cid not in dumps:
                continue
            if k["repeated"]:
                ran.setdefault(("repeated", cs.prog["pos"], cs.cfg["place"] == "samepkg"), set()).add(cs.pid)
            for m_ in k["sameasnext"]:
                if m_["slice_then_variadic"]:
                    ran.setdefault(("slice-then-variadic",), set()).add(cs.pid)
                for i_ in m_["at"]:
                    ran.setdefault(("same-as-next", "first" if i_ == 1 else "last" if i_ == m_["nparams"] - 1 else "middle"), set()).add(cs.pid)
        need = [("repeated", pos_, inp_) for pos_ in ("sig", "sole", "tparam") for inp_ in (True, False)] + \
               [("slice-then-variadic",), ("same-as-next", "first"), ("same-as-next", "middle"), ("same-as-next", "last")]
        lack = [n_ for n_ in need if not ran.get(n_)]
        if lack:
            raise MachineryError("vacuous: input classes of DataModelShapes.tla not executed: %s" % lack)
        ctx.cov["datamodelshapes_classes_run"] = {"/".join(map(str, k_)): len(v_) for k_, v_ in sorted(ran.items())}
    ctx.cov["evaluations"] = n_eval
    ctx.cov["distinct_nontrivial"] = len({(cs.pid, cs.cfg["place"]) for cs in live if sp.progs[cs.pid]["methods"]})
    ctx.cov["rule"] = ("one evaluation = one (program, in/out-of-package) probe output type-checked with its assertion file and its dump "
                       "validated by TLC; non-trivial = the interface has at least one method")
    ctx.cov.update({"programs_enumerated": len(sp.progs), "cases_executed": len(cases), "outside_guarantee": n_out,
                    "dump_events": len(events), "tlc": sp.tlc, "concretisation": cw.concretisation_table()})
    okc = [cs for cs in live if cs.mockery[0] and not errs.get(cs.outdir) and cs.cid not in rejected_cases]
    for cs in ctx.rng.sample(okc, min(3, len(okc))):
        d = dumps[cs.cid]
        ctx.sample({"program": cs.pid, "placement": cs.cfg["place"], "reported_imports": d["imports"],
                    "declarations": [m["strings"]["Declaration"] for x in d["ifaces"] for m in x["methods"]][:4], "result": "type-checks; dump accepted"})
    ctx.assumptions += ["program space as in spec/CodegenMC.tla", "the probe uses MethodScope.AllocateName for its own locals",
                        "SrcPkgQualifier is not used by the probe (the assertion file names the source package itself)"]
    return {"level": "model_checking", "exhaustive": False}


if __name__ == "__main__":
    main("C14", run)
