#!/usr/bin/env python3
"""C19 -- `mockery migrate` carries every supported v2 setting to its v3 place unchanged.

1. TLC checks the code-shaped model of migrate.go (spec/Migrate.tla: strict decode, migrateConfig transcribed
   field by field, per-level walk, template choice, encode) against the contract (spec/MigrateContract.tla,
   TreeOK) for every v2 tree of the enumerated families: every key x level (two value styles, explicit
   null; string-valued settings in seven more styles a normaliser would alter: non-clean paths, templates with
   inner quotes, bool/number/date look-alikes, NFC/NFD unicode, very long, empty, trailing blank), pairs of keys
   at one level, every level subset per key, every tree shape (null configs, null
   interfaces, empty/missing packages, one/two configs entries ...), odd package/interface names, inputs
   that are not v2 files, and every layout (working directory same / below / beside the v2 file x --config
   relative / absolute / discovered x --outfile absent / relative / same base name as the input / absolute x
   stale output); the thorough tier adds all pairs and -simulate random subsets of the full key set.
2. Every case is exported with the contract's expectation per level (`req`, `may`, computed in TLA+),
   materialised as a YAML/JSON v2 file and run through the REAL `mockery migrate`; the written v3 file is
   read back with PyYAML and loaded with the real `mockery showconfig` (strict loader).
3. The op log (input hash before/after, exit, panic, v3 tree, loaded values) is validated by TLC against
   spec/MigrateTrace.tla, which evaluates TreeOK / LoadedOK / FilesOK on what the real code produced.

Coverage table (statement clause / quantifier dimension -> where it is explored -> what is still thin)
  every v2 key x every level         single (45 keys x 7 levels x 2 styles), null; THIN: none known.
  subsets of keys per level          pairs (quick 4 keys x all x 2 levels; thorough all x all x 7), level subsets per key,
                                     "everything" trees per shape, -simulate random subsets.  THIN: triples only by simulation.
  tree shapes                        11 shapes: null config / interface / package bodies, empty and missing maps, 0/1/2
                                     configs entries, config + configs together, 1-2 packages, 2 interfaces.
                                     THIN: large trees (50 packages x 5 interfaces), > 2 configs entries, > 2 packages.
  values ("same value" = bytes)      11 styles: plain, YAML-significant, non-clean paths, templates with quotes, look-alikes
                                     (quoted AND bare), NFC/NFD, long, empty, trailing blanks, level-independent; both
                                     boolean polarities, yes/no/on/off spellings, lists, maps, explicit null.
                                     THIN: numbers with exponent/underscore forms, multi-line block scalars in the INPUT.
  input rendering                    JSON, block YAML (PyYAML), flow YAML with anchors / aliases / merge keys, bare scalars.
                                     THIN: comments, multiple documents, BOM, CRLF line ends, tabs, duplicate keys only as
                                     "not a v2 file".
  names preserved                    35 odd package / interface names (sets compared, order not promised).
  input left unmodified / files      35 layouts (cwd same / below / beside the v2 file x --config rel / abs / discovered x
                                     --outfile absent / rel / same base name / abs / the input itself) x stale output; every
                                     file of the scratch tree compared.  THIN: unwritable output directory (root), symlinked
                                     input or output, output path that is a directory.
  never crashes                      every case + 10 kinds of non-v2 input (unknown keys, wrong types, not YAML, v3 file, list,
                                     duplicate key, absent input, directory as input).  THIN: stdout is never a terminal here
                                     (probed by hand: widths 0-200 do not crash the deprecation table).
  strict loader accepts              showconfig on every written file, found by search (no flag).
  settings WITHOUT a v3 counterpart  every documented value form (Migrate.tla DocForms: replace-type entry micro-syntax -- pkg.T=pkg.T,
                                     aliased, whole package, standard-library / predeclared side without a dot, type-parameter
                                     selectors, blanks, no '=', degenerate sides, empty entry, empty list, several entries;
                                     filename / structname / packageprefix templates; case, tags, note, name, output, srcpkg,
                                     profile values; both polarities of the 18 deleted booleans) x level kind (quick: top, package,
                                     interface, configs entry; thorough: all 7) as single-key trees, plus whole trees where
                                     every key carries its n-th documented form, in every shape; random subsets draw them too.
                                     Quick tier: the plain-valued ones ("doc" family) are sampled by ctx.rng, the parsed ones
                                     ("docsyn") run fully.  THIN: documented forms of the MAPPED keys beyond the marker styles.
"""
import json
import os
import re
import shutil
import subprocess
import sys
import threading
import time
from concurrent.futures import ThreadPoolExecutor
from pathlib import Path

sys.path.insert(0, os.path.join(os.path.dirname(__file__), "..", "lib"))
import vlib  # noqa: E402
from vlib import MachineryError, main, sha, tree_hash, go_env, PANIC_RE  # noqa: E402

try:
    import yaml
except ImportError:  # pragma: no cover
    yaml = None

# ------------------------------------------------------------------ concretisation of names
PKG_A, PKG_B, IF_I, IF_J = "example.com/w/a", "example.com/w/b", "Iface", "Jface"
NAMES = {
    "n_true": "true", "n_null": "null", "n_int": "123", "n_float": "1.5", "n_colonsp": "a: b", "n_hash": "a #b",
    "n_brace": "{a}", "n_brack": "[a]", "n_star": "*a", "n_amp": "&a", "n_bang": "!a", "n_pipe": "| a", "n_gt": "> a",
    "n_pct": "%a", "n_at": "@a", "n_bt": "`a", "n_squote": "it's", "n_dquote": 'say "x"', "n_dash": "- a", "n_q": "? a",
    "n_lead": " a", "n_trail": "a ", "n_empty": "", "n_uni": "\u00e9/\u00fc\U0001F600", "n_nl": "a\nb", "n_tab": "a\tb",
    "n_dots": "a.b.c", "n_bar": "a|b|c", "n_tilde": "~", "n_yes": "yes", "n_merge": "<<", "n_long": "/".join(["x" * 40] * 8),
    "n_tpl": "{{.InterfaceName}}", "n_date": "2001-01-01", "n_comma": "a, b",
}
assert len(set(NAMES.values())) == len(NAMES)


def name_class(s_):
    if s_ == "<<":
        return "merge-key"
    if "\n" in s_ and s_[:1] in ("\n", "\t", "\u2028", "\u2029"):
        return "multiline-starting-with-tab-or-linebreak"
    return "other"


def canon(v):
    return json.dumps(v, sort_keys=True, separators=(",", ":"), ensure_ascii=False)


def fn(x):
    """TLC prints an empty function as []."""
    return {} if x == [] else x


def names_of(case):
    a, b, i, j = PKG_A, PKG_B, IF_I, IF_J
    nm = case["nm"]
    if nm["id"] != "-":
        if nm["pos"] == "pkg":
            a = NAMES[nm["id"]]
        else:
            i = NAMES[nm["id"]]
    return a, b, i, j


# ------------------------------------------------------------------ materialise the v2 file
class Lvl(dict):
    """A configuration level (marks the maps the alias / bare renderers treat specially)."""


if yaml is not None:
    yaml.SafeDumper.add_representer(Lvl, lambda d, v: d.represent_dict(list(v.items())))

V2_BOOL = {"all", "recursive", "unroll-variadic", "with-expecter", "disable-config-search", "disable-deprecation-warnings",
           "disable-func-mocks", "disable-version-string", "dry-run", "exported", "fail-on-missing", "inpackage",
           "inpackage-suffix", "include-auto-generated", "issue-845-fix", "keeptree", "print", "quiet",
           "resolve-type-alias", "testonly", "version"}
V2_UNTYPED = {"_anchors"}


def level_map(case, L):
    m = fn(case["v2"].get(L, {}))
    return Lvl((k, json.loads(t)) for k, t in m.items())


def render_flow(doc, mode):
    """Hand-written YAML (flow style, JSON scalars) for the two renderings PyYAML cannot produce:
      alias: a level map equal to an earlier one is written as an alias, one that extends an earlier one with a
             merge key (`<<: *a1`), every other one gets an anchor;
      bare:  values of the typed string fields are written unquoted (they look like numbers / booleans / dates),
             booleans as yes / no / on / off."""
    seen = []            # (anchor, items) of the level maps emitted so far
    flip = [0]

    def scalar(v, bare):
        if isinstance(v, bool):
            if bare:
                flip[0] += 1
                return (("yes", "on") if v else ("no", "off"))[flip[0] % 2]
            return "true" if v else "false"
        if v is None:
            return "null"
        if isinstance(v, str):
            return v if bare and v and not set(v) & set(" :#{}[],&*!|>'\"%@`\n\t") else json.dumps(v, ensure_ascii=False)
        return json.dumps(v)

    def emit(v, bare=False):
        if isinstance(v, Lvl) and mode == "alias" and v:
            items = set((k, json.dumps(x, sort_keys=True)) for k, x in v.items())
            for name, its in seen:
                if its == items:
                    return "*" + name
            name = "a%d" % (len(seen) + 1)
            base = next(((n_, its) for n_, its in seen if its < items), None)
            seen.append((name, items))
            if base:
                rest = {k: x for k, x in v.items() if (k, json.dumps(x, sort_keys=True)) not in base[1]}
                return "&%s {<<: *%s, %s}" % (name, base[0], ", ".join(json.dumps(k) + ": " + emit(x) for k, x in rest.items()))
            return "&%s {%s}" % (name, ", ".join(json.dumps(k) + ": " + emit(x) for k, x in v.items()))
        if isinstance(v, dict):
            typed = isinstance(v, Lvl) or v is doc
            return "{" + ", ".join(json.dumps(k, ensure_ascii=False) + ": " +
                                   emit(x, mode == "bare" and typed and k not in V2_UNTYPED and k != "packages") for k, x in v.items()) + "}"
        if isinstance(v, list):
            return "[" + ", ".join(emit(x, bare and not isinstance(x, (dict, list))) for x in v) + "]"
        return scalar(v, bare)

    return (emit(doc) + "\n").encode("utf8")


def build_v2(case):
    sh = case["shape"]
    a, b, i, j = names_of(case)
    top = level_map(case, "top")
    doc = Lvl(top)

    def cfg(L, null=False):
        return None if null else level_map(case, L)

    if sh == "nopkgs":
        return doc
    if sh == "emptypkgs":
        doc["packages"] = {}
        return doc
    if sh == "nullpkg":
        doc["packages"] = {a: None, b: None}
        return doc
    nullc = sh == "nullcfg"
    pa = {"config": cfg("pkgA", nullc)}
    if sh == "emptyifaces":
        pa["interfaces"] = {}
    elif sh == "nulliface":
        pa["interfaces"] = {i: None, j: None}
    else:
        ii = {"config": cfg("ifaceI", nullc)}
        if sh == "nullconfigs":
            ii["configs"] = None
        elif sh == "noentries":
            pass
        elif sh == "oneentry":
            ii["configs"] = [level_map(case, "e1")]
        else:
            ii["configs"] = [level_map(case, "e1"), level_map(case, "e2")]
        pa["interfaces"] = {i: ii, j: {"config": cfg("ifaceJ", nullc)}}
    doc["packages"] = {a: pa}
    if sh != "onepkg":
        doc["packages"][b] = {"config": cfg("pkgB", nullc)}
    return doc


def spoil(case, doc):
    """The ways the input is NOT a decodable v2 file."""
    bad = case["bad"]
    a, b, i, j = names_of(case)
    if bad == "unknown-key-top":
        doc["pkgname"] = "x"          # a v3-only key: strict decoding must refuse
    elif bad == "unknown-key-pkg":
        doc["packages"][a]["config"]["bogus-key"] = 1
    elif bad == "unknown-key-entry":
        doc["packages"][a]["interfaces"][i]["configs"][0]["force-file-write"] = True
    elif bad == "wrong-type":
        doc["all"] = ["not", "a", "bool"]
    elif bad == "v3-file":
        doc = {"structname": "X", "template": "testify", "packages": {a: {"config": {"all": True}}}}
    elif bad == "list-top":
        return json.dumps(["a", "list"]).encode()
    elif bad == "dup-key":
        return b"all: true\nall: false\npackages: {}\n"
    elif bad in ("absent-input", "input-is-dir"):
        return bad.encode()          # handled by replay_case: no file / a directory at the --config path
    elif bad == "not-yaml":
        return b"\x00\xff{{{ not: [yaml\n\t- at all"
    return doc


def dump(doc, style):
    if isinstance(doc, bytes):
        return doc
    if style in ("alias", "bare"):
        return render_flow(doc, style)
    if style == "json":
        return json.dumps(doc, ensure_ascii=False, indent=1).encode("utf8")
    return yaml.safe_dump(doc, default_flow_style=False, allow_unicode=True, sort_keys=False, width=10 ** 6).encode("utf8")


# ------------------------------------------------------------------ projections
def flatten(conf):
    """v3 config map -> path -> canonical JSON text (template-data flattened one level)."""
    out = {}
    if conf is None:
        return out
    if not isinstance(conf, dict):
        return {"<not a map>": canon(conf)}
    for k, v in conf.items():
        k = k if isinstance(k, str) else "<non-string key %r>" % (k,)
        if k == "template-data" and isinstance(v, dict) and v:
            for k2, v2 in v.items():
                out["template-data." + str(k2)] = canon(v2)
        else:
            out[k] = canon(v)
    return out


def project_tree(y, case, conf_key=None, for_load=False):
    """YAML document (v3 file, or showconfig output) -> level id -> path -> text.
    Names are mapped back to level ids; an unknown name becomes a level id of its own."""
    a, b, i, j = names_of(case)
    v2pos = set(case["v2"].keys())
    tree = {}
    if not isinstance(y, dict):
        return {"<document is not a map>": {}}
    if conf_key:
        top = y.get(conf_key) if isinstance(y.get(conf_key), dict) else {}
    else:
        top = {k: v for k, v in y.items() if k != "packages"}
    tree["top"] = flatten(top)
    pk = y.get("packages")
    if pk is None:
        return tree
    if not isinstance(pk, dict):
        tree["<packages is not a map>"] = {}
        return tree
    for pname, pv in pk.items():
        pid = {a: "pkgA", b: "pkgB"}.get(pname, "?pkg:%r" % (pname,))
        pv = pv or {}
        if not isinstance(pv, dict):
            tree[pid] = {"<not a map>": canon(pv)}
            continue
        tree[pid] = flatten(pv.get("config"))
        extra = {k: v for k, v in pv.items() if k not in ("config", "interfaces")}
        if extra:
            tree[pid]["<extra package keys>"] = canon(extra)
        for iname, iv in (pv.get("interfaces") or {}).items():
            iid = {i: "ifaceI", j: "ifaceJ"}.get(iname, "?iface:%r" % (iname,)) if pid == "pkgA" else "?iface:%s:%r" % (pid, iname)
            iv = iv or {}
            if not isinstance(iv, dict):
                tree[iid] = {"<not a map>": canon(iv)}
                continue
            tree[iid] = flatten(iv.get("config"))
            ents = iv.get("configs") or []
            if for_load:
                # the loader synthesises one entry for an interface that has none: not part of the migrated file
                want = len([L for L in ("e1", "e2") if L in v2pos]) if iid == "ifaceI" else 0
                if want == 0 and len(ents) == 1:
                    ents = []
            for n, ev in enumerate(ents):
                eid = ("e%d" % (n + 1)) if iid == "ifaceI" else "?entry:%s:%d" % (iid, n + 1)
                tree[eid] = flatten(ev)
    return tree


class Runner:
    def __init__(self, ctx):
        self.bin = str(ctx.mockery())

    def mockery(self, cwd, args, timeout=120):
        try:
            p = subprocess.run([self.bin, *args], cwd=cwd, env=go_env(), capture_output=True, timeout=timeout)
        except subprocess.TimeoutExpired:
            raise MachineryError(f"mockery {args} timed out after {timeout}s")
        return p.returncode, p.stdout.decode("utf8", "replace"), p.stderr.decode("utf8", "replace")


def layout_paths(case, idx, R):
    """Concretise the layout record exported by TLC: directories, the v2 file, argv, and the location ids."""
    lay = case["lay"]
    proj, deep, legacy, absdir = R / "proj", R / "proj" / "sub" / "deeper", R / "legacy", R / "absout"
    for x in (proj, deep, legacy, absdir):
        x.mkdir(parents=True, exist_ok=True)
    cfgdir, cwd = {"same": (proj, proj), "child": (proj, deep), "sibling": (legacy, proj)}[lay["cwd"]]
    if lay["cfg"] == "discover":
        name = ".mockery.yaml" if idx % 2 == 0 else ".mockery.yml"
    else:
        name = "v2 conf.yml" if idx % 2 == 0 else ".mockery.yaml"
    inp = cfgdir / name
    args = ["migrate"]
    if lay["cfg"] == "rel":
        args += ["--config", os.path.relpath(inp, cwd)]
    elif lay["cfg"] == "abs":
        args += ["--config", str(inp)]
    loc = case["outloc"]
    base, _, rel = loc.partition(":")
    rel = rel.replace("<input base name>", name)
    outp = (cwd / rel) if base == "cwd" else (absdir / rel)
    if lay["out"] == "rel":
        (cwd / "out").mkdir(exist_ok=True)
        args += ["--outfile", rel]
    elif lay["out"] == "samebase":
        args += ["--outfile", name]
    elif lay["out"] == "abs":
        args += ["--outfile", str(outp)]
    elif lay["out"] == "input":          # the same string as --config
        outp = inp
        args += ["--outfile", args[args.index("--config") + 1]]
    return cwd, inp, outp, args


def replay_case(ctx, run, idx, case, style=None):
    R = ctx.scratch / "cases" / f"c{idx}-{style or 'x'}"
    R.mkdir(parents=True)
    (R / "go.mod").write_text("module example.com/w\n\ngo 1.23\n")
    if case["bad"] == "none" and case["vi"] in (10, 11):
        style = "alias" if case["vi"] == 10 else "bare"       # these two styles ARE a rendering of the input
    style = style or ("json" if idx % 2 == 0 else "yaml")
    lay = case["lay"]
    doc = build_v2(case)
    if case["bad"] != "none":
        doc = spoil(case, doc)
    raw = dump(doc, style)
    cwd, inp, outp, args = layout_paths(case, idx, R)
    if raw == b"absent-input":
        pass
    elif raw == b"input-is-dir":
        inp.mkdir()
    else:
        inp.write_bytes(raw)
    if isinstance(doc, dict) and style in ("alias", "bare", "yaml"):
        # machinery check: the rendering must read back (independent reader) as the intended tree
        try:
            back = yaml.safe_load(raw.decode("utf8"))
        except Exception as e:
            raise MachineryError(f"rendering {style} of case {idx} is not YAML: {e}")
        if style != "bare" and json.dumps(back, sort_keys=True, default=str) != json.dumps(doc, sort_keys=True, default=str):
            raise MachineryError(f"rendering {style} of case {idx} does not read back as the intended v2 tree")
    if lay["stale"]:
        outp.write_text("# stale\n" + "stale-key: [" + "x" * 20000 + "]\n")
    before = tree_hash(R)
    h0 = sha(inp.read_bytes()) if inp.is_file() else "no-file"
    code, out, err = run.mockery(cwd, args)
    h1 = sha(inp.read_bytes()) if inp.is_file() else ("no-file" if h0 == "no-file" else "gone")
    after = tree_hash(R)
    # every file created / modified / removed, as location ids
    rin, rout = os.path.relpath(inp, R), os.path.relpath(outp, R)
    changed = []
    for pth in sorted(set(before) | set(after)):
        if before.get(pth) != after.get(pth):
            changed.append("input" if pth == rin else case["outloc"] if pth == rout else "other:" + pth)
    panic = bool(PANIC_RE.search(err) or PANIC_RE.search(out))
    wrote = outp.is_file() and not (lay["stale"] and outp.read_bytes().startswith(b"# stale"))
    v3tree, v3err = {}, None
    if lay["out"] == "input":
        wrote = False
    if outp.is_file() and code == 0 and wrote:
        try:
            y = yaml.safe_load(outp.read_bytes().decode("utf8"))
            v3tree = project_tree(y, case)
        except Exception as e:
            v3tree = {"<v3 file unreadable: %s>" % type(e).__name__: {}}
            v3err = str(e)[:300]
    v2canon = {L: {k: canon(json.loads(t)) for k, t in fn(m).items()} for L, m in case["v2"].items()}
    events = [{"op": "case", "case": idx, "v2": v2canon, "decodable": case["bad"] == "none", "lay": lay},
              {"op": "migrate", "case": idx, "exit": code, "panic": panic, "in_before": h0, "in_after": h1,
               "wrote": bool(wrote), "changed": changed, "v3": v3tree}]
    ob = {"migrate": {"exit": code, "panic": panic, "input_unchanged": h0 == h1, "changed": changed,
                      "wrote": bool(wrote), "v3": v3tree, "v3err": v3err, "tail": (err + out)[-500:]},
          "style": style, "argv": args, "cwd": os.path.relpath(cwd, R), "input": rin, "expected_output": rout,
          "v2_text": raw.decode("utf8", "replace")[:4000],
          "v3_text": outp.read_text(errors="replace")[:4000] if outp.is_file() else None}
    if case["bad"] == "none" and code == 0 and wrote:
        # load it the way a user would after renaming it: found by search, no --config flag (a flag would
        # override the file's own `config` value, CLI > file)
        ld = R / "load"
        ld.mkdir()
        shutil.copy(R / "go.mod", ld / "go.mod")
        shutil.copy(outp, ld / ".mockery.yml")
        lcode, lout, lerr = run.mockery(ld, ["showconfig"])
        lpanic = bool(PANIC_RE.search(lerr))
        eff = {}
        if lcode == 0:
            try:
                eff = project_tree(yaml.safe_load(lout), case, conf_key="Config", for_load=True)
            except Exception as e:
                eff = {"<showconfig output unreadable: %s>" % type(e).__name__: {}}
        events.append({"op": "load", "case": idx, "exit": lcode, "panic": lpanic, "eff": eff})
        ob["load"] = {"exit": lcode, "panic": lpanic, "eff": eff, "tail": "\n".join(x for x in lerr.splitlines() if " DBG " not in x)[-600:]}
    if not os.environ.get("VERIF_KEEP"):
        shutil.rmtree(R, ignore_errors=True)
    return events, ob


# ------------------------------------------------------------------ comparison with the exported expectation
def judge(case, ob):
    """Observed vs. the contract's expectation exported by TLC (req / may per level).  Returns the first
    difference as (sig-part, detail) or None."""
    m = ob["migrate"]
    if m["panic"]:
        return {"kind": "migrate-panic"}, {}
    if not m["input_unchanged"] or "input" in m["changed"]:
        return {"kind": "input-modified"}, {}
    if not case["ok"]:
        return None      # not a v2 file: only "no crash, input untouched" is promised
    if case["lay"]["out"] == "input":
        return None      # --outfile names the input: it survived (checked above), nothing more is demanded
    if m["exit"] != 0:
        return {"kind": "migrate-failed"}, {}
    if m["changed"] != [case["outloc"]]:
        return {"kind": "files-changed", "changed": ",".join(m["changed"])[:120], "want": case["outloc"]}, {}
    if not m["wrote"]:
        return {"kind": "no-output"}, {}
    exp = {L: {"req": fn(e["req"]), "may": e["may"]} for L, e in case["expect"].items()}
    exp = {L: {"req": {p: canon(json.loads(t)) for p, t in e["req"].items()}, "may": {canon(json.loads(t)) for t in e["may"]}}
           for L, e in exp.items()}
    v3 = m["v3"]
    if set(v3) != set(exp):
        return {"kind": "v3-levels", "missing": ",".join(sorted(set(exp) - set(v3))), "extra": ",".join(sorted(set(v3) - set(exp)))[:80]}, {}
    for L in sorted(exp):
        for p, t in exp[L]["req"].items():
            if p not in v3[L]:
                return {"kind": "v3-missing", "level": L, "path": p}, {"want": t}
            if v3[L][p] != t:
                return {"kind": "v3-wrong-value", "level": L, "path": p}, {"want": t, "got": v3[L][p]}
        for p, t in v3[L].items():
            if p in exp[L]["req"] or (L == "top" and p == "template"):
                continue
            if t not in exp[L]["may"]:
                return {"kind": "v3-unexpected", "level": L, "path": p}, {"got": t}
    if "template" not in v3["top"]:
        return {"kind": "v3-no-template"}, {}
    ld = ob.get("load")
    if ld is None:
        return {"kind": "not-loaded"}, {}
    if ld["panic"]:
        return {"kind": "loader-panic"}, {}
    if ld["exit"] != 0:
        return {"kind": "loader-rejected"}, {}
    eff = ld["eff"]
    if set(eff) != set(exp):
        return {"kind": "loaded-levels", "missing": ",".join(sorted(set(exp) - set(eff))), "extra": ",".join(sorted(set(eff) - set(exp)))[:80]}, {}
    for L in sorted(exp):
        for p, t in exp[L]["req"].items():
            if p == "_anchors" or (L == "top" and p == "config"):
                continue
            if eff[L].get(p) != t:
                return {"kind": "loaded-wrong-value", "level": L, "path": p}, {"want": t, "got": eff[L].get(p)}
    return None


def case_sig(case):
    keys = sorted({k for m in case["v2"].values() for k in fn(m)})
    a, b, i, j = names_of(case)
    odd = NAMES.get(case["nm"]["id"], "")
    top = fn(case["v2"].get("top", {}))
    return {"fam": case["fam"], "shape": case["shape"], "vi": case["vi"], "name_id": case["nm"]["id"],
            "out": case["lay"]["out"],
            "lay": "%s/%s/%s%s" % (case["lay"]["cwd"], case["lay"]["cfg"], case["lay"]["out"], "/stale" if case["lay"]["stale"] else ""),
            "name_class": name_class(odd) if case["nm"]["id"] != "-" else "-",
            "anchors_top": "_anchors" in top and top["_anchors"] not in ("null", "{}"),
            "keys": ",".join(keys) if len(keys) <= 3 else "%d keys" % len(keys)}


def validate(ctx, events, chunk_cases=2500):
    """TLC trace validation, in chunks of whole cases (each starts with a `case` event)."""
    rejected = []
    starts = [i for i, e in enumerate(events) if e["op"] == "case"]
    bounds = [starts[i] for i in range(0, len(starts), chunk_cases)] + [len(events)]
    for lo, hi in zip(bounds, bounds[1:]):
        part = events[lo:hi]
        ok, r = ctx.validate_trace("MigrateTrace", "MigrateTrace.cfg", part, timeout=1200)
        if r.consumed is None or r.consumed[0] != len(part):
            raise MachineryError("trace validation did not consume the whole op log:\n" + r.tail())
        m = re.search(r'<<\s*"REJECTED",\s*"(\[[\d,\s]*\])"\s*>>', r.text, re.S)   # TLC wraps long tuples over lines
        if not m:
            raise MachineryError("trace validation printed no REJECTED line:\n" + r.tail())
        idxs = json.loads(m.group(1))
        if ok != (len(idxs) == 0):
            raise MachineryError("trace validation verdict and REJECTED list disagree:\n" + r.tail())
        rejected += [part[i1 - 1] for i1 in idxs]
    return rejected


def dedupe(cases):
    seen, out = set(), []
    for c in cases:
        k = json.dumps(c, sort_keys=True)
        if k not in seen:
            seen.add(k)
            out.append(c)
    return out


def run_replay(ctx, path):
    """bin/check C19 quick --replay <file>: re-run exactly the recorded v2 tree against the current tree."""
    try:
        rec = json.loads(Path(path).read_text())
        case = rec["detail"]["case"]
        ob0 = rec["detail"].get("observed", {})
    except (OSError, ValueError, KeyError) as e:
        raise MachineryError(f"cannot read replay file {path}: {e}")
    run_ = Runner(ctx)
    (ctx.scratch / "cases").mkdir()
    evs, ob = replay_case(ctx, run_, 0, case, style=ob0.get("style"))
    j = judge(case, ob)
    if j is not None:
        ctx.violation(dict(case_sig(case), **j[0]), {"case": case, "observed": ob, "difference": j[1]})
    rej = validate(ctx, evs)
    if rej and j is None:
        ctx.violation(dict(case_sig(case), kind="trace-" + rej[0]["op"]), {"case": case, "rejected_event": rej[0], "observed": ob})
    ctx.cov["evaluations"] = 1
    ctx.cov["traces_validated_against_impl"] = 1
    ctx.sample({"replayed": path, "v2_file": ob["v2_text"][:700], "v3_file": (ob["v3_text"] or "")[:700]})
    return {"level": "model_checking", "exhaustive": False}


def run(ctx):
    if yaml is None:
        raise MachineryError("PyYAML not available")
    if getattr(ctx, "replay", None):
        return run_replay(ctx, ctx.replay)
    thorough = ctx.thorough()
    # ---------------------------------------------------------------- 1. model checking
    cfg = "Migrate_thorough.cfg" if thorough else "Migrate_quick.cfg"
    r = ctx.tlc("MigrateMC", cfg, workers=1, timeout=2400, coverage=thorough)
    if r.violated:
        ctx.note(f"model-level: {r.violated} violated on Migrate (prediction only; the replay decides)")
    elif not r.ok:
        raise MachineryError("TLC failed on Migrate:\n" + r.tail())
    if thorough and r.coverage_zero():
        zero = [z for z in r.coverage_zero() if "<Choose " not in z]   # Choose is only taken by the simulation run
        if zero:
            raise MachineryError("vacuous: spec actions never taken: " + "; ".join(zero[:5]))
    cases = dedupe(r.prints("CASE"))
    # random subsets of the full key set (simulation), seed-dependent
    n_sim = 1500 if thorough else 60
    sim = ctx.tlc("MigrateMC", "Migrate_sim.cfg", workers=1, simulate=f"num={n_sim}", depth=12, timeout=1200, count=False)
    if sim.crashed and not sim.prints("CASE"):
        raise MachineryError("TLC simulation failed on Migrate:\n" + sim.tail())
    simcases = dedupe(sim.prints("CASE"))
    if len(simcases) < n_sim // 3:
        raise MachineryError(f"simulation exported only {len(simcases)} cases:\n" + sim.tail())
    cases += simcases
    # vacuity guards
    fams = {c["fam"] for c in cases}
    need = {"single", "style", "alias", "null", "pair", "levels", "shape", "layout", "names", "bad", "random",
            "docsyn", "doc", "doctree"}
    if not need <= fams:
        raise MachineryError(f"vacuous: case families missing: {need - fams}")
    mapped_seen = {(k, L) for c in cases if c["fam"] == "single" for L, m in c["v2"].items() for k in fn(m)}
    levels = {"top", "pkgA", "ifaceI", "e1", "e2", "ifaceJ", "pkgB"}
    mapped = {p for c in cases for e in c["expect"].values() for p in fn(e["req"])}
    if len(mapped) != 14:
        raise MachineryError(f"vacuous: the exported expectations name {len(mapped)} v3 places, not 14: {sorted(mapped)}")
    if len(mapped_seen) < 45 * 7:
        raise MachineryError(f"vacuous: only {len(mapped_seen)} (key, level) singles exported")
    if not any(c["fam"] == "levels" and sum(1 for m in c["v2"].values() if fn(m)) >= 4 for c in cases):
        raise MachineryError("vacuous: no case with one key at four or more levels")
    if not any(len(fn(c["v2"].get("e2", {}))) > 0 for c in cases):
        raise MachineryError("vacuous: no case with a second configs entry")
    unknown = {c["nm"]["id"] for c in cases} - set(NAMES) - {"-"}
    if unknown:
        raise MachineryError(f"name ids without a concretisation: {unknown}")
    lays = {(c["lay"]["cwd"], c["lay"]["cfg"], c["lay"]["out"]) for c in cases}
    if len(lays) < 35:
        raise MachineryError(f"vacuous: only {len(lays)} of the 35 layouts (cwd x --config x --outfile) exported")
    styles = {c["vi"] for c in cases if c["fam"] in ("style", "single", "null")}
    if not (set(range(0, 10)) | {11}) <= styles or not any(c["vi"] == 10 for c in cases):
        raise MachineryError(f"vacuous: value styles exported: {sorted(styles)}")
    if len(cases) < 500:
        raise MachineryError(f"too few cases ({len(cases)})")
    # documented value forms of the settings without a v3 counterpart: every shape class of the replace-type entry
    # syntax must be there at every level kind, and no such key may be expected in the output
    def one(c):
        (L, m), = [(L, fn(m)) for L, m in c["v2"].items() if fn(m)]
        (k, t), = m.items()
        return k, L, json.loads(t)
    docsyn = [one(c) for c in cases if c["fam"] == "docsyn"]
    rt = [(L, v) for k, L, v in docsyn if k == "replace-type"]
    sides = lambda e: [x.strip() for x in e.split("=", 1)]
    shape_classes = {
        "qualified both sides": lambda v: any("=" in e and "[" not in e and all("." in x for x in sides(e)) for e in v),
        "a side without any dot": lambda v: any("=" in e and "[" not in e and any(x and "." not in x for x in sides(e)) for e in v),
        "aliased": lambda v: any("=" in e and ":" in e.split("=", 1)[1] for e in v),
        "type-parameter selector": lambda v: any("[" in e for e in v),
        "no '='": lambda v: any(e and "=" not in e for e in v),
        "empty side": lambda v: any("=" in e and "" in sides(e) for e in v),
        "empty entry": lambda v: "" in v,
        "empty list": lambda v: v == [],
        "several entries": lambda v: len(v) >= 3,
    }
    kinds = {"top", "pkgA", "ifaceI", "e1"}
    for name, pred in shape_classes.items():
        at = {L for L, v in rt if pred(v)}
        if not kinds <= at:
            raise MachineryError(f"vacuous: replace-type shape class `{name}` exported only at levels {sorted(at)}")
    dockeys = {k for k, L, v in docsyn} | {one(c)[0] for c in cases if c["fam"] == "doc"}
    if len(dockeys) != 45 - 14:
        raise MachineryError(f"vacuous: documented forms exported for {len(dockeys)} unmapped keys, not 31: {sorted(dockeys)}")
    if not any(c["fam"] == "doctree" and c["shape"] != "full" for c in cases) or \
            len({c["vi"] for c in cases if c["fam"] == "doctree" and c["shape"] == "full"}) < 12:
        raise MachineryError("vacuous: whole trees in documented forms missing")
    if not thorough:
        # the plain-valued documented forms (enumerations, booleans, paths) are sampled in the quick tier
        plain = [i for i, c in enumerate(cases) if c["fam"] == "doc"]
        keep = set(ctx.rng.sample(plain, min(len(plain), 60)))
        ctx.cov["doc_cases_sampled"] = f"{len(keep)}/{len(plain)}"
        cases = [c for i, c in enumerate(cases) if c["fam"] != "doc" or i in keep]

    # ---------------------------------------------------------------- 2. replay with the real binary
    run_ = Runner(ctx)
    (ctx.scratch / "cases").mkdir()
    t0 = time.time()

    def work(i):
        return replay_case(ctx, run_, i, cases[i])

    with ThreadPoolExecutor(max_workers=min(10, ctx.workers())) as ex:
        results = list(ex.map(work, range(len(cases))))
    ctx.cov["replay_wall_s"] = round(time.time() - t0, 1)
    all_events = []
    flagged = {}
    n_inv = 0
    for i, (evs, ob) in enumerate(results):
        n_inv += len(evs) - 1
        j = judge(cases[i], ob)
        if j is not None and ob["style"] == "yaml" and cases[i]["bad"] == "none":
            # the YAML rendering of the INPUT may be read differently by yaml.v3 and PyYAML; JSON is unambiguous
            evs2, ob2 = replay_case(ctx, run_, i, cases[i], style="json")
            n_inv += len(evs2) - 1
            j2 = judge(cases[i], ob2)
            if j2 is None:
                ctx.note(f"drift: case {i} differs only with the block-YAML rendering of the input ({j[0]}); JSON rendering conforms")
                evs, ob, j = evs2, ob2, None
            else:
                evs, ob, j = evs2, ob2, j2
            results[i] = (evs, ob)
        all_events += evs
        if j is not None:
            sig = dict(case_sig(cases[i]), **j[0])
            flagged[i] = sig
            ctx.violation(sig, {"case": cases[i], "observed": ob, "difference": j[1], "names": names_of(cases[i])})
        else:
            mdl = {L: {p: canon(json.loads(t)) for p, t in fn(m).items()} for L, m in fn(cases[i].get("model", {})).items()} if cases[i]["ok"] else None
            if mdl is not None and ob["migrate"]["v3"] != mdl:
                ctx.note(f"drift: v3 tree differs from Migrate.tla's ImplLevel but satisfies the contract (case {i}, fam {cases[i]['fam']})")
    ctx.cov["evaluations"] += len(cases)
    ctx.cov["real_invocations"] = n_inv

    # ---------------------------------------------------------------- 3. trace validation
    rej = validate(ctx, all_events)
    ctx.cov["traces_validated_against_impl"] += len(cases)
    ctx.cov["traces_rejected"] = len(rej)
    for at in rej:
        i = at["case"]
        if i in flagged:
            continue
        sig = dict(case_sig(cases[i]), kind="trace-" + at["op"])
        ctx.violation(sig, {"case": cases[i], "rejected_event": at, "observed": results[i][1],
                            "contract": "spec/MigrateTrace.tla + MigrateContract.tla"})
    missed = [i for i in flagged if not any(at["case"] == i for at in rej)]
    if missed:
        raise MachineryError(f"replay comparison flagged cases the TLA+ contract accepts (harness bug): {missed[:5]}")

    # ---------------------------------------------------------------- evidence
    by_fam = {}
    for c in cases:
        by_fam[c["fam"]] = by_fam.get(c["fam"], 0) + 1
    ctx.cov["cases_by_family"] = by_fam
    ctx.cov["distinct_nontrivial"] = sum(1 for c in cases if sum(len(fn(m)) for m in c["v2"].values()) >= 2)
    ctx.cov["rule"] = "one case per v2 tree TLC enumerated (plus simulated random subsets); non-trivial = at least two settings in the tree"
    for i in (0, len(cases) // 3, 2 * len(cases) // 3, len(cases) - 1):
        ob = results[i][1]
        ctx.sample({"case": {k: cases[i][k] for k in ("fam", "shape", "vi", "nm", "bad")}, "v2_file": ob["v2_text"][:700],
                    "v3_file": (ob["v3_text"] or "")[:700], "migrate_exit": ob["migrate"]["exit"],
                    "showconfig_exit": ob.get("load", {}).get("exit"), "argv": ob["argv"], "cwd": ob["cwd"], "style": ob["style"]})
    ctx.assumptions += [
        "small-scope: the families of spec/Migrate.tla Init (single, null, pair, levels, shape, names, bad) exhaustively, random subsets by simulation",
        "values are markers per (key, level) in nine styles (plain, YAML-significant, non-clean path, template with inner quotes, bool/number/date look-alike, NFC+NFD unicode, very long, empty, trailing blank/tab; both polarities of booleans) plus explicit null",
        "the v3 file must appear exactly at the path --outfile denotes relative to the working directory (default .mockery_v3.yml); every other file of the scratch tree, the input included, must be byte-identical",
        "a v3 value that is not one of the 14 mapped settings is accepted when the v2 file contained that value at the same level (e.g. with-expecter), as the property says",
        "settings without a v3 counterpart take the documented value forms of Migrate.tla DocForms (transcribed from the v2 documentation; replace-type entries by their micro-syntax shape classes), level-independent; their values may, but need not, appear in the v3 file",
        "the loaded `_anchors` map is not compared (the loader merges it key-wise down the hierarchy); the written one is",
        "when a difference shows only with the block-YAML rendering of the input it is reported as drift (yaml.v3 vs PyYAML reading the input), JSON rendering decides",
    ]
    return {"level": "model_checking", "exhaustive": False}


if __name__ == "__main__":
    main("C19", run)
