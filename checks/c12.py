#!/usr/bin/env python3
"""C12 -- template-data is validated against the template's JSON schema at every level before anything is written.

1. TLC checks spec/Schema.tla: the code-shaped pipeline (files in Go map order, getTemplate with the per-run
   remote-template cache, validateSchema over file-level and every mock's data, write) against the contract
   (FileVerdict: written iff every map of the file validates against THAT file's schema; required-but-missing
   schema is an error; no schema and not required: no validation) over families of cases: every placement of
   violating keys over the six config levels x built-in / file:// / http:// templates, schema availability x
   require-template-schema-exists at different levels x schema location, two files sharing a template with
   different template-schema, pre-existing output files.
2. Every case is exported with the contract's expectation per output file; sampled (quick) or all (thorough) are
   materialised (scratch module, .mockery.yml, template and schema files or a loopback HTTP server) and run
   through the real binary.  Verdicts: exit status, presence / bytes of the two output files.
3. FileBegin / Stage(template) / Stage(schema) / Write / Exit hook events of every run are validated by TLC against
   spec/SchemaTrace.tla (schema stage before write, validated whenever a schema is due, ...).

Coverage table (clause / quantifier dimension of C12 -> where it is explored -> what is a single point or absent)
  schemas: required / additionalProperties / typed   shapes RC RO CL OP + built-ins, families A B C D
           beyond that                                enum, nested object (maxProperties / required), array items ($ref,
                                                      true, false, empty file, redirect) -- families X, S.
                                                      absent: pattern, min/max, oneOf/anyOf, remote $ref
  template-data maps, any level, split over levels    6 levels; every single key and pair of placements (A); conforming above
                                                      / violating below for the same key with look-alike values (L), null
                                                      (L, N); nested maps whose violation or conformity exists only in the
                                                      MERGED map (X).  single point: one value per kind; 2 files, 3 mocks
  built-in and custom templates                       testify, matryer, file://, http:// (loopback).  absent: https://
  schema location                                     default <template>.schema.json, explicit file/http, different per
                                                      file (C), templated per interface (P)
  with / without an available schema                  present, absent (404 / no file), unparsable, not a schema, empty
  require-template-schema-exists                      unset/true/false at root, package, interface, configs entries; for
                                                      built-ins too (R).  open: entries of one interface that disagree
  before anything is written / file untouched         trace spec; pre-existing files with force-file-write (E)
  per-run state                                       remote template cache: two files, same template, different schema /
                                                      different require (B C D), any Go-map order (TLC).
                                                      absent: a second run over the output of the first; slow or hanging
                                                      HTTP server (the statement says nothing about time-outs)
"""
import collections
import http.server
import json
import os
import subprocess
import sys
import threading
import time
from concurrent.futures import ThreadPoolExecutor

sys.path.insert(0, os.path.join(os.path.dirname(__file__), "..", "lib"))
import vlib  # noqa: E402
from vlib import MachineryError, main  # noqa: E402

RUN_TIMEOUT = 60
JSTYPE = {"str": "string", "bool": "boolean", "int": "integer", "obj": "object"}
# one representative per kind of value; strT / str1 are the strings that print like the boolean / the integer
VALUE = {"str": "tagx", "strT": "true", "str1": "1", "strOff": "off-enum", "bool": True, "int": 1, "null": None,
         "obj": {"n": 1}, "objM": {"m": "x"}, "objNM": {"n": 1, "m": "x"}, "arr": ["a", "b"], "arrBad": ["a", 2]}
KEYS = ["ks", "kb", "km", "ki", "ko", "ka", "zz"]
_T4 = {"mock-build-tags": {"type": "string"}, "unroll-variadic": {"type": "boolean"}, "ki": {"type": "integer"}, "ko": {"type": "object"}}
_RC = {"type": "object", "additionalProperties": False, "required": ["mock-build-tags"], "properties": _T4}
# the JSON text of the custom schemas of SchemaMC!MCShapes (the accept sets there are re-derived from these texts)
SHAPE_JSON = {
    "RC": _RC, "RDR": _RC,
    "RO": {"type": "object", "required": ["mock-build-tags"], "properties": _T4},
    "CL": {"type": "object", "additionalProperties": False, "required": [], "properties": _T4},
    "OP": {"type": "object", "properties": _T4},
    "RX": {"type": "object", "additionalProperties": False, "required": ["mock-build-tags"], "properties": {
        "mock-build-tags": {"type": "string", "enum": ["tagx", "true", "1"]}, "unroll-variadic": {"type": "boolean"}, "ki": {"type": "integer"},
        "ko": {"type": "object", "additionalProperties": False, "maxProperties": 1,
               "properties": {"n": {"type": "integer"}, "m": {"type": "string"}}},
        "ka": {"type": "array", "items": {"type": "string"}}}},
    "RY": None,
    "REF": {"$ref": "#/definitions/data", "definitions": {"data": _RC}},
    "T": True, "F": False,
}


SHAPE_JSON["RY"] = json.loads(json.dumps(SHAPE_JSON["RX"]))
SHAPE_JSON["RY"]["properties"]["ko"].pop("maxProperties")
SHAPE_JSON["RY"]["properties"]["ko"]["required"] = ["n", "m"]


def mini_valid(v, sch, root=None):
    """validator for exactly the schema vocabulary used above (an abstraction-table check, not the oracle)"""
    root = sch if root is None else root
    if sch is True or sch is False:
        return sch
    if "$ref" in sch:
        node = root
        for part in sch["$ref"].lstrip("#/").split("/"):
            node = node[part]
        return mini_valid(v, node, root)
    t = sch.get("type")
    ok = {None: True, "object": isinstance(v, dict), "string": isinstance(v, str), "boolean": isinstance(v, bool),
          "integer": isinstance(v, int) and not isinstance(v, bool), "array": isinstance(v, list)}[t]
    if not ok:
        return False
    if "enum" in sch and v not in sch["enum"]:
        return False
    if isinstance(v, dict):
        props = sch.get("properties", {})
        if any(k not in v for k in sch.get("required", [])) or len(v) > sch.get("maxProperties", len(v)):
            return False
        if sch.get("additionalProperties") is False and any(k not in props for k in v):
            return False
        if any(k in props and not mini_valid(x, props[k], root) for k, x in v.items()):
            return False
    if isinstance(v, list) and "items" in sch and not all(mini_valid(x, sch["items"], root) for x in v):
        return False
    return True


def check_tables(shapes, schema_of, keymap):
    """every accept set / required set / openness of the model against the JSON text it stands for"""
    for sid, sh in shapes.items():
        js = schema_of(sid)
        types = fix(sh["types"])
        base = {keymap(k): VALUE["str"] for k in sh["req"]}
        if mini_valid({}, js) != (not sh["none"] and not sh["req"]):
            raise MachineryError(f"schema {sid}: the empty map is modelled wrongly")
        if sh["req"] and mini_valid(base, js) != (not sh["none"]):
            raise MachineryError(f"schema {sid}: required keys modelled wrongly")
        for k in KEYS:
            for kind, val in VALUE.items():
                doc = dict(base)
                doc[keymap(k)] = val
                model = (not sh["none"]) and ((kind in types[k]) if k in types else bool(sh["open"]))
                if k in sh["req"] and k in types and kind not in types[k]:
                    model = False
                if mini_valid(doc, js) != model:
                    raise MachineryError(f"schema {sid}: {k}={val!r} is {'accepted' if model else 'rejected'} by SchemaMC.tla "
                                         "and the other way round by the JSON text")
# ONE naming of the abstract keys for every template kind (runs may mix them): custom schemas use the same names
REAL = {"ks": "mock-build-tags", "kb": "unroll-variadic", "km": "skip-ensure", "ki": "ki", "ko": "ko", "ka": "ka", "zz": "zz-unknown"}
KEYMAP = {"testify": {"ks": "mock-build-tags", "kb": "unroll-variadic"},
          "matryer": {"ks": "mock-build-tags", "kb": "with-resets"}}
LEVELS = ["root", "pkg", "iA1", "iA2", "e1", "e2"]
OUT = {"F1": "out/A1.go", "F2": "out/A2.go"}
TEMPLATE = ("// Code generated by a custom template. DO NOT EDIT.\n\npackage {{.PkgName}}\n{{range .Interfaces}}\n"
            "// {{.StructName}} stands in for {{.Name}}\ntype {{.StructName}} struct{}\n{{end}}")
SRC = "package p1\n\ntype A1 interface{ M(x int) string }\n\ntype A2 interface{ N(s ...string) error }\n"
OLD = "// OLD CONTENT %s\npackage old\n"


def key_of(tmpl, k):
    return REAL[k]


def check_builtin(ctx, builtin):
    """The model's built-in schemas must be the ones shipped in the tree under test (they are an INPUT of the
    contract).  A tree with other built-in schemas needs an updated SchemaMC: not decidable here."""
    texts = {}
    for t in builtin:
        p = ctx.snapshot() / "internal" / f"mock_{t}.templ.schema.json"
        try:
            texts[t] = json.loads(p.read_text())
        except (OSError, ValueError) as e:
            raise MachineryError(f"cannot read {p}: {e}")
    for t, sh in builtin.items():
        try:
            check_tables({t: sh}, lambda sid: texts[sid], lambda k: key_of(t, k))
        except MachineryError as e:
            raise MachineryError(f"built-in schema of {t} is not what SchemaMC.tla models -- update the model ({e})")


# ---------------------------------------------------------------------------------------------- loopback server
class Loopback:
    def __init__(self):
        self.routes = {}
        self.log = []
        lock = threading.Lock()
        outer = self

        class H(http.server.BaseHTTPRequestHandler):
            def do_GET(self):
                with lock:
                    outer.log.append(self.path)
                    body = outer.routes.get(self.path)
                if isinstance(body, tuple):          # ("redirect", target path)
                    self.send_response(302)
                    self.send_header("Location", body[1])
                    self.end_headers()
                    return
                if body is None:
                    self.send_response(404)
                    self.end_headers()
                    self.wfile.write(b"not found\n")
                    return
                self.send_response(200)
                self.send_header("Content-Length", str(len(body)))
                self.end_headers()
                self.wfile.write(body)

            def log_message(self, *a):
                pass

        self.srv = http.server.ThreadingHTTPServer(("127.0.0.1", 0), H)
        self.srv.daemon_threads = True
        self.port = self.srv.server_address[1]
        self.thread = threading.Thread(target=self.srv.serve_forever, daemon=True)
        self.thread.start()

    def close(self):
        self.srv.shutdown()
        self.srv.server_close()


# ---------------------------------------------------------------------------------------------- worlds
def fix(m):
    return {} if m == [] else m


class World:
    def __init__(self, ctx, idx, c, shapes, web):
        self.c = c
        self.root = os.path.realpath(str(ctx.mkdir(f"w{idx}")))
        R = self.root
        tmpl = c["tmpl"]
        files = {"go.mod": vlib.GO_SUM_MOD, "p1/s.go": SRC}
        prefix = f"/c{idx}"
        # the custom kind of this case (a run may mix built-in and custom templates, never two custom kinds);
        # explicit template-schema locations exist for purely built-in cases too (file://)
        kinds = [tmpl] + [v for v in c["tpl"].values() if v != "unset"]
        ckind = next((k for k in kinds if k in ("file", "http")), "file")
        if ckind == "file":
            curl = f"file://{R}/tpl/t.templ"
            files["tpl/t.templ"] = TEMPLATE
            base = f"file://{R}/tpl/"
        else:
            curl = f"http://127.0.0.1:{web.port}{prefix}/t.templ"
            web.routes[f"{prefix}/t.templ"] = TEMPLATE.encode()
            base = f"http://127.0.0.1:{web.port}{prefix}/"
        turl_of = {"testify": "testify", "matryer": "matryer", "file": curl, "http": curl}
        turl = turl_of[tmpl]
        self.urls = {}
        if base:
            self.urls = {"default": curl + ".schema.json", "alt1": base + "alt1.json", "alt2": base + "sub/alt2.schema.json",
                         "pA1": base + "if_A1.json", "pA2": base + "if_A2.json", "perif": base + "if_{{.InterfaceName}}.json"}
            for loc, st in c["loc"].items():
                if st == "absent":
                    continue
                body = {"garbage": "{not json", "notschema": '{"type": 5, "properties": 7}', "empty": ""}.get(st)
                if body is None:
                    body = json.dumps(SHAPE_JSON[st], indent=1)
                u = self.urls[loc]
                if u.startswith("file://"):
                    files[os.path.relpath(u[len("file://"):], R)] = body
                else:
                    path = u[len(f"http://127.0.0.1:{web.port}"):]
                    if st == "RDR":                  # the schema URL answers 302 -> where the schema really is
                        web.routes[path] = ("redirect", path + ".moved")
                        path += ".moved"
                    web.routes[path] = body.encode()

        def level_conf(lv):
            d = {}
            data = fix(c["data"][lv])
            if data:
                d["template-data"] = {key_of(tmpl, k): VALUE[kind] for k, kind in data.items()}
            if c["tsch"][lv] != "unset":
                d["template-schema"] = self.urls[c["tsch"][lv]]
            if c["tpl"][lv] != "unset":
                d["template"] = turl_of[c["tpl"][lv]]
            if c["req"][lv] != "unset":      # also for built-in templates (whose schema needs no fetching)
                d["require-template-schema-exists"] = c["req"][lv] == "true"
            return d
        conf = {"template": turl, "dir": "out", "filename": "{{.InterfaceName}}.go", "pkgname": "mocks"}
        conf.update(level_conf("root"))
        if c["pre"]:
            conf["force-file-write"] = True
        e2 = level_conf("e2")
        e2["structname"] = "SecondA2"
        conf["packages"] = {"example.com/w/p1": {"config": level_conf("pkg"), "interfaces": {
            "A1": {"config": level_conf("iA1")},
            "A2": {"config": level_conf("iA2"), "configs": [level_conf("e1"), e2]}}}}
        self.conf = conf
        files[".mockery.yml"] = json.dumps(conf, indent=1)
        for f in fix(c["pre"]):
            files[OUT[f]] = OLD % f
        vlib.write_files(R, files)
        import shutil
        shutil.copy(vlib.REPO / "go.sum", os.path.join(R, "go.sum"))
        self.prefix = prefix

    def read(self, f):
        try:
            return open(os.path.join(self.root, OUT[f]), encoding="utf8", errors="replace").read()
        except OSError:
            return None


def run_bin(ctx, w):
    binp = ctx.mockery()
    tfile = os.path.join(w.root, ".trace.ndjson")
    e = vlib.go_env()
    e["VERIFHOOK_TRACE"] = tfile
    for k in ("http_proxy", "https_proxy", "HTTP_PROXY", "HTTPS_PROXY", "ALL_PROXY", "all_proxy"):
        e.pop(k, None)
    e["NO_PROXY"] = e["no_proxy"] = "127.0.0.1,localhost"
    t = time.time()
    to = False
    try:
        p = subprocess.run([str(binp)], cwd=w.root, env=e, capture_output=True, text=True, timeout=RUN_TIMEOUT, errors="replace")
        code, out, err = p.returncode, p.stdout, p.stderr
    except subprocess.TimeoutExpired as ex:
        to, code = True, -9
        out = ex.stdout.decode("utf8", "replace") if isinstance(ex.stdout, bytes) else (ex.stdout or "")
        err = ex.stderr.decode("utf8", "replace") if isinstance(ex.stderr, bytes) else (ex.stderr or "")
    evs = []
    if os.path.exists(tfile):
        for ln in open(tfile, encoding="utf8", errors="replace").read().splitlines():
            try:
                evs.append(json.loads(ln))
            except ValueError:
                pass
        os.unlink(tfile)
    if "no space left on device" in (err + out).lower():
        raise MachineryError("the disk is full (mockery: no space left on device): cannot decide anything")
    return vlib.RunResult(code, out, err, time.time() - t, to, evs)


def trace_of(c, res):
    """project the hook events of one run onto the alphabet of SchemaTrace.tla"""
    out = [{"ev": "begin", "id": c["id"], "exp": {f: {"verdict": e["verdict"], "validate": e["validate"]} for f, e in c["expect"].items()}}]
    names = {OUT["F1"]: "F1", OUT["F2"]: "F2"}
    for e in res.trace:
        ev = e.get("ev")
        if ev == "FileBegin":
            out.append({"ev": "FileBegin", "f": names.get(os.path.normpath(e.get("file", "")), "?")})
        elif ev == "Stage" and e.get("stage") == "template":
            out.append({"ev": "StageTemplate", "ok": bool(e.get("ok")), "hasschema": bool(e.get("hasschema", False))})
        elif ev == "Stage" and e.get("stage") == "schema":
            out.append({"ev": "StageSchema", "ok": bool(e.get("ok")), "validated": bool(e.get("validated", False))})
        elif ev == "Write":
            out.append({"ev": "Write", "f": names.get(os.path.normpath(e.get("file", "")), "?")})
        elif ev == "Exit":
            out.append({"ev": "Exit", "code": int(e.get("code", -1))})
    if out[-1]["ev"] != "Exit":
        # the process ended without passing an Exit hook (panic, os.Exit elsewhere): its exit status stands in
        out.append({"ev": "Exit", "code": res.code, "synthetic": True})
    return out


def violating_levels(c, only=None):
    """maps ("file", "A1", "e1", "e2") that violate the schema of their file (for the signature only)"""
    lv = set()
    for f, e in c["expect"].items():
        if only in (None, "-", f):
            for m in e["bad_maps"]:
                lv.add(m)
    return ",".join(sorted(lv)) or "-"


class Judge:
    def __init__(self, ctx):
        self.ctx = ctx
        self.lock = threading.Lock()
        self.n = 0
        self.traces = []
        self.kinds = collections.Counter()
        self.req_false_fetch = 0
        self.runs = []

    def sig(self, c, kind, f="-"):
        e = c["expect"].get(f, {})
        return {"kind": kind, "fam": c["fam"], "template": c["tmpl"], "file": f, "bad_maps": violating_levels(c, f),
                "schema_state": e.get("state", "-"), "require": e.get("require", "-"), "verdict": e.get("verdict", "-")}

    def judge(self, w, res, web):
        ctx, c = self.ctx, w.c
        self.n += 1
        exp = c["expect"]
        self.kinds[(exp["F1"]["verdict"], exp["F2"]["verdict"])] += 1
        detail = {"case": c["id"], "config": w.conf, "schema_locations": {k: c["loc"][k] for k in c["loc"]}, "expect": exp,
                  "run": res.brief(), "files_after": {f: (w.read(f) or "")[:120] if w.read(f) is not None else None for f in OUT},
                  "pre_existing": fix(c["pre"])}
        if res.timed_out:
            ctx.violation(self.sig(c, "hang"), detail)
            return
        if res.panicked:
            ctx.note(f"panic in {c['id']} (C09's business): " + res.brief()["stderr_tail"][-200:])
        if c["must_fail"] and res.code == 0:
            ctx.violation(self.sig(c, "exit0-despite-violation", next(f for f in OUT if exp[f]["verdict"] == "bad")), detail)
        if c["must_succeed"] and res.code != 0:
            ctx.violation(self.sig(c, "failed-but-valid"), detail)
        for f in ("F1", "F2"):
            got = w.read(f)
            pre = f in fix(c["pre"])
            written = got is not None and (not pre or got != OLD % f)
            v = exp[f]["verdict"]
            if v == "bad":
                if written:
                    ctx.violation(self.sig(c, "existing-file-clobbered" if pre else "written-despite-violation", f), detail)
                elif pre and got != OLD % f:
                    ctx.violation(self.sig(c, "existing-file-clobbered", f), detail)
            elif v == "ok":
                if res.code == 0 and not written:
                    ctx.violation(self.sig(c, "not-written-but-valid", f), detail)
            if pre and not written and got != OLD % f:
                ctx.violation(self.sig(c, "existing-file-clobbered", f), detail)
        # documentation: with require-template-schema-exists false the schema is not even fetched (note only)
        if c["tmpl"] == "http":
            for f in ("F1", "F2"):
                other = "F2" if f == "F1" else "F1"
                if not exp[f]["require"] and not (exp[other]["require"] and exp[other]["loc"] == exp[f]["loc"]):
                    u = w.urls[exp[f]["loc"]]
                    path = u[u.index("/", len("http://")):]
                    if path in web.log:
                        self.req_false_fetch += 1
        self.traces.append((c, trace_of(c, res)))
        self.runs.append(res)


def _run(ctx):
    thorough = ctx.thorough()
    ctx.mockery()
    # ------------------------------------------------------------------ 1. model checking
    wit = ctx.tlc("SchemaMC", "Schema_witness.cfg", workers=4, timeout=600, count=False)
    if wit.violated not in ("WriteOnlyIfAcceptable", "FailureHasAReason", "SuccessMeansAllWritten", "ValidatedBeforeWrite"):
        raise MachineryError("vacuous: the model does not see the stale-schema cache defect (D6) when it is switched on:\n" + wit.tail())
    r = ctx.tlc("SchemaMC", "Schema_thorough.cfg" if thorough else "Schema_quick.cfg", workers=1, timeout=3000, coverage=thorough)
    if r.violated:
        ctx.note(f"model level: {r.violated} violated on Schema (prediction only)")
    elif not r.ok:
        raise MachineryError("TLC failed on Schema:\n" + r.tail())
    if thorough and r.coverage_zero():
        raise MachineryError("vacuous: spec actions never taken: " + "; ".join(r.coverage_zero()[:5]))
    tables = r.prints("SCHEMAS")
    if not tables:
        raise MachineryError("no SCHEMAS line from TLC")
    shapes, builtin = tables[0]["shapes"], tables[0]["builtin"]
    if set(shapes) != set(SHAPE_JSON):
        raise MachineryError("SchemaMC!MCShapes and the schema texts of the harness differ")
    check_tables(shapes, lambda sid: SHAPE_JSON[sid], lambda k: key_of("file", k))
    check_builtin(ctx, builtin)
    cases = r.prints("CASE")
    if len(cases) < 1000 or len({c["id"] for c in cases}) != len(cases):
        raise MachineryError(f"case export broken: {len(cases)} cases, {len({c['id'] for c in cases})} ids")
    # vacuity
    def has(pred):
        return any(pred(c) for c in cases)
    guards = {
        "a violation only in the second mock of a file": lambda c: c["expect"]["F2"]["bad_maps"] == ["e2"] and c["expect"]["F2"]["verdict"] == "bad",
        "a violation only at file level": lambda c: c["expect"]["F1"]["bad_maps"] == ["file"] and c["expect"]["F1"]["verdict"] == "bad",
        "a violation only at interface level under a built-in template": lambda c: c["tmpl"] in ("testify", "matryer") and c["expect"]["F1"]["bad_maps"] == ["A1"],
        "a required schema that is missing": lambda c: c["expect"]["F1"]["validate"] == "fail" and c["expect"]["F1"]["state"] == "absent",
        "an unparsable required schema": lambda c: c["expect"]["F1"]["validate"] == "fail" and c["expect"]["F1"]["state"] == "garbage",
        "no schema and not required": lambda c: c["expect"]["F1"]["validate"] == "no" and c["expect"]["F1"]["verdict"] == "ok",
        "two files with different schemas and different verdicts": lambda c: c["fam"] == "C" and c["expect"]["F1"]["loc"] != c["expect"]["F2"]["loc"]
            and {c["expect"]["F1"]["verdict"], c["expect"]["F2"]["verdict"]} == {"ok", "bad"},
        "an existing file that must stay": lambda c: c["pre"] and any(c["expect"][f]["verdict"] == "bad" for f in fix(c["pre"])),
        "http template": lambda c: c["tmpl"] == "http",
        "require false set below the root": lambda c: c["req"]["root"] != "false" and (c["req"]["pkg"] == "false" or c["req"]["iA1"] == "false"),
        "a value of the wrong type that prints like the conforming value one level up":
            lambda c: c["fam"] == "L" and c["expect"]["F1"]["bad_maps"] == ["A1"] and fix(c["data"]["root"]) and fix(c["data"]["iA1"]),
        "a look-alike of the wrong type in one configs entry, the conforming value in its sibling":
            lambda c: c["fam"] == "L" and c["expect"]["F2"]["bad_maps"] == ["e2"] and fix(c["data"]["e1"]) and fix(c["data"]["e2"]),
        "a null overriding a conforming value of a typed key":
            lambda c: c["fam"] == "L" and "null" in c["id"] and c["expect"]["F1"]["bad_maps"] == ["A1"],
        "an unknown key whose value is null under a closed schema":
            lambda c: c["fam"] == "N" and ".zz." in c["id"] and c["must_fail"],
        "a nested map that violates its schema only after the levels are merged":
            lambda c: c["fam"] == "X" and "RX-ko." in c["id"] and c["expect"]["F2"]["bad_maps"] == ["e1"] and not c["expect"]["F1"]["bad_maps"],
        "a nested map that conforms only after the levels are merged":
            lambda c: c["fam"] == "X" and "RY-ko." in c["id"] and sorted(c["expect"]["F2"]["bad_maps"]) == ["e2", "file"],
        "an enum / array item violation": lambda c: c["fam"] == "X" and ("strOff" in c["id"] or "arrBad" in c["id"]) and c["must_fail"],
        "the schemas true and false, an empty schema file, $ref, a redirect":
            lambda c: c["fam"] == "S" and c["tmpl"] == "http" and c["expect"]["F1"]["state"] == "RDR",
        "a template-schema templated per interface with different verdicts":
            lambda c: c["fam"] == "P" and {c["expect"]["F1"]["verdict"], c["expect"]["F2"]["verdict"]} == {"ok", "bad"},
        "testify and matryer files in one run, each with data only its own schema knows":
            lambda c: c["fam"] == "M" and {c["expect"]["F1"]["tmpl"], c["expect"]["F2"]["tmpl"]} == {"testify", "matryer"} and c["must_succeed"]
            and fix(c["data"]["iA1"]) and fix(c["data"]["iA2"]),
        "a built-in file that inherits an explicit template-schema which is absent":
            lambda c: c["fam"] == "M" and c["expect"]["F1"]["tmpl"] == "testify" and c["tsch"]["root"] == "alt1" and c["loc"]["alt1"] == "absent"
            and c["expect"]["F1"]["verdict"] == "ok",
        "a built-in template, require-template-schema-exists false, violating data":
            lambda c: c["tmpl"] in ("testify", "matryer") and not c["expect"]["F1"]["require"] and c["expect"]["F1"]["verdict"] == "bad",
        "a wrong type repaired by a more specific level": lambda c: fix(c["data"]["root"]).get("kb") == "str" and c["expect"]["F1"]["bad_maps"] == ["file"] and
            c["expect"]["F1"]["state"] != "absent",
    }
    for what, pred in guards.items():
        if not has(pred):
            raise MachineryError("vacuous: no exported case with " + what)

    # ------------------------------------------------------------------ 2. replay
    rng = ctx.rng
    replay_only = None
    if getattr(ctx, "replay", None):
        try:
            replay_only = json.load(open(ctx.replay))["detail"]["case"]
        except (OSError, ValueError, KeyError) as e:
            raise MachineryError(f"cannot read replay file {ctx.replay}: {e}")
        pick = [c for c in cases if c["id"] == replay_only]
        if not pick:
            raise MachineryError(f"case {replay_only} of the replay file is not generated by this tier")
    elif thorough:
        pick = list(cases)
        rng.shuffle(pick)
        pick = pick[:6000]
    else:
        # stratified sample: every (family, template, verdict pair, schema state, set of violating maps) class once,
        # then random fill
        rng.shuffle(cases)
        seen, pick, rest = set(), [], []
        for c in cases:
            k = (c["fam"], c["tmpl"], c["expect"]["F1"]["tmpl"], c["expect"]["F2"]["tmpl"],
                 c["expect"]["F1"]["verdict"], c["expect"]["F2"]["verdict"],
                 tuple(c["expect"]["F1"]["bad_maps"]), tuple(c["expect"]["F2"]["bad_maps"]),
                 c["expect"]["F1"]["validate"], c["expect"]["F2"]["validate"])
            if c["fam"] == "A" and c["must_succeed"]:
                # conforming data split over levels: which level repairs which is the point; keep the level pattern
                k += (tuple(sorted(lv for lv in LEVELS if fix(c["data"][lv]))),)
            if c["fam"] == "R":
                # built-in template x the flag: which file runs with the flag off matters
                k += (c["expect"]["F1"]["require"], c["expect"]["F2"]["require"])
            if c["fam"] == "L":
                # look-alikes: every (key, conforming level, violating level) once, whatever the template
                pair, levs = c["id"].split("/")[2].split(".")[:2]
                k = ("L", pair, levs[1] if pair.endswith("null") else levs[:2])
            if c["fam"] == "M":
                k += (c["id"].split("/")[2].split(".")[1], c["expect"]["F1"]["require"])     # inherited template-schema / require
            if c["fam"] in ("X", "S", "P"):
                k += (c["id"].split("/")[2].rsplit(".", 1)[0],)      # which feature / state, not which level
            if c["fam"] == "N":
                k = ("N",) + tuple(c["id"].split("/")[2].split("."))      # schema shape, key, level
            if k not in seen and (len(pick) < 450 or c["fam"] in ("L", "R", "N", "X", "S", "P", "M")):
                seen.add(k)
                pick.append(c)
            else:
                rest.append(c)
        pick += rest[:max(0, 960 - len(pick))]
    for what, pred in guards.items():     # the sample must keep the interesting situations
        if replay_only:
            break
        if not any(pred(c) for c in pick):
            extra = next(c for c in cases if pred(c))
            pick.append(extra)
    web = Loopback()
    judge = Judge(ctx)
    t0 = time.time()

    def one(ic):
        i, c = ic
        w = World(ctx, i, c, shapes, web)
        res = run_bin(ctx, w)
        if res.timed_out:          # a hang counts only when it reproduces
            w = World(ctx, 100000 + i, c, shapes, web)
            res2 = run_bin(ctx, w)
            if not res2.timed_out:
                raise MachineryError(f"run of {c['id']} timed out once after {RUN_TIMEOUT}s and did not when repeated")
            res = res2
        with judge.lock:
            judge.judge(w, res, web)
        mixed = {c["expect"]["F1"]["tmpl"], c["expect"]["F2"]["tmpl"]} >= {"testify", "matryer"}
        if mixed:
            # which output file is generated first is up to Go's map order: a few more draws
            for k in range(2):
                w = World(ctx, 200000 + 10 * i + k, c, shapes, web)
                res = run_bin(ctx, w)
                if not res.timed_out:
                    with judge.lock:
                        judge.judge(w, res, web)
    try:
        with ThreadPoolExecutor(max_workers=8) as ex:
            list(ex.map(one, enumerate(pick)))
    finally:
        web.close()
    ctx.cov["evaluations"] = judge.n
    ctx.cov["cases_exported_by_tlc"] = len(cases)
    ctx.cov["replay_wall_s"] = round(time.time() - t0, 1)
    ctx.cov["runs_by_expected_verdicts(F1,F2)"] = {f"{a},{b}": n for (a, b), n in sorted(judge.kinds.items())}
    ctx.cov["http_requests_served"] = len(web.log)
    if judge.req_false_fetch:
        ctx.note(f"drift from docs/configuration.md: with require-template-schema-exists false the schema was still fetched "
                 f"in {judge.req_false_fetch} file(s)")

    # ------------------------------------------------------------------ 3. trace validation
    material = list(judge.traces)
    st = os.environ.get("VERIF_SELFTEST", "")
    if st.startswith("corrupt-trace"):
        # self-test of the binding: falsify one recorded field / drop one event; the trace spec must reject it
        c0, evs = next((c, e) for c, e in material[len(material) // 2:] if c["must_succeed"] and any(x["ev"] == "StageSchema" for x in e))
        j = next(i for i, x in enumerate(evs) if x["ev"] == "StageSchema")
        if st == "corrupt-trace-value":
            evs[j]["validated"] = not evs[j]["validated"]
        elif st == "corrupt-trace-drop":
            del evs[j]          # Write without a preceding schema stage
        print(f"SELFTEST {st}: corrupted the trace of {c0['id']}", file=sys.stderr)
    n_ok = rejected = 0
    while material:
        events = [e for _, evs in material for e in evs]
        ok, tr = ctx.validate_trace("SchemaTrace", "SchemaTrace.cfg", events, timeout=900)
        if ok:
            n_ok += len(material)
            break
        if tr.consumed is None:
            raise MachineryError("trace validation gave no CONSUMED line:\n" + tr.tail())
        bad, pos, hit = tr.consumed[0], 0, None
        for idx, (c, evs) in enumerate(material):
            if pos + len(evs) > bad:
                hit = idx
                break
            pos += len(evs)
        if hit is None:
            # the very last run ended without an Exit event?
            raise MachineryError("trace rejected beyond its end:\n" + tr.tail())
        c, evs = material[hit]
        at = evs[bad - pos]
        n_ok += hit
        rejected += 1
        ctx.violation({"kind": "trace", "at": at["ev"], "fam": c["fam"], "template": c["tmpl"], "bad_maps": violating_levels(c)},
                      {"case": c["id"], "rejected_event": at, "events": evs, "expect": c["expect"], "spec": "spec/SchemaTrace.tla"})
        material = material[hit + 1:]
        if rejected >= 8:
            break
    ctx.cov["traces_validated_against_impl"] = n_ok + rejected

    # ------------------------------------------------------------------ 4. whole-run trace validation (shared root spec)
    import runtrace
    runs = list(judge.runs)
    if not thorough and len(runs) > 400:
        runs = ctx.rng.sample(runs, 400)
    rej = runtrace.validate_runs(ctx, runs)
    own, other = runtrace.mine(rej, "C12")
    for x in own:
        ctx.violation({"kind": "run-trace-rejected", "why": x["why"][0]},
                      {"why": x["why"], "at": x["at"], "event": x["event"], "events": x["events"]})
    for x in other:
        ctx.note(f"run-trace clause of {x['props']} rejected a run: {x['why']}")
    for d in rej.drift:
        ctx.note("drift: " + ", ".join(d["why"]))
    ctx.cov["traces_validated_against_impl"] += rej.validated
    ctx.cov["whole_run_traces_validated"] = rej.validated

    ctx.cov["distinct_nontrivial"] = len({c["id"] for c in pick if not c["must_succeed"]})
    ctx.cov["rule"] = "one case = one configuration of the two-interface world; non-trivial = some output file must not be written or may be refused"
    for pred in (guards["a violation only in the second mock of a file"], guards["two files with different schemas and different verdicts"],
                 guards["a required schema that is missing"], guards["no schema and not required"]):
        c = next(c for c in cases if pred(c))
        ctx.sample({"id": c["id"], "template": c["tmpl"], "schema_at": c["loc"], "template-schema": c["tsch"], "require": c["req"],
                    "template-data": c["data"], "expect": c["expect"]})
    ctx.assumptions += [
        "schemas are objects with required keys, additionalProperties true/false and one type per key (string, boolean, integer, object); "
        "values are one representative per type",
        "world: one package, interface A1 (one mock, file F1) and A2 (two mocks, file F2); levels root, package, interface config, configs entry",
        "built-in schemas are modelled in SchemaMC.tla and compared with the *.schema.json files of the tree under test (exit 2 if they differ)",
        "require-template-schema-exists false with a retrievable schema whose data is violated: both outcomes accepted (docs and property text differ)",
        "http:// templates are served by a loopback server in this process; https:// is not exercised",
    ]
    return {"level": "model_checking", "exhaustive": False}


def run(ctx):
    """environment trouble (disk full, too many open files, ...) is never a verdict"""
    try:
        return _run(ctx)
    except OSError as e:
        raise MachineryError(f"operating system error while running the check: {e!r}")


if __name__ == "__main__":
    main("C12", run)
