#!/usr/bin/env python3
"""C11 -- templated config values (dir, filename, pkgname, structname, template-schema) resolve with the
documented variable bindings, to a fixpoint, and always terminate.

1. TLC checks spec/TemplateResolve.tla (token model of templated values; code-shaped fixpoint loop of
   config.go:708-742 against the contract: Terminates, StableIsFixpoint, UnstableIsError) over families of
   reference graphs x layouts (spec/Layout.tla: directory tree, cwd, how the config file is found, documented vs
   code-shaped bindings), plus liveness and Go-map-order independence on a slice (Interleave = TRUE).
2. Every terminal state is exported as a CASE with the contract's expectation (TemplateResolve!Expect, under the
   DOCUMENTED bindings) and the code-shaped prediction.  Python concretises the tokens into Go template text,
   materialises the layout, runs the real binary (wall-clock bound) and compares output directory, file name,
   package clause and struct name with the expectation.  Only that comparison produces verdicts.
3. The ResolveIter/ResolveLoop/Resolved hook events of every call are validated by TLC against
   spec/TemplateResolveTrace.tla at contract level (verdict) and at code-shaped level (drift note).

Coverage table (clause / quantifier dimension of C11 -> where it is explored -> what is a single point or absent)
  five templated parameters        all five in every case; Lag family: each one in turn still changing when the others are
                                   stable; the five written at configs-entry / interface / package / root level (solo runs)
  documented variables             every variable in the B family x 352 layouts; absent: none
    ConfigDir/InterfaceDirRelative search (.yml/.yaml, config in cwd or any ancestor, differently named decoy further up,
                                   both names in one dir), --config / MOCKERY_CONFIG rel+abs, flag+env together; config in
                                   a sibling dir or outside the module.  absent: cwd reached through a symlink, --config
                                   naming a directory, `config:` key written inside the file
    InterfaceDir/InterfaceFile     four source-file kinds (//line abs/rel before/after the package clause, blank + non-ASCII
                                   in the name), never the first file of the package (G family: also the first file, and
                                   recursively discovered sub-packages).  absent: symlinked package dirs, cgo / generated-file variants
    InterfaceName / Mock           exported, unexported, non-ASCII exported, underscore-initial, underscore + capital, caseless
                                   (CJK) first letter.  single point: one name per class
    SrcPackageName/SrcPackagePath  package name different from the last path element in all four packages.
                                   absent: main, /vN, _test packages
    StructName                     unrendered-text binding: default, literal, self-growing, period-2 cycle, own fixpoint,
                                   1/2/4/8/18/19/22 escape levels; referenced from filename/pkgname/dir/schema
    Template                       built-in name and file:// URL.  absent: http(s):// template URL in C11 (C12 has it)
  function library                 lower upper firstLower firstUpper snakecase kebabcase trimSuffix trimPrefix replace
                                   replaceAll base dir, operands separating each from its nearest neighbour.
                                   absent: the rest of the library (C16 owns semantics)
  spelling of an action            nine spellings of one token (blanks, trim markers, call form, with, if, $var, comment,
                                   parentheses), chosen per case.  absent: range, define/template, else-if chains
  fixpoint / termination           0..23 changing passes, both sides of the code's cap; growth, cycle; invalid syntax at once
                                   and after one pass; every Go-map order of the five (TLC, Interleave); wall-clock bound.
                                   absent: values whose RESULT is whitespace-only or contains `..` beyond shape B8,
                                   exec-time errors other than a missing field (unspecified class)
  several configs of an interface  up to 60 entries per run sharing package/root values.  single point: one run = one process
  siblings without own entry       G family: the five values written ONCE (package config: / top level), 3..7 interfaces of one
                                   package (one of them declared in another file) selected by all: true / include-interface-regex /
                                   recursive discovery from the module root (4 packages x 7 interfaces in one run); each of the
                                   five parameters x {InterfaceName, Mock, StructName, InterfaceFile} incl. two-pass values; every
                                   member judged against the rendering for ITS variables.  quick draws the level per group.
                                   absent: exclude-interface-regex, siblings that also have an explicit entry in the same run
"""
import collections
import json
import os
import posixpath
import re
import subprocess
import sys
import threading
import time
import unicodedata
from concurrent.futures import ThreadPoolExecutor

sys.path.insert(0, os.path.join(os.path.dirname(__file__), "..", "lib"))
import vlib  # noqa: E402
from vlib import MachineryError, main  # noqa: E402

PARAMS = ["dir", "filename", "pkgname", "structname", "schema"]
CFGKEY = {"dir": "dir", "filename": "filename", "pkgname": "pkgname", "structname": "structname", "schema": "template-schema"}
RUN_TIMEOUT = 30          # a run normally takes 0.1-0.3 s
RETRY_TIMEOUT = 150       # second chance for a run that timed out (a loaded machine is not a hang)

# ---------------------------------------------------------------------------------------------- concretisation
PIPE_TEXT = {"lower": "lower", "upper": "upper", "firstLower": "firstLower", "snakecase": "snakecase",
             "trimBaz": 'trimSuffix "Baz"', "replSlash": 'replaceAll "/" "_"', "base": "base",
             "baseTrimGo": 'base | trimSuffix ".go"', "dir": "dir", "firstUpper": "firstUpper", "kebabcase": "kebabcase",
             "trimSufZa": 'trimSuffix "za"', "trimPreAb": 'trimPrefix "ab"', "repl1": 'replace "/" "_" 1'}


def py_snake(s):
    return re.sub(r"(?<=[a-z0-9])(?=[A-Z])", "_", s).lower()


PIPE_PY = {"lower": str.lower, "upper": str.upper, "firstLower": lambda s: s[:1].lower() + s[1:],
           "snakecase": py_snake, "trimBaz": lambda s: s[:-3] if s.endswith("Baz") else s,
           "replSlash": lambda s: s.replace("/", "_"), "base": posixpath.basename,
           "baseTrimGo": lambda s: (lambda b: b[:-3] if b.endswith(".go") else b)(posixpath.basename(s)),
           "dir": posixpath.dirname, "firstUpper": lambda s: s[:1].upper() + s[1:],
           "kebabcase": lambda s: py_snake(s).replace("_", "-"),
           "trimSufZa": lambda s: s[:-2] if s.endswith("za") else s, "trimPreAb": lambda s: s[2:] if s.startswith("ab") else s,
           "repl1": lambda s: s.replace("/", "_", 1)}

DELIM = re.compile(r"\{\{|\}\}")


def quote_simple(t):
    """text that renders (one pass of text/template) to exactly t: every delimiter becomes a string action"""
    return DELIM.sub(lambda m: '{{"' + m.group(0) + '"}}', t)


def quote_print(t, level):
    """the same in linear size, for deep nesting: one string constant piped through replaceAll; the double quotes
    of t are spelled with a placeholder that is unique to this nesting level, so nothing needs escaping"""
    ph = "~%d~" % level
    if "\\" in t or "\n" in t or ph in t:
        raise MachineryError("cannot quote " + t[:80])
    return '{{"' + t.replace('"', ph) + '" | replaceAll "' + ph + '" (printf "%c" 34)}}'


SPELLINGS = ["compact", "spaced", "trim", "call", "with", "if", "var", "comment", "paren"]


def spell(v, pipe, style):
    """one var / pipe token in one of the spellings of TemplateResolve!Spellings (all render alike)"""
    x = "." + v
    if pipe is None:
        return {"compact": "{{%s}}", "spaced": "{{ %s }}", "trim": "{{- %s -}}", "call": "{{print %s}}",
                "with": "{{with %s}}{{.}}{{end}}", "if": "{{if %s}}{{%s}}{{else}}{{end}}" , "var": "{{$v := %s}}{{$v}}",
                "comment": "{{/* a comment */}}{{%s}}", "paren": "{{(%s)}}"}[style].replace("%s", x)
    single = "|" not in pipe
    if style == "call" and single:
        return "{{" + pipe + " " + x + "}}"                       # f "arg" .X
    if style == "paren" and single:
        return "{{(" + pipe + " " + x + ")}}"
    if style in ("spaced", "call", "paren"):
        return "{{ " + x + " | " + pipe + " }}"
    if style == "trim":
        return "{{- " + x + " | " + pipe + " -}}"
    if style in ("with", "if"):
        return "{{with " + x + "}}{{. | " + pipe + "}}{{end}}" if style == "with" else \
            "{{if true}}{{" + x + " | " + pipe + "}}{{end}}"
    if style == "var":
        return "{{$v := " + x + " | " + pipe + "}}{{$v}}"
    if style == "comment":
        return "{{" + x + " | " + pipe + "}}{{/* a comment */}}"
    return "{{" + x + " | " + pipe + "}}"


def tok_text(ts, qstyle="simple", style="compact"):
    out = []
    for t in ts:
        k = t["k"]
        if k == "lit":
            if "{{" in t["s"] or "}}" in t["s"]:
                raise MachineryError("literal with template delimiters in a case: " + t["s"])
            out.append(t["s"])
        elif k == "var":
            out.append(spell(t["v"], None, style))
        elif k == "pipe":
            out.append(spell(t["v"], PIPE_TEXT[t["f"]], style))
        elif k == "q":
            inner = tok_text(t["body"], qstyle, style)
            out.append(quote_print(inner, qdepth(t["body"])) if qstyle == "print" else quote_simple(inner))
        elif k == "bad":
            out.append("{{.Mock")            # an action that is never closed
        else:
            raise MachineryError("cannot concretise token " + json.dumps(t))
    return "".join(out)


def uses_in(ts):
    """variables a token sequence mentions, through escapes too"""
    out = set()
    for t in ts:
        if t["k"] in ("var", "pipe"):
            out.add(t["v"])
        elif t["k"] == "q":
            out |= uses_in(t["body"])
    return out


def replay_only_hint(ctx):
    return bool(getattr(ctx, "replay", None))


def has_bad(ts):
    return any(t["k"] == "bad" or t["k"] == "q" and has_bad(t["body"]) for t in ts)


def qdepth(ts):
    return max([1 + qdepth(t["body"]) for t in ts if t["k"] == "q"] + [0])


# ---------------------------------------------------------------------------------------------- table checks
def canon(p):
    """the physical path a logical spelling (through the links R/lnw -> R/w, R/w/la -> R/w/a) denotes"""
    for link, target in (("%R%/lnw", "%R%/w"), ("%R%/w/la", "%R%/w/a")):
        if p == link or p.startswith(link + "/"):
            p = target + p[len(link):]
    return p


def check_tables(cases):
    """Everything in the exported bindings that is an abstraction table (string functions, path arithmetic,
    exportedness) is recomputed here independently of mockery; disagreement = the machinery is wrong (exit 2)."""
    seen = set()
    for c in cases:
        m = c["meta"]
        for which in ("data", "impl"):
            d = c[which]
            key = json.dumps(d, sort_keys=True)
            if key in seen:
                continue
            seen.add(key)
            for k, v in d.items():
                if "__" not in k or v == "%UNSPEC%":
                    continue
                var, f = k.split("__")
                if d[var] == "%UNSPEC%":
                    continue
                want = PIPE_PY[f](d[var])
                if want != v:
                    raise MachineryError(f"abstraction table disagrees: {f}({d[var]!r}) is {want!r}, the spec says {v!r}")
            n = d["InterfaceName"]
            first = n[0]
            exported = unicodedata.category(first) == "Lu"
            if (d["Mock"] == "Mock") != exported or m["exported"] != exported:
                raise MachineryError(f"exportedness table disagrees for {n!r}")
        cwd, cfgdir, ifdir = m["cwd"], m["cfgdir"], m["ifdir"]
        # documented bindings: path arithmetic only (what they are relative TO is the contract, not a table)
        if c["data"]["ConfigDir"] != cfgdir:
            raise MachineryError("Layout: documented ConfigDir is not the directory of the real config file")
        idr = c["data"]["InterfaceDirRelative"]
        under = (ifdir + "/").startswith(cfgdir + "/")
        open_case = m["via"] == "symroot" and cfgdir == "%R%"      # the link lies between the two: either name is fine
        if (idr != "%UNSPEC%") != (under and not open_case) or idr != "%UNSPEC%" and idr != posixpath.relpath(ifdir, cfgdir):
            raise MachineryError(f"Layout: RelStr({cfgdir},{ifdir}) = {idr!r} disagrees with posixpath")
        # code-shaped bindings (config.go after 77bca2b: everything from the absolute path of the file in use)
        if canon(c["impl"]["ConfigDir"]) != cfgdir or c["impl"]["ConfigDir"] != m["cfgdirlog"] or canon(m["cwdlog"]) != cwd or \
                canon(m["ifdirimpl"]) != ifdir or c["impl"]["InterfaceDir"] != m["ifdirimpl"]:
            raise MachineryError("Layout: a logical spelling does not denote the directory it stands for")
        under_spelled = (m["ifdirimpl"] + "/").startswith(m["cfgdirlog"] + "/")
        want = posixpath.relpath(m["ifdirimpl"], m["cfgdirlog"]) if under_spelled else "."
        if c["impl"]["InterfaceDirRelative"] != want:
            raise MachineryError("Layout: code-shaped InterfaceDirRelative disagrees with posixpath")
        if m["mode"] in ("flag_rel", "env_rel", "flagenv_rel"):
            want = posixpath.relpath(m["cfgdirlog"] + "/" + m["cfgname"], m["cwdlog"])
            if m["param"] != want:
                raise MachineryError(f"Layout: relative config parameter {m['param']!r} != {want!r}")
        elif m["mode"] in ("flag_abs", "env_abs", "flagenv_abs"):
            if m["param"] != m["cfgdirlog"] + "/" + m["cfgname"]:
                raise MachineryError("Layout: absolute config parameter is wrong")
        elif m["param"] != "":
            raise MachineryError("Layout: search mode with a config parameter")
        if m["mode"].startswith("flagenv") != bool(m["envparam"]) or m["envparam"] and m["envparam"] != m["decoy"] + "/" + m["decoyname"]:
            raise MachineryError("Layout: MOCKERY_CONFIG of a flag+env layout does not name the decoy file")


# ---------------------------------------------------------------------------------------------- worlds
IFACES = ["FooBar", "barBaz", "Ωmega", "_hid", "_Shouty", "設定"]


def deomega(x):
    """%O% / %o% in everything TLC exported -> the Greek letters (TLC's state queue is not safe for non-ASCII)"""
    if isinstance(x, str):
        return x.replace("%O%", "Ω").replace("%o%", "ω").replace("%C%", "設定")
    if isinstance(x, list):
        return [deomega(y) for y in x]
    if isinstance(x, dict):
        return {k: deomega(v) for k, v in x.items()}
    return x
PKGS = {"w": "wroot", "w/a": "apk", "w/a/b": "bpk", "w/k": "kpk"}
# source-file kinds (spec/Layout.tla SrcFile): file name, text before the package clause, text after it
SOURCES = {"w": ("svc.go", "//line /nonexistent/abs/gen.go:1\n", ""),
           "w/a": ("sv cω.go", "", ""),
           "w/a/b": ("gogo.go", "", "//line tmpl/mid.qtpl:7\n"),
           "w/k": ("go_log.go", "//line tmpl/gen.qtpl:1\n", "")}
SIBLING_FILE, SIBLING_IFACE = "a0.go", "A0Unrelated"      # an interface declared in another file of each package
PROBE = "PROBE\nPKG={{.PkgName}}\n{{range .Interfaces}}IFACE={{.Name}}\nSTRUCT={{.StructName}}\n{{end}}END\n"


class World:
    """One materialised layout with a set of cases in its config file."""

    def __init__(self, ctx, name, cases, qstyle="simple", level="entry"):
        """level: where the five templated parameters are written -- "entry" (configs: list of the interface, any
        number of cases per run) or, for a single case, "iface" (config: of the interface), "pkg", "root"."""
        self.cases = cases
        self.group = level.startswith("g-")
        if level != "entry" and not self.group and len(cases) != 1:
            raise MachineryError("only a single case can be configured above the entry level")
        m = cases[0]["meta"]
        self.meta = m
        self.root = os.path.realpath(str(ctx.mkdir(name)))
        R = self.root
        self.sub = lambda s: s.replace("%R%", R)
        files = {"go.mod": "module example.com/r\n\ngo 1.23\n", "w/go.mod": vlib.GO_SUM_MOD, "probe.templ": PROBE}
        for d, pn in PKGS.items():
            fn, before, after = SOURCES[d]
            files[d + "/" + SIBLING_FILE] = "package " + pn + "\n\ntype " + SIBLING_IFACE + " interface{ Zzz() }\n"     # Layout!FirstFile
            files[d + "/" + fn] = before + "package " + pn + "\n\n" + after + "".join(
                f"type {n} interface{{ Do(x int) string }}\n" for n in IFACES)
        for c in cases:
            d0 = [d for d in SOURCES if "%R%/" + d == c["meta"]["ifdir"]][0]
            if c["meta"]["srcfile"] != (SIBLING_FILE if c["meta"]["iface"] == SIBLING_IFACE else SOURCES[d0][0]):
                raise MachineryError("source file names of the harness and of Layout.tla / TemplateResolveMC.tla differ")
        tmpl = self.sub(m["tmpl"])
        conf = {"template": tmpl, "packages": {}}
        if tmpl != "testify":
            conf["formatter"] = "noop"
            conf["require-template-schema-exists"] = True
        self.order = collections.defaultdict(list)   # (pkgpath, iface) -> case ids in configs order
        self.texts = {}
        for c in cases:
            cm = c["meta"]
            ent = {}
            for p in PARAMS:
                deep = qdepth(c["vals"][p]) > 5      # 3^depth delimiters with the simple spelling
                ent[CFGKEY[p]] = self.sub(tok_text(c["vals"][p], "print" if deep else qstyle, c.get("style", "compact")))
            if tmpl != "testify" and c["expect"]["kind"] not in ("ok", "ok_or_error"):
                # no expected schema location to put a schema at: nothing but the resolution itself may fail
                ent["require-template-schema-exists"] = False
            self.texts[c["id"]] = ent
            if self.group:
                pk = None
            else:
                pk = conf["packages"].setdefault(cm["pkgpath"], {"interfaces": {}})
            if self.group:
                pass
            elif level == "entry":
                pk["interfaces"].setdefault(cm["iface"], {"configs": []})["configs"].append(ent)
            elif level == "iface":
                pk["interfaces"][cm["iface"]] = {"config": ent}
            elif level == "pkg":
                pk["config"] = ent
                pk["interfaces"][cm["iface"]] = {}
            else:
                conf.update(ent)
                pk["interfaces"][cm["iface"]] = {}
            self.order[(cm["pkgpath"], cm["iface"])].append(c["id"])
            # a schema the probe template's data satisfies, exactly where the contract says it is looked up
            e = c["expect"]
            if tmpl != "testify" and e["kind"] in ("ok", "ok_or_error"):
                sp = self.sub(e["vals"]["schema"])
                if sp.startswith("file://"):
                    sp = sp[len("file://"):]
                    if not os.path.isabs(sp):
                        sp = os.path.join(self.sub(m["cwd"]), sp)
                    files[os.path.relpath(os.path.normpath(sp), R)] = '{"type": "object"}\n'
        if self.group:
            # siblings: ONE text of the five values (package config: or top level), the interfaces are selected without
            # an entry of their own (all / include-interface-regex / recursive discovery)
            ents = {json.dumps(e, sort_keys=True) for e in self.texts.values()}
            if len(ents) != 1 or len({(c["meta"]["group"], c["meta"]["select"], c["meta"]["cfgpkg"]) for c in cases}) != 1 or \
                    any(c["expect"]["kind"] != "ok" for c in cases):
                raise MachineryError("a sibling group must share one text of the five values and be plainly resolvable: " + m["group"] + " " +
                                     str(sorted(ents))[:600] + str({c["expect"]["kind"] for c in cases}))
            ent = dict(next(iter(self.texts.values())))
            sel = m["select"]
            if sel == "regex":
                ent["include-interface-regex"] = "^(" + "|".join(sorted(re.escape(n) for n in m["members"])) + ")$"
            else:
                ent["all"] = True
                if sel == "recursive":
                    ent["recursive"] = True
            if level == "g-pkg":
                conf["packages"][m["cfgpkg"]] = {"config": ent}
            else:
                conf.update(ent)
                conf["packages"][m["cfgpkg"]] = {}
        files[os.path.relpath(self.sub(m["cfgdir"]) + "/" + m["cfgname"], R)] = json.dumps(conf, ensure_ascii=False, indent=1)
        if m["decoy"]:
            decoy = {"template": "testify", "dir": "{{.InterfaceDir}}/DECOY", "filename": "decoy_{{.InterfaceName}}.go",
                     "packages": {p: {"interfaces": {i: {} for i in v["interfaces"]}} for p, v in conf["packages"].items()}}
            files[os.path.relpath(self.sub(m["decoy"]) + "/" + m["decoyname"], R)] = json.dumps(decoy, ensure_ascii=False)
        vlib.write_files(R, files)
        os.symlink("w", os.path.join(R, "lnw"))              # Layout!Vias: symroot
        os.symlink("a", os.path.join(R, "w", "la"))          #              symsub
        self.before = set(vlib.tree_hash(R))
        self.args, self.env = [], {}
        if m["mode"].startswith("flag"):
            self.args = ["--config", self.sub(m["param"])]
            if m["envparam"]:            # flag and environment together: the command line wins
                self.env = {"MOCKERY_CONFIG": self.sub(m["envparam"])}
        elif m["mode"].startswith("env"):
            self.env = {"MOCKERY_CONFIG": self.sub(m["param"])}
        self.cwd = self.sub(m["cwdlog"])
        self.env = dict(self.env, PWD=self.cwd)              # os.Getwd() reports the logical path only with $PWD

    def new_files(self):
        return sorted(p for p, h in vlib.tree_hash(self.root).items() if h != "DIR" and p not in self.before)


def run_bin(ctx, w, tag, timeout=RUN_TIMEOUT):
    """thread-safe variant of ctx.run_mockery (own trace file per call)"""
    binp = ctx.mockery()
    tfile = os.path.join(w.root, f".trace-{tag}.ndjson")
    e = vlib.go_env(w.env)
    e["VERIFHOOK_TRACE"] = tfile
    t = time.time()
    to = False
    try:
        p = subprocess.run([str(binp), *w.args], cwd=w.cwd, env=e, capture_output=True, text=True,
                           timeout=timeout, errors="replace")
        code, out, err = p.returncode, p.stdout, p.stderr
    except subprocess.TimeoutExpired as ex:
        to, code = True, -9
        out = ex.stdout.decode("utf8", "replace") if isinstance(ex.stdout, bytes) else (ex.stdout or "")
        err = ex.stderr.decode("utf8", "replace") if isinstance(ex.stderr, bytes) else (ex.stderr or "")
    evs = []
    if os.path.exists(tfile):
        for ln in open(tfile, encoding="utf8", errors="replace").read().splitlines():
            try:
                evs.append(json.loads(ln))
            except ValueError:
                pass
        os.unlink(tfile)
    if "no space left on device" in (err + out).lower():
        raise MachineryError("the disk is full (mockery: no space left on device): cannot decide anything")
    return vlib.RunResult(code, out, err, time.time() - t, to, evs)


def calls_of(w, res):
    """hook events of one run -> per ParseTemplates call of a case: (case id, [events])"""
    calls = []
    cur_key, k, cur = None, 0, None
    for e in res.trace:
        ev = e.get("ev")
        if ev == "FileBegin":
            break
        if ev == "Select":
            cur_key, k = (e.get("pkg"), e.get("iface")), 0
        elif ev == "ResolveIter":
            if e.get("i") == 0:
                ids = w.order.get(cur_key, [])
                cid = ids[k] if k < len(ids) else None
                k += 1
                cur = (cid, [])
                calls.append(cur)
            if cur:
                cur[1].append({"ev": "ResolveIter", "i": e.get("i")})
        elif ev == "ResolveLoop" and cur:
            cur[1].append({"ev": "ResolveLoop"})
        elif ev == "Resolved" and cur:
            cur[1].append({"ev": "Resolved", "vals": {"dir": e.get("dir"), "filename": e.get("filename"), "pkgname": e.get("pkgname"),
                                                      "structname": e.get("structname"), "schema": e.get("schema")}})
    return [c for c in calls if c[0] is not None]


def parse_output(path, testify):
    try:
        txt = open(path, encoding="utf8", errors="replace").read()
    except OSError:
        return None
    if testify:
        pk = re.search(r"^package (\S+)", txt, re.M)
        return {"pkg": pk.group(1) if pk else None, "structs": re.findall(r"^type (\S+) struct", txt, re.M),
                "ifaces": re.findall(r"^// New(\S+) creates", txt, re.M)}
    pk = re.search(r"^PKG=(.*)$", txt, re.M)
    return {"pkg": pk.group(1) if pk else None, "structs": re.findall(r"^STRUCT=(.*)$", txt, re.M),
            "ifaces": re.findall(r"^IFACE=(.*)$", txt, re.M)}


def proj(w, vals):
    """projection used on both sides: the directory / schema location a value denotes, not its spelling"""
    d = w.sub(vals["dir"])
    d = os.path.normpath(os.path.join(w.cwd, d))
    s = w.sub(vals["schema"])
    if s.startswith("file://"):
        s = "file://" + os.path.normpath(os.path.join(w.cwd, s[len("file://"):]))
    s = s.replace(w.root, "%R%")
    if s.startswith("file://"):
        s = "file://" + canon(s[len("file://"):])
    return {"dir": canon(d.replace(w.root, "%R%")), "filename": vals["filename"], "pkgname": vals["pkgname"],
            "structname": vals["structname"], "schema": s}


def layout_class(m):
    if m["cwd_is_cfgdir"]:
        return "cwd=cfgdir"
    return "found_above" if m["found_above"] else "explicit_elsewhere"


def d14_of(c):
    m = c["meta"]
    if "ConfigDir" in c["uses"] and m["dev_configdir"]:
        return "ConfigDir"
    if "InterfaceDirRelative" in c["uses"] and m["dev_ifdirrel"]:
        return "InterfaceDirRelative"
    return ""


class Judge:
    def __init__(self, ctx):
        self.ctx = ctx
        self.n_runs = 0
        self.n_cases = 0
        self.by_kind = collections.Counter()
        self.trace_impl = []      # events for the code-shaped trace spec
        self.trace_contract = []  # events for the contract trace spec
        self.trace_index = []     # (case id) per begin event, both lists aligned separately
        self.lock = threading.Lock()
        self.n_split = 0
        self.hang_confirmed = False
        self.noted_decoy = False
        self.runs = []
        self.levels = collections.Counter()
        self.max_runs = 20000

    def sig(self, c, kind, **kw):
        m = c["meta"]
        s = {"kind": kind, "sid": m["sid"][:2] if m["sid"][0] in "BTLDG" else "res", "mode": m["mode"],
             "layout_class": layout_class(m), "via": m["via"], "predicted_deviation": d14_of(c), "template": "testify" if m["tmpl"] == "testify" else "custom", "spelling": c.get("style", "compact")}
        if m.get("group"):
            s.update(select=m["select"], level="g-" + m["glevel"])
        s.update(kw)
        return s

    def judge_run(self, w, res):
        """compare one run with the contract's expectation for each of its cases; returns list of case ids whose
        verdict could not be attributed (batch failed as a whole)"""
        ctx = self.ctx
        self.n_runs += 1
        self.runs.append(res)
        calls = dict()
        for cid, evs in calls_of(w, res):
            calls.setdefault(cid, evs)
        testify = w.meta["tmpl"] == "testify"
        new = w.new_files()
        if res.timed_out:
            return "hang"
        if len(w.cases) > 1 and res.code != 0 and not w.group:
            return "isolate"            # somebody failed: find out who by running the cases one by one
        decoy_used = [p for p in new if "DECOY" in p]
        for c in (w.cases[:2] if w.group and res.code != 0 else w.cases):   # a failed group: one report is enough
            self.n_cases += 1
            e = c["expect"]
            self.by_kind[e["kind"]] += 1
            evs = calls.get(c["id"])
            hook_vals = None
            if evs and evs[-1]["ev"] == "Resolved":
                hook_vals = evs[-1]["vals"]
            pred = c["predict"]
            matches_pred = bool(hook_vals is not None and pred["kind"] == "ok" and
                                {p: w.sub(pred["vals"][p]) for p in PARAMS} == hook_vals) or \
                bool(pred["kind"] == "error" and evs and evs[-1]["ev"] == "ResolveLoop")
            detail = {"case": c["id"], "config_entry": w.texts[c["id"]], "layout": c["meta"], "expect": e, "predict": pred,
                      "run": res.brief(), "hook": evs[-3:] if evs else None, "new_files": new[:20],
                      "documented_bindings": c["data"], "code_shaped_bindings": c["impl"]}
            if decoy_used:
                if c["meta"]["decoy_may_win"]:
                    # both file names in one directory: the documentation does not say which one is the config
                    if not self.noted_decoy:
                        self.noted_decoy = True
                        ctx.note("drift: with .mockery.yaml and .mockery.yml in one directory the .yml file was used "
                                 "(code-shaped model: .yaml first; the contract accepts either)")
                    continue
                ctx.violation(self.sig(c, "wrong-config-file"), detail)
                continue
            if res.panicked:
                ctx.note(f"panic while resolving {c['id']} (C09's business): {res.brief()['stderr_tail'][-200:]}")
            if e["kind"] == "unspecified":
                pass                                                # terminated: all the contract asks
            elif e["kind"] == "error":
                if res.code == 0:
                    ctx.violation(self.sig(c, "should-error-but-ok", matches_impl_prediction=matches_pred), detail)
                elif new:
                    # an error is fine, a file carrying an intermediate value is not
                    ctx.violation(self.sig(c, "truncated-value-written", matches_impl_prediction=matches_pred), detail)
            else:
                pv = proj(w, e["vals"])
                path = w.sub(pv["dir"]) + "/" + pv["filename"]
                got = parse_output(path, testify)
                if res.code != 0:
                    if e["kind"] == "ok":
                        ctx.violation(self.sig(c, "should-resolve-but-error", matches_impl_prediction=matches_pred,
                                               param="?" if hook_vals is None else ",".join(
                                                   p for p in PARAMS if proj(w, hook_vals)[p] != pv[p])), detail)
                    elif new:
                        ctx.violation(self.sig(c, "truncated-value-written", matches_impl_prediction=matches_pred), detail)
                else:
                    bad = []
                    if got is None:
                        bad.append("dir/filename")
                    else:
                        if got["pkg"] != pv["pkgname"]:
                            bad.append("pkgname")
                        if pv["structname"] not in got["structs"]:
                            bad.append("structname")
                    if bad:
                        detail["observed"] = got
                        detail["expected_path"] = path
                        ctx.violation(self.sig(c, "wrong-value", param=",".join(bad), matches_impl_prediction=matches_pred), detail)
            # ---- trace material
            if evs:
                ended = evs[-1]["ev"] in ("Resolved", "ResolveLoop")
                tev = list(evs) + ([] if ended else [{"ev": "abort"}])
                if e["kind"] != "unspecified" and not any(has_bad(c["vals"][p]) for p in PARAMS):
                    cc = {"id": c["id"], "vals": c["vals"], "impl": {k: w.sub(v) for k, v in c["impl"].items()}}
                    self.trace_impl.append((c, [{"ev": "begin", "c": cc}] + tev))
                if not d14_of(c):
                    pe = {"kind": e["kind"], "vals": proj(w, e["vals"]) if e["kind"] in ("ok", "ok_or_error") else e["vals"]}
                    cc = {"id": c["id"], "vals": c["vals"], "exp": pe}
                    t2 = []
                    for x in tev:
                        if x["ev"] == "Resolved":
                            t2.append({"ev": "Resolved", "proj": proj(w, x["vals"])})
                        else:
                            t2.append(x)
                    self.trace_contract.append((c, [{"ev": "begin", "c": cc}] + t2))
        return None


LEVELS = ["entry", "iface", "pkg", "root"]


def run_world(ctx, judge, name, cases, qstyle="simple", level="entry"):
    """run one batch; when the batch fails as a whole, halve it until the failing cases stand alone"""
    if judge.n_runs > judge.max_runs:
        raise MachineryError(f"more than {judge.max_runs} runs needed: giving up")
    if judge.hang_confirmed and any(c["expect"]["kind"] != "ok" for c in cases):
        return []       # one reproduced hang is the verdict; do not wait for every other case to time out
    w = World(ctx, name, cases, qstyle, level)
    res = run_bin(ctx, w, "a")
    with judge.lock:
        verdict = judge.judge_run(w, res)
        judge.levels[level] += len(cases)

    def halves():
        if w.group:
            raise MachineryError(f"run of sibling group {w.meta['group']} timed out: cannot attribute it to one interface")
        h = len(cases) // 2
        run_world(ctx, judge, name + "l", cases[:h], qstyle)
        run_world(ctx, judge, name + "r", cases[h:], qstyle)
    if verdict == "hang":
        if len(cases) > 1:
            halves()
            return []
        # a hang is a violation only when it reproduces -- with a much longer bound, once
        c = cases[0]
        if not judge.hang_confirmed:
            w2 = World(ctx, name + "-again", cases, qstyle, level)
            res2 = run_bin(ctx, w2, "b", RETRY_TIMEOUT)
            if not res2.timed_out:
                raise MachineryError(f"run of {c['id']} timed out once after {RUN_TIMEOUT}s and finished in {res2.wall:.1f}s when "
                                     "repeated: machine too loaded to decide")
            judge.hang_confirmed = True
        ctx.violation(judge.sig(c, "hang"), {"case": c["id"], "config_entry": w.texts[c["id"]], "timeout_s": [RUN_TIMEOUT, RETRY_TIMEOUT],
                                            "layout": c["meta"], "expect": c["expect"]})
        return []
    if verdict == "isolate":
        with judge.lock:
            judge.n_split += 1
        halves()
    return []


def _run(ctx):
    thorough = ctx.thorough()
    T = [time.time()]

    def lap(what):
        if os.environ.get("VERIF_DEBUG"):
            print(f"DEBUG lap {what}: {time.time() - T[0]:.1f}s", file=sys.stderr)
        T[0] = time.time()
    ctx.mockery()   # build first (not inside worker threads)
    lap("build")

    # ------------------------------------------------------------------ 1. model checking
    r_live = ctx.tlc("TemplateResolveMC", "TemplateResolve_live.cfg" if thorough else "TemplateResolve_live_quick.cfg",
                     workers=8, timeout=1500, coverage=thorough)
    if not r_live.ok:
        raise MachineryError("TLC: liveness / map-order check of the resolve loop failed (model level):\n" + r_live.tail())
    r = ctx.tlc("TemplateResolveMC", "TemplateResolve_thorough.cfg" if thorough else "TemplateResolve_quick.cfg",
                workers=1, timeout=3000, coverage=thorough)
    if thorough:
        # an action is vacuous when neither run (interleaved slice, atomic passes) ever took it
        def zero(res):
            return {re.match(r"<(\w+) ", ln).group(1) for ln in res.coverage_zero()}
        z = zero(r_live) & zero(r)
        if z:
            raise MachineryError("vacuous: spec actions never taken: " + ", ".join(sorted(z)))
    if r.violated:
        ctx.note(f"model level: {r.violated} violated on TemplateResolve (prediction only)")
    elif not r.ok:
        raise MachineryError("TLC failed on TemplateResolve:\n" + r.tail())
    lap("tlc")
    cases = deomega(r.prints("CASE"))
    spellings = r.prints("SPELLINGS")
    if not spellings or sorted(spellings[0]) != sorted(SPELLINGS):
        raise MachineryError("TemplateResolve!Spellings and the spellings of the harness differ")
    for c in cases:
        # the spelling of the actions is a free choice (it never changes the expectation), except where the final value
        # still shows an action literally ({{.StructName}} being its own fixpoint)
        literal = any("{{" in v for v in c["expect"]["vals"].values())
        c["style"] = "compact" if literal else ctx.rng.choice(SPELLINGS)
    gstyle = {}
    for c in cases:      # the siblings of a group share ONE text, hence one spelling
        g = c["meta"].get("group")
        if g:
            gstyle.setdefault(g, c["style"])
            if c["style"] == "compact":
                gstyle[g] = "compact"
    for c in cases:
        if c["meta"].get("group"):
            c["style"] = gstyle[c["meta"]["group"]]
    replay_only = None
    if getattr(ctx, "replay", None):
        try:
            replay_only = json.load(open(ctx.replay))["detail"]["case"]
        except (OSError, ValueError, KeyError) as e:
            raise MachineryError(f"cannot read replay file {ctx.replay}: {e}")
    if len(cases) < 500:
        raise MachineryError(f"too few exported cases ({len(cases)})")
    if not any(c["meta"]["iface"] == "Ωmega" for c in cases):
        raise MachineryError("non-ASCII interface name was lost between TLC and the harness")
    check_tables(cases)

    # vacuity: the interesting situations are present
    kinds = collections.Counter(c["expect"]["kind"] for c in cases)
    need = {"ok", "error", "unspecified", "ok_or_error"}
    if not need <= set(kinds):
        raise MachineryError(f"vacuous: expectation kinds missing: {need - set(kinds)}")
    if not any(c["expect"]["n"] >= 3 for c in cases) or not any(qdepth(c["vals"]["structname"]) >= 2 for c in cases):
        raise MachineryError("vacuous: no multi-level escapes / no value needing three passes")
    for var in ("ConfigDir", "InterfaceDirRelative"):
        if not any(c["meta"]["found_above"] and var in c["uses"] for c in cases) or \
                not any((not c["meta"]["found_above"]) and (not c["meta"]["cwd_is_cfgdir"]) and var in c["uses"] for c in cases):
            raise MachineryError(f"vacuous: {var} never exercised with a config file away from the working directory")
    if not any(c["meta"]["mode"].startswith("flagenv") for c in cases) or not any(c["meta"]["decoy_may_win"] for c in cases):
        raise MachineryError("vacuous: no layout with flag and MOCKERY_CONFIG together / with both config file names in one directory")
    if not any(c["expect"]["kind"] == "ok_or_error" and c["predict"]["kind"] == "error" for c in cases) or \
            not any(c["expect"]["kind"] == "ok_or_error" and c["predict"]["n"] == 19 for c in cases):
        raise MachineryError("vacuous: no slowly converging value on either side of the code's iteration cap")
    if not any(has_bad(c["vals"]["structname"]) and qdepth(c["vals"]["structname"]) for c in cases):
        raise MachineryError("vacuous: no value with invalid template syntax that appears only after a pass")
    if not any(c["meta"]["iface"] == "設定" for c in cases) or not any(c["meta"]["iface"] == "_Shouty" for c in cases):
        raise MachineryError("vacuous: no interface whose first letter is caseless / an underscore before a capital")
    for via in ("symroot", "symsub"):
        if not any(c["meta"]["via"] == via and c["meta"]["mode"].startswith("search") and "InterfaceDirRelative" in c["uses"]
                   and not c["meta"]["cwd_is_cfgdir"] for c in cases):
            raise MachineryError(f"vacuous: no search layout with the working directory reached through a symlink ({via})")
    if not any(c["meta"]["decoy"] for c in cases):
        raise MachineryError("vacuous: no layout with a decoy config file")
    if not any(not c["meta"]["exported"] and "Mock" in c["uses"] for c in cases):
        raise MachineryError("vacuous: Mock never evaluated for an unexported interface")
    if not replay_only_hint(ctx):
        sib_need = {(sel, lv, p, v) for sel in ("all", "regex", "recursive") for lv in ("pkg", "root") for p in PARAMS
                    for v in ("InterfaceName", "Mock", "StructName", "InterfaceFile")}
        sib_have, sib_sizes = set(), collections.Counter()
        for c in cases:
            m = c["meta"]
            if m.get("group"):
                sib_sizes[(m["group"], m["pkgpath"])] += 1
                for p in PARAMS:
                    for v in uses_in(c["vals"][p]):
                        sib_have.add((m["select"], m["glevel"], p, v))
        # (structname referring to itself is the self-reference family's business)
        sib_need -= {(sel, lv, "structname", "StructName") for sel in ("all", "regex", "recursive") for lv in ("pkg", "root")}
        if sib_need - sib_have:
            raise MachineryError(f"vacuous: sibling family lacks (selection, level, parameter, per-interface variable): {sorted(sib_need - sib_have)[:6]}")
        if not sib_sizes or min(sib_sizes.values()) < 2:
            raise MachineryError("vacuous: a sibling group with fewer than two interfaces of one package")
    for c in cases:   # the code-shaped loop count and the closed form agree (model sanity)
        if c["model"]["outcome"] == "done" and c["model"]["iters"] != c["predict"]["n"] + 1:
            raise MachineryError("model: iteration count and closed form disagree for " + c["id"])

    # ------------------------------------------------------------------ 2. replay through the real binary
    rng = ctx.rng
    all_cases = cases
    if replay_only:
        rgroup = {c["meta"].get("group") for c in cases if c["id"] == replay_only} - {None}
        cases = [c for c in cases if c["id"] == replay_only or c["meta"].get("group") in rgroup]    # a sibling comes with its group
        if not cases:
            raise MachineryError(f"case {replay_only} of the replay file is not generated by this tier")
    by_layout = collections.defaultdict(list)
    groups = collections.defaultdict(list)
    for c in cases:
        if c["meta"].get("group"):
            groups[c["meta"]["group"]].append(c)
        else:
            by_layout[(c["meta"]["lid"], c["meta"]["tmpl"])].append(c)
    solo, batches = [], []
    budget_solo = 7000 if thorough else 170
    for key in sorted(by_layout):
        cs = by_layout[key]
        risky, safe = [], []
        for c in cs:
            pred_differs = c["expect"]["kind"] in ("ok", "ok_or_error") and c["predict"]["kind"] == "ok" and \
                c["predict"]["vals"]["schema"] != c["expect"]["vals"]["schema"] and "ConfigDir" in c["uses"] and d14_of(c)
            (risky if c["expect"]["kind"] != "ok" or pred_differs else safe).append(c)
        rng.shuffle(safe)
        rng.shuffle(risky)
        if not thorough:
            # sample: every layout keeps each shape family at least once; reference-graph slices are thinned
            keep = []
            seen = collections.Counter()
            for c in safe:
                fam = (c["meta"]["sid"] if c["meta"]["sid"][0] in "BTLD" else c["meta"]["sid"][:2], c["meta"]["iface"])
                lim = 1 if c["meta"]["sid"][0] in "BTLD" else 8
                if seen[fam] < lim:
                    seen[fam] += 1
                    keep.append(c)
            safe = keep
        # unique output paths inside a batch are guaranteed by the tags; split large batches
        for i in range(0, len(safe), 60):
            batches.append((key, safe[i:i + 60]))
        solo += risky
    rng.shuffle(solo)
    # keep every distinct (shape, kind) among the solo cases, then fill up to the budget
    pick, rest, seen = [], [], set()
    for c in solo:
        k = (c["meta"]["sid"], c["expect"]["kind"], d14_of(c), layout_class(c["meta"])) if c["meta"]["sid"][0] in "BTLD" else \
            (c["meta"]["sid"][:2], c["expect"]["kind"])
        if k not in seen:
            seen.add(k)
            pick.append(c)
        else:
            rest.append(c)
    solo = pick + rest[:max(0, budget_solo - len(pick))]

    # sibling groups: thorough replays every one; quick keeps every (layout, shape, selection mode, package) and draws the
    # level (package config: / top level) the shared values are written at
    gsel = sorted(groups)
    if not thorough and not replay_only:
        by_gk = collections.defaultdict(list)
        for g in gsel:
            m = groups[g][0]["meta"]
            by_gk[(m["lid"], m["sid"][:2], m["select"], m["cfgpkg"], m["tmpl"])].append(g)
        gsel = sorted(rng.choice(sorted(v)) for _, v in sorted(by_gk.items()))
    judge = Judge(ctx)
    # some plainly resolvable cases also run alone, so that every config level carries templated values
    extra = [c for _, cs in batches for c in cs[:1]]
    rng.shuffle(extra)
    solo += extra[:600 if thorough else 48]
    jobs = [("b%d" % i, cs, "simple", "entry") for i, (_, cs) in enumerate(batches)] + \
           [("s%d" % i, [c], "print" if i % 3 == 2 else "simple", LEVELS[i % 4]) for i, c in enumerate(solo)] + \
           [("g%d" % i, sorted(groups[g], key=lambda c: c["id"]), "simple", "g-" + groups[g][0]["meta"]["glevel"])
            for i, g in enumerate(gsel)]
    ctx.cov["sibling_groups_exported"] = len(groups)
    ctx.cov["sibling_groups_replayed"] = len(gsel)
    t_replay = time.time()
    with ThreadPoolExecutor(max_workers=8) as ex:
        list(ex.map(lambda j: run_world(ctx, judge, *j), jobs))
    lap("replay")
    ctx.cov["evaluations"] = judge.n_cases
    ctx.cov["mockery_runs"] = judge.n_runs
    ctx.cov["replay_wall_s"] = round(time.time() - t_replay, 1)
    ctx.cov["cases_exported_by_tlc"] = len(all_cases)
    ctx.cov["cases_by_expectation"] = dict(judge.by_kind)
    ctx.cov["layouts"] = len({c["meta"]["lid"] for c in all_cases})
    ctx.cov["batches_split_after_failure"] = judge.n_split
    ctx.cov["cases_by_config_level"] = dict(judge.levels)

    # ------------------------------------------------------------------ 3. trace validation
    st = os.environ.get("VERIF_SELFTEST", "")
    if st.startswith("corrupt-trace"):
        # self-test of the binding: falsify one recorded field / drop one event; the trace spec must reject it
        k = len(judge.trace_contract) // 2
        c0, evs = next((c, e) for c, e in judge.trace_contract[k:] if e[-1]["ev"] == "Resolved" and c["expect"]["kind"] == "ok")
        if st == "corrupt-trace-value":
            evs[-1]["proj"]["structname"] += "x"
        elif st == "corrupt-trace-drop":
            del evs[1]          # the first ResolveIter event: pass numbers no longer start at 0
        print(f"SELFTEST {st}: corrupted the trace of {c0['id']}", file=sys.stderr)
    n_tr = 0
    for level, material in (("contract", judge.trace_contract), ("impl", judge.trace_impl)):
        material = list(material)
        rejected = 0
        while material:
            events = [e for _, evs in material for e in evs]
            ok, tr = ctx.validate_trace("TemplateResolveTrace", f"TemplateResolveTrace_{level}.cfg", events, timeout=900)
            if ok:
                n_tr += len(material)
                break
            if tr.consumed is None:
                raise MachineryError("trace validation gave no CONSUMED line:\n" + tr.tail())
            bad = tr.consumed[0]
            pos = 0
            hit = None
            for idx, (c, evs) in enumerate(material):
                if pos + len(evs) > bad:
                    hit = idx
                    break
                pos += len(evs)
            if hit is None:
                raise MachineryError("trace rejected beyond its end")
            c, evs = material[hit]
            n_tr += hit + 1
            rejected += 1
            at = evs[bad - pos]
            if level == "contract":
                ctx.violation(judge.sig(c, "trace-contract", at=at["ev"]),
                              {"case": c["id"], "rejected_event": at, "events": evs, "expect": c["expect"],
                               "spec": "spec/TemplateResolveTrace.tla Level=contract"})
            else:
                ctx.note(f"drift: hook trace of {c['id']} is not a behaviour of the code-shaped loop (at {json.dumps(at)[:160]})")
            material = material[hit + 1:]
            if rejected >= (8 if level == "contract" else 3):
                break
    ctx.cov["traces_validated_against_impl"] = n_tr
    lap("traces")

    # ------------------------------------------------------------------ 4. whole-run trace validation (shared root spec)
    import runtrace
    runs = list(judge.runs)
    if not thorough and len(runs) > 400:
        runs = ctx.rng.sample(runs, 400)
    rej = runtrace.validate_runs(ctx, runs)
    own, other = runtrace.mine(rej, "C11")
    for x in own:
        ctx.violation({"kind": "run-trace-rejected", "why": x["why"][0]},
                      {"why": x["why"], "at": x["at"], "event": x["event"], "events": x["events"]})
    for x in other:
        ctx.note(f"run-trace clause of {x['props']} rejected a run: {x['why']}")
    for d in rej.drift:
        ctx.note("drift: " + ", ".join(d["why"]))
    ctx.cov["traces_validated_against_impl"] += rej.validated
    ctx.cov["whole_run_traces_validated"] = rej.validated
    lap("runtrace")

    if os.environ.get("VERIF_DEBUG"):
        cnt = collections.Counter(json.dumps(sg, sort_keys=True) for sg, _ in ctx.violations)
        for k, v in cnt.most_common():
            print("DEBUG", v, k, file=sys.stderr)
        for k, v in ctx.known_hits.items():
            print("DEBUG known", k, v["n"], file=sys.stderr)
        for n in ctx.notes[:20]:
            print("DEBUG note", n[:300], file=sys.stderr)

    # ------------------------------------------------------------------ evidence
    nontrivial = {json.dumps(c["vals"], sort_keys=True) + c["meta"]["lid"] for c in all_cases if c["expect"]["n"] != 1 or not c["meta"]["cwd_is_cfgdir"]}
    ctx.cov["distinct_nontrivial"] = len(nontrivial)
    ctx.cov["rule"] = ("one case = (layout, package dir, interface, five templated values); non-trivial = needs other than "
                       "exactly one changing pass, or has its config file somewhere else than in the working directory")
    for c in (all_cases[0], next(c for c in all_cases if c["expect"]["kind"] == "error"),
              next(c for c in all_cases if c["expect"]["n"] >= 4),
              next(c for c in all_cases if c["meta"]["found_above"] and "ConfigDir" in c["uses"])):
        ctx.sample({"id": c["id"], "config_entry": {CFGKEY[p]: tok_text(c["vals"][p]) for p in PARAMS},
                    "expect": c["expect"], "code_shaped_prediction": c["predict"]})
    ctx.assumptions += [
        "templated values are built from the token alphabet of TemplateResolve.tla (literal, variable, function pipeline, "
        "escaped braces); the only cross reference the code offers is {{.StructName}}",
        "layouts: tree of spec/Layout.tla (depth 3), cwd inside the module, one real config file and at most one decoy "
        "(found by search, --config, MOCKERY_CONFIG, flag and environment together, both file names in one directory)",
        "ConfigDir / InterfaceDir / template-schema are compared by the location they denote (relative spellings are "
        "resolved against the working directory), not by spelling",
        "function semantics (lower, snakecase, ...) are tables recomputed in Python; C16 owns them",
        "a value stable after <= 6 changing passes must resolve; slower convergent values may also be refused",
    ]
    return {"level": "model_checking", "exhaustive": False}


def run(ctx):
    """environment trouble (disk full, too many open files, ...) is never a verdict"""
    try:
        return _run(ctx)
    except OSError as e:
        raise MachineryError(f"operating system error while running the check: {e!r}")


if __name__ == "__main__":
    main("C11", run)
