#!/usr/bin/env python3
"""C15 -- name and import allocators offered to templates never produce collisions.

1. TLC checks the code-shaped model (spec/Alloc.tla: suffix search, alias search) against the contract
   (freshness, purity, stability, injectivity) exhaustively over all op histories up to MaxHist.
2. Every transition TLC generated is exported with a representative history and replayed on the REAL
   template.Registry / template.MethodScope (drivers/alloc, linked against the working tree); the recorded
   replies are validated by TLC against spec/AllocContract.tla (AllocTrace.tla).  The verdict is contract
   acceptance only: a refactor that picks different-but-fresh names passes; Impl disagreement is drift.
   Alphabets: names/prefixes/packages (quick), source package, non-ASCII, path order, import-path look-alikes
   (vendored form, "/"-suffix, internal/, /v2, go-foo, foo.v1; the contract is keyed by the path the registry
   REPORTS), and histories over the real MethodScope.AddVar / ResolveVariableNameCollisions (go/types variables
   built by the driver) where a variable's name is registered by somebody else only after the variable was added.
3. Long simulated histories (TLC -simulate) are executed by probe templates *through the mockery binary*
   starting from the scope mockery produced for a real method, and validated the same way.
"""
import json
import os
import re
import sys

sys.path.insert(0, os.path.join(os.path.dirname(__file__), "..", "lib"))
from vlib import MachineryError, main  # noqa: E402

PATHS = ["io", "q/src", "s/src", "w/io", "x/io", "y/io", "z/io0"]

SIM_CFG = """SPECIFICATION Spec
CONSTANTS
  Prefixes <- MCPrefixesS
  AddNames <- MCAddNamesS
  Pkgs <- MCPkgsT
  DstPath = "x/io"
  MaxHist = %d
CONSTRAINT EmitAtDepth
CHECK_DEADLOCK FALSE
"""


def unasc(s):
    """model token QxxQ -> the rune it stands for (TLC only ever sees ASCII)"""
    return re.sub(r"Q([0-9a-f]{2,5})Q", lambda m: chr(int(m.group(1), 16)), s)


def asc(s):
    """inverse of unasc, applied to everything recorded from the real code before TLC reads it"""
    return "".join(c if ord(c) < 128 else "Q%xQ" % ord(c) for c in s)


def universe(prefixes, names, pkgnames, upto=12):
    u = set(names)
    for p in list(prefixes) + list(pkgnames) + list(names):
        u.add(p)
        for i in range(0, upto):
            u.add(f"{p}{i}")
    return sorted(u)


def impl_replies_differ(model_ops, real_events):
    """drift: the code-shaped model predicted another reply than the code gave (not a verdict)."""
    for mo, ev in zip(model_ops, real_events):
        if "res" in mo and "res" in ev and mo["res"] != ev["res"]:
            return {"model": mo, "real": ev}
    return None


def validate(ctx, events, mc_module="AllocTraceMC", files=None, label=""):
    """Validate one concatenated trace; on rejection locate the failing case, record it, cut it out and
    continue with the rest so that one rejection never hides later ones."""
    n_ok = 0
    rejected = []
    evs = list(events)
    while evs:
        ok, r = ctx.validate_trace(mc_module, "AllocTrace.cfg", evs, extra_files=files, timeout=600)
        if ok:
            n_ok += sum(1 for e in evs if e["op"] == "reset")
            break
        if r.consumed is None:
            raise MachineryError("trace validation gave no CONSUMED line:\n" + r.tail())
        bad = r.consumed[0]  # 0-based index of the first event not matched
        case = evs[bad].get("case")
        case_events = [e for e in evs if e.get("case") == case]
        rejected.append({"case": case, "at": evs[bad], "events": case_events, "label": label})
        n_ok += len({e.get("case") for e in evs[:bad] if e.get("case") != case})
        # continue after the rejected case
        rest = [e for i, e in enumerate(evs) if e.get("case") != case and i > bad]
        # keep only whole cases (each starts with reset)
        while rest and rest[0]["op"] != "reset":
            rest.pop(0)
        evs = rest
        if len(rejected) >= 5:
            break
    return n_ok, rejected


def run(ctx):
    thorough = ctx.thorough()
    assert PATHS == sorted(PATHS), "PathOrder table must be byte-wise sorted"  # abstraction table check
    # ---------------------------------------------------------------- 1. model checking Impl => Contract
    cfg = "Alloc_thorough.cfg" if thorough else "Alloc_quick.cfg"
    r = ctx.tlc("AllocMC", cfg, workers=1, timeout=3000)
    if r.violated:
        # a model-level counterexample is a prediction; the replay below decides
        ctx.note(f"model-level: {r.violated} violated on Alloc (prediction only)")
    elif not r.ok:
        raise MachineryError("TLC failed on Alloc:\n" + r.tail())
    # second alphabet, focused on the import registry: a path that is a "/"-suffix of another, a package named
    # like the source package, and the source package itself (registry created WITH a source package)
    cfgp = "Alloc_pkgs_thorough.cfg" if thorough else "Alloc_pkgs_quick.cfg"
    rp = ctx.tlc("AllocMC", cfgp, workers=1, timeout=3000)
    if rp.violated:
        ctx.note(f"model-level: {rp.violated} violated on Alloc/{cfgp} (prediction only)")
    elif not rp.ok:
        raise MachineryError("TLC failed on Alloc (package alphabet):\n" + rp.tail())
    cases = [dict(c, dst="x/io", srcpath="", srcname="") for c in r.prints("CASE")]
    cases_p = [dict(c, dst="s/src", srcpath="s/src", srcname="src") for c in rp.prints("CASE")]
    if len(cases_p) < 100:
        raise MachineryError(f"too few exported histories for the package alphabet ({len(cases_p)}): vacuous")
    cases += cases_p
    # fourth / fifth alphabet: non-ASCII identifiers (as QxxQ tokens), and import paths whose byte-wise order
    # differs from their element-wise order ('-' and '.' sort below '/')
    tier = "thorough" if thorough else "quick"
    # sixth alphabet ("look"): import-path look-alikes (vendored form of another path, "/"-suffix / prefix, internal/,
    # trailing /v2, go-foo / foo.v1) with coinciding package names; seventh ("vars"): histories over the real
    # MethodScope.AddVar / ResolveVariableNameCollisions interleaved with AddName / AllocateName / imports, where a
    # variable's name becomes visible as a qualifier / type name / reservation only AFTER the variable was added
    for nm, least in (("uni", 50), ("paths", 50), ("look", 50), ("vars", 500)):
        rx = ctx.tlc("AllocMC", f"Alloc_{nm}_{tier}.cfg", workers=1, timeout=3000)
        if rx.violated:
            ctx.note(f"model-level: {rx.violated} violated on Alloc/{nm} (prediction only)")
        elif not rx.ok:
            raise MachineryError(f"TLC failed on Alloc ({nm} alphabet):\n" + rx.tail())
        cx = [dict(c, dst="x/io", srcpath="", srcname="") for c in rx.prints("CASE")]
        if len(cx) < least:
            raise MachineryError(f"too few exported histories for the {nm} alphabet ({len(cx)}): vacuous")
        if nm == "vars":
            def late(c):
                """a resolve after two AddVars where the earlier variable is named like the qualifier / type name the
                later one registered, or like a name added / allocated after it"""
                ops = c["ops"]
                for i, o in enumerate(ops):
                    if o["op"] != "resolve":
                        continue
                    for ai, a in enumerate(ops[:i]):
                        if a["op"] == "addvar" and any(
                                (b["op"] == "addvar" and a["name"] in (b["q"], b["tstr"])) or
                                (b["op"] == "add" and b["name"] == a["name"]) or
                                (b["op"] == "alloc" and b["res"] == a["name"]) for b in ops[ai + 1:i]):
                            return True
                return False
            n_late = sum(1 for c in cx if late(c))
            if n_late < 20:
                raise MachineryError(f"vacuous: only {n_late} variable histories with a name registered after the variable")
            ctx.cov["model_histories_name_registered_after_variable"] = n_late
            if True:
                # every history with a ResolveVariableNameCollisions, a sample of the others (quick: 1500 + 300;
                # thorough: 30000 + 3000 -- the replay holds all cases in memory)
                keep = [c for c in cx if any(o["op"] == "resolve" for o in c["ops"])]
                rest_av = [c for c in cx if not any(o["op"] == "resolve" for o in c["ops"]) and any(o["op"] == "addvar" for o in c["ops"])]
                rest = [c for c in cx if not any(o["op"] in ("resolve", "addvar") for o in c["ops"])]
                keep += ctx.rng.sample(rest_av, min(30000 if thorough else 1500, len(rest_av))) + ctx.rng.sample(rest, min(3000 if thorough else 300, len(rest)))
                cx = keep
        if nm == "look":
            def both(c):
                ps = {o["path"] for o in c["ops"] if o["op"] == "import"}
                return any("/vendor/" in p and p.split("/vendor/", 1)[1] in ps for p in ps)
            if not any(both(c) and any(o["op"] in ("imports", "qual") for o in c["ops"]) for c in cx):
                raise MachineryError("vacuous: no look-alike history imports a vendored path and its plain form and then lists / queries")
            if True:
                # every history with two imports (look-alike pairs), a sample of the others (quick 1000, thorough 10000)
                two = [c for c in cx if sum(1 for o in c["ops"] if o["op"] == "import") >= 2]
                one = [c for c in cx if sum(1 for o in c["ops"] if o["op"] == "import") < 2]
                cx = two + ctx.rng.sample(one, min(10000 if thorough else 1000, len(one)))
        cases += cx
    # third alphabet, deep: one prefix allocated ~30 times, 13 same-named packages (suffix / alias index >= 10)
    rd = ctx.tlc("AllocMC", "Alloc_deep_sim.cfg", workers=1, simulate="num=%d" % (120 if thorough else 40), depth=31,
                 timeout=600, count=False)
    deep = []
    seen_d = set()
    for h in rd.prints("CASE"):
        k = json.dumps(h["ops"], sort_keys=True)
        if k not in seen_d:
            seen_d.add(k)
            deep.append(dict(h, dst="x/io", srcpath="", srcname=""))
    if len(deep) < 10:
        raise MachineryError(f"deep simulation exported only {len(deep)} histories:\n" + rd.tail())
    if not any(sum(1 for o in c["ops"] if o["op"] == "alloc") >= 11 for c in deep) or \
       not any(sum(1 for o in c["ops"] if o["op"] == "import") >= 11 for c in deep):
        ctx.note("deep histories: no history with >= 11 allocations / imports this seed")
    cases += deep
    if len(cases) < 100:
        raise MachineryError(f"too few exported histories ({len(cases)}): vacuous")
    # coverage / vacuity: every op kind must occur in the exported histories
    kinds = {o["op"] for c in cases for o in c["ops"]}
    need = {"add", "exists", "suggest", "alloc", "import", "imports", "qual", "newscope", "addvar", "resolve"}
    if not need <= kinds:
        raise MachineryError(f"vacuous: ops never taken {need - kinds}")
    collisions = sum(1 for c in cases for o in c["ops"] if o["op"] in ("alloc", "suggest") and o["res"] != o["prefix"])
    aliased = sum(1 for c in cases for o in c["ops"] if o["op"] == "import" and not o["nil"] and o["res"] != o["name"])
    if collisions == 0 or aliased == 0:
        raise MachineryError("vacuous: no history with a name collision / aliased import")

    # ---------------------------------------------------------------- 2. replay on the real objects
    drv = ctx.build_driver("alloc")
    prefixes = {o["prefix"] for c in cases for o in c["ops"] if "prefix" in o}
    names = {o["name"] for c in cases for o in c["ops"] if o["op"] in ("add", "exists", "addvar")}
    pkgnames = {o["name"] for c in cases for o in c["ops"] if o["op"] == "import"}
    uni = universe(prefixes, names, pkgnames, upto=40)
    d = ctx.mkdir("replay")
    inp = {"universe": uni, "cases": [{"inpkg": c["inpkg"], "dst": c["dst"], "srcpath": c["srcpath"], "srcname": c["srcname"],
                                        "ops": [{k: v for k, v in o.items() if k in ("op", "name", "prefix", "path", "pname")}
                                                for o in c["ops"]]} for c in cases]}
    (d / "cases.json").write_text(unasc(json.dumps(inp)), encoding="utf-8")
    import subprocess
    p = subprocess.run([str(drv), str(d / "cases.json"), str(d / "trace.ndjson")], capture_output=True, text=True, timeout=1800 if thorough else 600)
    if p.returncode != 0:
        raise MachineryError("alloc driver died: " + p.stderr[-500:])
    events = [json.loads(asc(x)) for x in (d / "trace.ndjson").read_text(encoding="utf-8").splitlines()]
    if not any("Qf6Q" in json.dumps(e) for e in events) or \
       not any(e["op"] == "imports" and "x/io-b/c" in e["paths"] and "x/io/c" in e["paths"] for e in events):
        raise MachineryError("vacuous: no replayed history with a non-ASCII name / with both path-order witnesses listed")
    ctx.cov["evaluations"] += len(cases)
    by_case = {}
    for e in events:
        by_case.setdefault(e["case"], []).append(e)
    drift = 0
    for ci, c in enumerate(cases):
        dd = impl_replies_differ(c["ops"], by_case.get(ci, [])[1:])
        if dd:
            drift += 1
            if drift <= 3:
                ctx.note(f"drift (code differs from Alloc.tla Impl, contract decides): {json.dumps(dd)}")
    allpaths = sorted(({o["path"] for c in cases for o in c["ops"] if "path" in o} | set(PATHS) |
                       {e["rpath"] for e in events if "rpath" in e} | {p for e in events for p in e.get("paths", [])}) - {""})
    mc1 = ("---- MODULE AllocTraceMC1 ----\nEXTENDS AllocTrace\nMCPathOrder == <<" +
           ", ".join(json.dumps(p) for p in allpaths) + ">>\n====\n")
    n_ok, rej = validate(ctx, events, mc_module="AllocTraceMC1", files={"AllocTraceMC1.tla": mc1},
                         label="in-process replay of TLC transitions")
    ctx.cov["traces_validated_against_impl"] += n_ok + len(rej)
    for rj in rej:
        ctx.violation({"kind": "contract-rejects-reply", "op": rj["at"]["op"], "route": "in-process"},
                      {"rejected_at": rj["at"], "history_with_real_replies": rj["events"],
                       "contract": "spec/AllocContract.tla", "how": "bin/check C15 replays this history"})
    ctx.sample({"history": cases[len(cases) // 2]["ops"], "real_replies": by_case.get(len(cases) // 2)})

    # ---------------------------------------------------------------- 3. probe templates through the binary
    n_hist = 300 if thorough else 60
    depth = 16 if thorough else 12
    simcfg = (SIM_CFG % depth)
    sim = ctx.tlc("AllocMC", "Alloc_sim.cfg", workers=1, simulate=f"num={n_hist}", depth=depth + 1, timeout=600,
                  files={"cfg/Alloc_sim.cfg": simcfg}, count=False)
    seen = set()
    hists = []
    for h in sim.prints("CASE"):
        k = json.dumps(h, sort_keys=True)
        if k not in seen:
            seen.add(k)
            hists.append(h)
    hists = hists[:n_hist]
    if len(hists) < n_hist // 2:
        raise MachineryError(f"simulation exported only {len(hists)} histories:\n" + sim.tail())
    ev2, pathorder = run_probe_templates(ctx, hists)
    mc = ("---- MODULE AllocTraceMC2 ----\nEXTENDS AllocTrace\nMCPathOrder == <<" +
          ", ".join(json.dumps(p) for p in pathorder) + ">>\n====\n")
    n_ok2, rej2 = validate(ctx, ev2, mc_module="AllocTraceMC2", files={"AllocTraceMC2.tla": mc},
                           label="probe template through the mockery binary")
    ctx.cov["traces_validated_against_impl"] += n_ok2 + len(rej2)
    ctx.cov["evaluations"] += len(hists)
    for rj in rej2:
        ctx.violation({"kind": "contract-rejects-reply", "op": rj["at"]["op"], "route": "template"},
                      {"rejected_at": rj["at"], "history_with_real_replies": rj["events"],
                       "contract": "spec/AllocContract.tla"})
    if ev2:
        ctx.sample({"probe_template_trace_head": ev2[:8]})
    ctx.cov["distinct_nontrivial"] = len({json.dumps(c["ops"], sort_keys=True) for c in cases if len(c["ops"]) >= 2}) + len(hists)
    ctx.cov["rule"] = ("every transition generated by TLC on Alloc.tla (representative history each) + simulated long histories; "
                       "non-trivial = at least two operations")
    ctx.cov["model_histories_with_name_collision"] = collisions
    ctx.cov["model_histories_with_aliased_import"] = aliased
    ctx.cov["impl_drift_cases"] = drift
    ctx.assumptions += ["TLC explores all histories up to MaxHist over the small alphabets of spec/AllocMC.tla (small-scope)",
                        "names outside the probed universe are treated as not visible (cannot cause a false alarm)",
                        "AddVar histories use variables of type string or of a named struct type T of a package; the exported-name "
                        "uniqueness loop of ResolveVariableNameCollisions is exercised by the probe-template signatures only"]
    return {"level": "model_checking", "exhaustive": False}


# ---------------------------------------------------------------------- probe templates
PKGS = {  # path suffix -> package name
    "x/io": "io", "y/io": "io", "z/io0": "io0", "w/io": "io", "q/src": "src",
    "x/io-b/c": "c", "x/io/c": "c", "rp": "rp",
}
REPLACED = 7  # interfaces with i % REPLACED == 3 get replace-type x/io.T -> rp.T (the method's scope must see "rp")


def tq(s):
    return json.dumps(s)


def run_probe_templates(ctx, hists):
    """One world, one interface (own output file => own registry) per history, one template whose blocks are
    keyed by interface name.  The scope is the one mockery built for the interface's first method."""
    mod = "example.com/w"
    files = {}
    for sfx, name in PKGS.items():
        files[f"{sfx}/t.go"] = f"package {name}\n\ntype T struct{{}}\n"
    src = ["package src", "", "import (", f'\txio "{mod}/x/io"', f'\tyio "{mod}/y/io"', f'\tzio "{mod}/z/io0"', ")", ""]
    # parameter names collide with qualifiers, with each other's suffixes and -- once exported -- with each other
    SIGS = ["M(a xio.T, io yio.T, a1 string, _ zio.T) (io0 int)",
            "M(id xio.T, ID yio.T, a string) (A zio.T, err error)",
            "M(url int, Url yio.T, URL xio.T, io0 zio.T)",
            "M(a int, a1 int, a2 xio.T, io yio.T) (io1 zio.T)",
            "M(g\u00f6 xio.T, \u043a yio.T, na\u00efve string) (g\u00f61 zio.T)",
            "M(c xio.T, rp yio.T, c0 string) (rp0 zio.T)",
            # the name first, the colliding qualifier only later (imported by a later parameter / result)
            "M(io string, a xio.T) (io0 int)",
            "M(c int, io1 string) (io yio.T, io0 xio.T, err error)"]
    for i in range(len(hists)):
        src.append(f"type I{i} interface {{ {SIGS[i % len(SIGS)]} }}")
        if any(o["op"] == "suggest" for o in hists[i]["ops"]):
            src.append(f"type J{i} interface {{ {SIGS[i % len(SIGS)]} }}")
    files["src/src.go"] = "\n".join(src) + "\n"
    uni = universe(["a", "a1", "io", "type", "src", "id", "ID", "url", "Url", "URL", "A", "err", "g\u00f6", "\u043a", "na\u00efve"],
                   ["a", "a1", "a2", "io", "io0", "io1", "type1", "typeParam"], ["io", "io0", "src", "c", "rp"])
    w = ctx.new_world(files, module=mod, name="probeworld")

    def run_variant(off, inpkg):
        """one mockery run; off is added to every case number; inpkg selects the in-package layout"""
        t = []

        def block(iface, i, ops):
            t.append('{{- range $i, $x := .Interfaces }}{{ if eq $x.Name "%s" }}' % iface)
            t.append("{{- $s := (index $x.Methods 0).Scope }}")
            t.append('{"op":"reset","case":%d,"inpkg":@INPKG@,"dst":"@DST@","visible":[{{ range $k, $n := (split "," %s) }}{{ if $s.NameExists $n }}{{ printf "%%q" $n }},{{ end }}{{ end }}""]}'
                     % (i, tq(",".join(uni))))
            # imports already made by mockery for the real signature
            t.append('{{- range $.Imports }}\n{"op":"import","case":%d,"name":"","path":{{ printf "%%q" .Path }},"nil":false,"res":{{ printf "%%q" .Qualifier }}}{{ end }}' % i)
            # the scope mockery produced for the method must see the qualifiers of the file's imports
            t.append('{"op":"scopesees","case":%d,"visible":[{{ range $k, $n := (split "," %s) }}{{ if $s.NameExists $n }}{{ printf "%%q" $n }},{{ end }}{{ end }}""],'
                     '"must":[{{ range (index $x.Methods 0).Params }}{{ printf "%%q" .Var.Name }},{{ end }}{{ range (index $x.Methods 0).Returns }}{{ printf "%%q" .Var.Name }},{{ end }}""],'
                     '"mustseen":[{{ range (index $x.Methods 0).Params }}{{ if $s.NameExists .Var.Name }}{{ printf "%%q" .Var.Name }},{{ end }}{{ end }}{{ range (index $x.Methods 0).Returns }}{{ if $s.NameExists .Var.Name }}{{ printf "%%q" .Var.Name }},{{ end }}{{ end }}""]}'
                     % (i, tq(",".join(uni))))
            for o in ops:
                op = o["op"]
                if op == "add":   # AddName has no result and cannot be called from a template: use exists instead
                    op = "exists"
                if op == "exists":
                    t.append('{"op":"exists","case":%d,"name":%s,"res":{{ $s.NameExists %s }}}' % (i, tq(o["name"]), tq(o["name"])))
                elif op == "suggest":
                    t.append('{"op":"suggest","case":%d,"prefix":%s,"res":{{ printf "%%q" ($s.SuggestName %s) }}}' % (i, tq(o["prefix"]), tq(o["prefix"])))
                elif op == "alloc":
                    t.append('{"op":"alloc","case":%d,"prefix":%s,"res":{{ printf "%%q" ($s.AllocateName %s) }}}' % (i, tq(o["prefix"]), tq(o["prefix"])))
                elif op == "import":
                    path = f"{mod}/{o['path']}"
                    t.append('{{- $p := $.Registry.AddImport %s %s }}\n{"op":"import","case":%d,"name":%s,"path":%s,"rpath":{{ if $p }}{{ printf "%%q" $p.Path }}{{ else }}""{{ end }},"nil":{{ if $p }}false{{ else }}true{{ end }},"res":{{ if $p }}{{ printf "%%q" $p.Qualifier }}{{ else }}""{{ end }}}'
                             % (tq(o["name"]), tq(path), i, tq(o["name"]), tq(path)))
                elif op == "imports":
                    t.append('{"op":"imports","case":%d,"paths":[{{ range $.Imports }}{{ printf "%%q" .Path }},{{ end }}""],"quals":[{{ range $.Imports }}{{ printf "%%q" .Qualifier }},{{ end }}""]}' % i)
                elif op == "qual":
                    path = f"{mod}/{o['path']}"
                    t.append('{"op":"qual","case":%d,"path":%s,"found":{{ $f := false }}{{ range $.Imports }}{{ if eq .Path %s }}{{ $f = true }}{{ end }}{{ end }}{{ $f }},"res":{{ if $f }}{{ printf "%%q" ($.Imports.PkgQualifier %s) }}{{ else }}""{{ end }}}'
                             % (i, tq(path), tq(path), tq(path)))
                elif op == "newscope":
                    t.append("{{- $s = $.Registry.MethodScope }}")
                    t.append('{"op":"newscope","case":%d,"visible":[{{ range $k, $n := (split "," %s) }}{{ if $s.NameExists $n }}{{ printf "%%q" $n }},{{ end }}{{ end }}""]}'
                             % (i, tq(",".join(uni))))
            t.append("{{- end }}{{ end }}")

        erased = {}
        for i, h in enumerate(hists):
            block("I%d" % i, i + off, h["ops"])
            if any(o["op"] == "suggest" for o in h["ops"]):
                # twin interface with the same signature (own file, own registry, own scope): the same history
                # with the suggest operations erased; its replies are logged next to the original ones
                erased[i] = [o for o in h["ops"] if o["op"] != "suggest"]
                block("J%d" % i, i + off, erased[i])
        dst = f"{mod}/src" if inpkg else f"{mod}/out"
        text = "\n".join(t) + "\n"
        text = text.replace("@INPKG@", "true" if inpkg else "false").replace("@DST@", dst)
        (w / "probe.templ").write_text(unasc(text), encoding="utf-8")
        conf = {"template": "file://" + str(w / "probe.templ"), "require-template-schema-exists": False, "formatter": "noop",
                "dir": str(w / ("src" if inpkg else "out")), "filename": "{{.InterfaceName}}.txt",
                "pkgname": "src" if inpkg else "out",
                "packages": {f"{mod}/src": {"config": {"all": True}, "interfaces": {
                    f"{k}{i}": {"config": {"replace-type": {f"{mod}/x/io": {"T": {"pkg-path": f"{mod}/rp", "type-name": "T"}}}}}
                    for i in range(len(hists)) if i % REPLACED == 3
                    for k in (("I", "J") if any(o["op"] == "suggest" for o in hists[i]["ops"]) else ("I",))}}}}
        (w / ".mockery.yml").write_text(json.dumps(conf))
        res = ctx.run_mockery(w, timeout=300)
        if res.code != 0:
            if res.panicked:
                ctx.violation({"kind": "panic", "route": "template"}, res.brief())
                return []
            raise MachineryError("probe-template run failed (exit %s): %s" % (res.code, (res.err + res.out)[-1500:]))
        def read_events(fn):
            f = w / ("src" if inpkg else "out") / fn
            if not f.exists():
                raise MachineryError(f"probe output {f} missing")
            out = []
            for ln in f.read_text(encoding="utf-8").splitlines():
                ln = asc(ln.strip())
                if not ln.startswith("{"):
                    continue
                ln = ln.replace(',""]', "]").replace('[""]', "[]")
                e = json.loads(ln)
                for k in ("visible", "paths", "quals", "must", "mustseen"):   # strip the trailing "" sentinel of the list fields
                    if k in e:
                        e[k] = [x for x in e[k] if x != ""]
                out.append(e)
            return out

        events = []
        for i in range(len(hists)):
            evs = read_events(f"I{i}.txt")
            if i in erased:
                er = [e for e in read_events(f"J{i}.txt")]
                j = 0
                for e in evs:
                    if e["op"] == "suggest":
                        continue
                    if j >= len(er) or er[j]["op"] != e["op"]:
                        raise MachineryError(f"probe outputs I{i}/J{i} do not line up at {e}")
                    for k in ("res", "quals", "visible", "found", "nil", "rpath"):
                        if k in er[j]:
                            e[k + "_erased"] = er[j][k]
                    j += 1
            events += evs
        return events

    events = run_variant(0, False) + run_variant(len(hists), True)
    paths = sorted({e["path"] for e in events if "path" in e} | {p for e in events for p in e.get("paths", [])})
    return events, paths


if __name__ == "__main__":
    main("C15", run)
